(* PileupProofs.v — lemmas and theorems about the pileup model (C06). *)
From Coq Require Import String.
From Coq Require Import ZifyBool Permutation.
From Aldy Require Import Base Consts Pileup.
Import List.
Open Scope Z_scope.

(* ================================================================== strings and keys *)
Lemma str_eqb_refl a : str_eqb a a = true.
Proof. induction a; simpl; [reflexivity|]. rewrite Z.eqb_refl, IHa. reflexivity. Qed.

Lemma str_eqb_eq a : forall b, str_eqb a b = true -> a = b.
Proof.
  induction a as [|x a IH]; intros [|y b] H; simpl in H; try discriminate; [reflexivity|].
  apply andb_true_iff in H. destruct H as [H1 H2]. apply Z.eqb_eq in H1. subst. f_equal. apply IH, H2.
Qed.

Lemma str_eqb_spec a b : reflect (a = b) (str_eqb a b).
Proof.
  destruct (str_eqb a b) eqn:E; constructor.
  - apply str_eqb_eq, E.
  - intros ->. rewrite str_eqb_refl in E. discriminate.
Qed.

Lemma str_eqb_sym_aux a b : str_eqb a b = str_eqb b a.
Proof. destruct (str_eqb_spec a b) as [->|H]; [rewrite str_eqb_refl; reflexivity|]. destruct (str_eqb_spec b a); congruence. Qed.

Lemma key_eqb_spec a b : reflect (a = b) (key_eqb a b).
Proof.
  unfold key_eqb. destruct a as [p o], b as [p' o']; simpl.
  destruct (Z.eqb_spec p p'); simpl.
  - destruct (str_eqb_spec o o'); constructor; congruence.
  - constructor; congruence.
Qed.

Lemma key_eqb_refl a : key_eqb a a = true.
Proof. destruct (key_eqb_spec a a); congruence. Qed.

Lemma is_ins_sub a b : is_ins (sub_op a b) = false.
Proof. unfold is_ins, sub_op. destruct (a =? 105); reflexivity. Qed.
Lemma is_ins_ref : is_ins ref_op = false. Proof. reflexivity. Qed.
Lemma is_ins_gap : is_ins gap_op = false. Proof. reflexivity. Qed.
Lemma is_ins_ins x : is_ins (ins_op x) = true. Proof. reflexivity. Qed.

Lemma is_ins_classify g p b : is_ins (classify g p b) = false.
Proof. unfold classify. destruct (in_gene g p && negb (base g p =? b)); [apply is_ins_sub | reflexivity]. Qed.

(* ================================================================== counting *)
Lemma count_app {A} (f : A -> bool) l1 l2 : count f (l1 ++ l2) = count f l1 + count f l2.
Proof. unfold count. rewrite filter_app, app_length, Nat2Z.inj_add. reflexivity. Qed.
Lemma count_nil {A} (f : A -> bool) : count f [] = 0. Proof. reflexivity. Qed.
Lemma count_cons {A} (f : A -> bool) x l : count f (x :: l) = (if f x then 1 else 0) + count f l.
Proof. unfold count. cbn [filter]. destruct (f x); cbn [length]; [rewrite Nat2Z.inj_succ|]; lia. Qed.
Lemma count_ext {A} (f g : A -> bool) l : (forall x, In x l -> f x = g x) -> count f l = count g l.
Proof.
  induction l as [|x l IH]; intros H; [reflexivity|]. rewrite !count_cons, IH.
  - rewrite (H x); [reflexivity | left; reflexivity].
  - intros y Hy. apply H. right. exact Hy.
Qed.
Lemma count_flat_map {A B} (f : B -> bool) (h : A -> list B) l :
  count f (flat_map h l) = zsum (map (fun a => count f (h a)) l).
Proof. induction l as [|a l IH]; simpl; [reflexivity|]. rewrite count_app, IH. reflexivity. Qed.
Lemma count_nonneg {A} (f : A -> bool) l : 0 <= count f l.
Proof. unfold count. lia. Qed.

Definition dpred (x : Z) (o : obs) : bool := (fst (fst o) =? x) && negb (is_ins (snd (fst o))).
Lemma depth_app l1 l2 x : depth (l1 ++ l2) x = depth l1 x + depth l2 x.
Proof. apply count_app. Qed.

(* ================================================================== events *)
Lemma obs_of_app a b : obs_of (a ++ b) = obs_of a ++ obs_of b.
Proof. unfold obs_of. apply flat_map_app. Qed.
Lemma dump_of_app a b : dump_of (a ++ b) = dump_of a ++ dump_of b.
Proof. unfold dump_of. apply flat_map_app. Qed.
Lemma phase_of_app a b : phase_of (a ++ b) = phase_of a ++ phase_of b.
Proof. unfold phase_of. apply flat_map_app. Qed.

Lemma obs_of_opt_du (b : bool) k : obs_of (if b then [] else [Du k]) = [].
Proof. destruct b; reflexivity. Qed.
Lemma obs_of_opt_ph (b : bool) k : obs_of (if b then [Ph k] else []) = [].
Proof. destruct b; reflexivity. Qed.

(* ================================================================== the walk: final state and concatenation *)
Fixpoint m_end (n : nat) (sq : list Z) (ql : option (list Z)) (pq : Q) : wstate :=
  match n with
  | O => (sq, ql, pq)
  | S k => m_end k (tl sq) (option_map (@tl Z) ql) (match ql with Some l => inject_Z (hd 0 l) | None => pq end)
  end.

Lemma m_run_end g c mqb n : forall p sq ql pq, snd (m_run g c mqb n p sq ql pq) = m_end n sq ql pq.
Proof.
  induction n as [|n IH]; intros; simpl; [reflexivity|].
  specialize (IH (p + 1) (tl sq) (option_map (@tl Z) ql) (match ql with Some l => inject_Z (hd 0 l) | None => pq end)).
  destruct (m_run g c mqb n (p + 1) (tl sq) (option_map (@tl Z) ql) _) as [ev st]. simpl in *. exact IH.
Qed.

Lemma tl_skipn {A} (l : list A) n : tl (skipn n l) = skipn (S n) l.
Proof. revert l. induction n as [|n IH]; intros [|x l]; try reflexivity. change (tl (skipn n l) = skipn (S n) l). apply IH. Qed.

Lemma m_end_sq n : forall sq ql pq, fst (fst (m_end n sq ql pq)) = skipn n sq.
Proof.
  induction n as [|n IH]; intros; simpl; [reflexivity|]. rewrite IH. destruct sq; [destruct n|]; reflexivity.
Qed.
Lemma m_end_ql n : forall sq ql pq, snd (fst (m_end n sq ql pq)) = option_map (skipn n) ql.
Proof.
  induction n as [|n IH]; intros; simpl; [destruct ql; reflexivity|]. rewrite IH.
  destruct ql as [l|]; simpl; [|reflexivity]. f_equal. destruct l; [destruct n|]; reflexivity.
Qed.

(* state after walking a CIGAR prefix: (position, remaining query, remaining qualities, prev_q) *)
Fixpoint walk_end (cg : list (cop * Z)) (p : Z) (sq : list Z) (ql : option (list Z)) (pq : Q) : Z * wstate :=
  match cg with
  | [] => (p, (sq, ql, pq))
  | (o, n) :: t =>
    let k := len_of n in
    match o with
    | CM | CEq | CX => let '(sq', ql', pq') := m_end k sq ql pq in walk_end t (p + Z.of_nat k) sq' ql' pq'
    | CD => walk_end t (p + Z.of_nat k) sq ql pq
    | CI => walk_end t p (skipn k sq) (option_map (skipn k) ql)
                     (match ql with Some l => qmean (map inject_Z (firstn k l)) | None => pq end)
    | CS => walk_end t p (skipn k sq) (option_map (skipn k) ql) pq
    | CN | CH | CP => walk_end t p sq ql pq
    end
  end.

Lemma walk_app g c mqb a : forall b p sq ql pq,
  walk g c mqb (a ++ b) p sq ql pq =
  walk g c mqb a p sq ql pq ++
  (let '(p', (sq', ql', pq')) := walk_end a p sq ql pq in walk g c mqb b p' sq' ql' pq').
Proof.
  induction a as [|[o n] a IH]; intros; simpl; [reflexivity|].
  assert (HM : (let '(ev, (sq', ql', pq')) := m_run g c mqb (len_of n) p sq ql pq in
                ev ++ walk g c mqb (a ++ b) (p + Z.of_nat (len_of n)) sq' ql' pq') =
               (let '(ev, (sq', ql', pq')) := m_run g c mqb (len_of n) p sq ql pq in
                ev ++ walk g c mqb a (p + Z.of_nat (len_of n)) sq' ql' pq') ++
               (let '(p', (sq', ql', pq')) :=
                  (let '(sq', ql', pq') := m_end (len_of n) sq ql pq in walk_end a (p + Z.of_nat (len_of n)) sq' ql' pq') in
                walk g c mqb b p' sq' ql' pq')).
  { pose proof (m_run_end g c mqb (len_of n) p sq ql pq) as E.
    destruct (m_run g c mqb (len_of n) p sq ql pq) as [ev st]. simpl in E. subst st.
    destruct (m_end (len_of n) sq ql pq) as [[sq' ql'] pq']. rewrite IH, app_assoc. reflexivity. }
  destruct o; simpl; try apply IH; try exact HM.
  - rewrite IH. destruct (phaseable g p); simpl; rewrite <- ?app_assoc; reflexivity.
  - rewrite IH. rewrite <- !app_assoc. simpl. destruct (phaseable g p); simpl; rewrite <- ?app_assoc; reflexivity.
Qed.

(* ================================================================== observations of a match run, by position *)
Definition at_pos (x : Z) (os : list obs) : list obs := filter (dpred x) os.
Lemma depth_at_pos os x : depth os x = Z.of_nat (length (at_pos x os)).
Proof. reflexivity. Qed.
Lemma at_pos_app x a b : at_pos x (a ++ b) = at_pos x a ++ at_pos x b.
Proof. apply filter_app. Qed.

Definition qual_at (ql : option (list Z)) (pq : Q) (j : nat) : Q :=
  match ql with Some l => inject_Z (nth j l 0) | None => pq end.

Lemma m_run_step g c mqb k p sq ql pq :
  obs_of (fst (m_run g c mqb (S k) p sq ql pq)) =
  ((p, classify g p (hd 78 sq)), (mqb, binq c (qual_at ql pq 0)))
    :: obs_of (fst (m_run g c mqb k (p + 1) (tl sq) (option_map (@tl Z) ql) (qual_at ql pq 0))).
Proof.
  cbn [m_run].
  replace (match ql with Some l => inject_Z (hd 0 l) | None => pq end) with (qual_at ql pq 0)
    by (unfold qual_at; destruct ql as [[|? ?]|]; reflexivity).
  destruct (m_run g c mqb k (p + 1) (tl sq) (option_map (@tl Z) ql) (qual_at ql pq 0)) as [ev st].
  cbn [fst]. unfold obs_of at 1. cbn [flat_map]. rewrite !flat_map_app. fold (obs_of ev).
  change (flat_map (fun e : event => match e with Ob o => [o] | _ => [] end)) with obs_of.
  rewrite obs_of_opt_du, obs_of_opt_ph. reflexivity.
Qed.

Lemma qual_at_tl ql pq i : qual_at (option_map (@tl Z) ql) (qual_at ql pq 0) i = qual_at ql pq (S i).
Proof. unfold qual_at. destruct ql as [[|a l]|]; simpl; try reflexivity. destruct i; reflexivity. Qed.

Lemma nth_tl {A} (l : list A) i d : nth i (tl l) d = nth (S i) l d.
Proof. destruct l; simpl; [destruct i|]; reflexivity. Qed.

Lemma m_run_at g c mqb n : forall p sq ql pq x,
  at_pos x (obs_of (fst (m_run g c mqb n p sq ql pq))) =
  if (p <=? x) && (x <? p + Z.of_nat n)
  then [((x, classify g x (nth (Z.to_nat (x - p)) sq 78)), (mqb, binq c (qual_at ql pq (Z.to_nat (x - p)))))]
  else [].
Proof.
  induction n as [|n IH]; intros.
  - simpl. destruct ((p <=? x) && (x <? p + 0)) eqn:E; [lia | reflexivity].
  - rewrite m_run_step. unfold at_pos in *. cbn [filter]. rewrite IH. unfold dpred at 1. cbn [fst snd].
    rewrite is_ins_classify. cbn [negb]. rewrite andb_true_r.
    destruct (p =? x) eqn:E.
    + apply Z.eqb_eq in E. subst x.
      replace ((p + 1 <=? p) && (p <? p + 1 + Z.of_nat n)) with false by lia.
      replace ((p <=? p) && (p <? p + Z.of_nat (S n))) with true by lia.
      replace (Z.to_nat (p - p)) with O by lia. destruct sq; reflexivity.
    + destruct ((p + 1 <=? x) && (x <? p + 1 + Z.of_nat n)) eqn:E1.
      * replace ((p <=? x) && (x <? p + Z.of_nat (S n))) with true by lia.
        replace (Z.to_nat (x - p)) with (S (Z.to_nat (x - (p + 1)))) by lia.
        rewrite nth_tl, qual_at_tl. reflexivity.
      * replace ((p <=? x) && (x <? p + Z.of_nat (S n))) with false by lia. reflexivity.
Qed.

Lemma at_pos_gap_run c mqb q : forall n p x,
  at_pos x (map (fun y => ((y, gap_op), (mqb, binq c q))) (zseq p n)) =
  if (p <=? x) && (x <? p + Z.of_nat n) then [((x, gap_op), (mqb, binq c q))] else [].
Proof.
  induction n as [|n IH]; intros; simpl.
  - destruct ((p <=? x) && (x <? p + 0)) eqn:E; [lia | reflexivity].
  - unfold at_pos in *. rewrite IH. unfold dpred. cbn [fst snd]. rewrite is_ins_gap. cbn [negb]. rewrite andb_true_r.
    destruct (p =? x) eqn:E.
    + apply Z.eqb_eq in E. subst x.
      replace ((p + 1 <=? p) && (p <? p + 1 + Z.of_nat n)) with false by lia.
      replace ((p <=? p) && (p <? p + Z.pos (Pos.of_succ_nat n))) with true by lia. reflexivity.
    + destruct ((p + 1 <=? x) && (x <? p + 1 + Z.of_nat n)) eqn:E1.
      * replace ((p <=? x) && (x <? p + Z.pos (Pos.of_succ_nat n))) with true by lia. reflexivity.
      * replace ((p <=? x) && (x <? p + Z.pos (Pos.of_succ_nat n))) with false by lia. reflexivity.
Qed.

Lemma obs_of_map_ob (f : Z -> obs) l : obs_of (map (fun y => Ob (f y)) l) = map f l.
Proof. induction l; simpl; [reflexivity|]. f_equal. exact IHl. Qed.

Lemma m_end_none n : forall sq pq, snd (m_end n sq None pq) = pq.
Proof. induction n; intros; simpl; [reflexivity | apply IHn]. Qed.

Lemma covered_lb cg : forall s x, covered cg s x = true -> s <= x.
Proof.
  induction cg as [|[o n] t IH]; intros s x H; simpl in H; [discriminate|].
  destruct o; try (apply IH in H; lia);
    (apply orb_true_iff in H; destruct H as [H|H]; [lia | apply IH in H; lia]).
Qed.

Lemma aligned_lb cg : forall s qi x j, aligned cg s qi x = Some j -> s <= x.
Proof.
  induction cg as [|[o n] t IH]; intros s qi x j H; simpl in H; [discriminate|].
  destruct o; try (apply IH in H; lia);
    (destruct ((s <=? x) && (x <? s + Z.of_nat (len_of n))) eqn:E; [lia | apply IH in H; lia]).
Qed.

Lemma aligned_covered cg : forall s qi x j, aligned cg s qi x = Some j -> covered cg s x = true.
Proof.
  induction cg as [|[o n] t IH]; intros s qi x j H; simpl in *; [discriminate|].
  destruct o; try (eapply IH; eassumption);
    try (destruct ((s <=? x) && (x <? s + Z.of_nat (len_of n))) eqn:E; [reflexivity | simpl; eapply IH; eassumption]).
Qed.

(* ================================================================== observations of a whole alignment, by position *)
Lemma nth_skipn_add {A} (l : list A) d : forall k i, nth i (skipn k l) d = nth (k + i) l d.
Proof.
  induction l as [|a l IH]; intros k i.
  - rewrite skipn_nil. destruct i, k; reflexivity.
  - destruct k; [reflexivity|]. simpl. apply IH.
Qed.

Definition exp_at (g : gview) (c : consts) (mqb : Q) (seq0 : list Z) (ql0 : option (list Z)) (pq0 : Q)
                  (cg : list (cop * Z)) (p : Z) (qi : nat) (x : Z) (gq : Q) : list obs :=
  match aligned cg p qi x with
  | Some j => [((x, classify g x (nth j seq0 78)), (mqb, binq c (qual_at ql0 pq0 j)))]
  | None => if covered cg p x then [((x, gap_op), (mqb, gq))] else []
  end.

Lemma qual_at_skipn ql0 pq pq0 qi i : (ql0 = None -> pq = pq0) ->
  qual_at (option_map (skipn qi) ql0) pq i = qual_at ql0 pq0 (qi + i).
Proof.
  intros H. unfold qual_at. destruct ql0 as [l|]; simpl; [rewrite nth_skipn_add; reflexivity | apply H; reflexivity].
Qed.

Lemma skipn_skipn {A} : forall a b (l : list A), skipn a (skipn b l) = skipn (a + b) l.
Proof.
  intros a b. revert a. induction b as [|b IH]; intros a l.
  - rewrite Nat.add_0_r. reflexivity.
  - destruct l as [|y l]; [rewrite !skipn_nil; reflexivity|].
    rewrite Nat.add_succ_r. cbn [skipn]. apply IH.
Qed.

Lemma option_map_skipn_skipn (ql0 : option (list Z)) a b :
  option_map (skipn a) (option_map (skipn b) ql0) = option_map (skipn (b + a)) ql0.
Proof. destruct ql0; simpl; [|reflexivity]. rewrite skipn_skipn. f_equal. f_equal. lia. Qed.

Lemma exp_at_none g c mqb seq0 ql0 pq0 cg p qi x gq :
  x < p -> exp_at g c mqb seq0 ql0 pq0 cg p qi x gq = [].
Proof.
  intros H. unfold exp_at.
  destruct (aligned cg p qi x) eqn:E; [apply aligned_lb in E; lia|].
  destruct (covered cg p x) eqn:E2; [apply covered_lb in E2; lia | reflexivity].
Qed.

Lemma walk_at g c mqb seq0 ql0 pq0 cg : forall p qi pq x, (ql0 = None -> pq = pq0) ->
  exists gq, at_pos x (obs_of (walk g c mqb cg p (skipn qi seq0) (option_map (skipn qi) ql0) pq))
             = exp_at g c mqb seq0 ql0 pq0 cg p qi x gq.
Proof.
  induction cg as [|[o n] t IH]; intros p qi pq x Hpq.
  - exists 0%Q. reflexivity.
  - assert (HM : exists gq,
        at_pos x (obs_of (let '(ev, (sq', ql', pq')) := m_run g c mqb (len_of n) p (skipn qi seq0) (option_map (skipn qi) ql0) pq in
                          ev ++ walk g c mqb t (p + Z.of_nat (len_of n)) sq' ql' pq'))
        = match (if (p <=? x) && (x <? p + Z.of_nat (len_of n)) then Some (qi + Z.to_nat (x - p))%nat
                 else aligned t (p + Z.of_nat (len_of n)) (qi + len_of n)%nat x) with
          | Some j => [((x, classify g x (nth j seq0 78)), (mqb, binq c (qual_at ql0 pq0 j)))]
          | None => if ((p <=? x) && (x <? p + Z.of_nat (len_of n))) || covered t (p + Z.of_nat (len_of n)) x
                    then [((x, gap_op), (mqb, gq))] else []
          end).
    { pose proof (m_run_end g c mqb (len_of n) p (skipn qi seq0) (option_map (skipn qi) ql0) pq) as E.
      pose proof (m_run_at g c mqb (len_of n) p (skipn qi seq0) (option_map (skipn qi) ql0) pq x) as A.
      destruct (m_run g c mqb (len_of n) p (skipn qi seq0) (option_map (skipn qi) ql0) pq) as [ev st].
      cbn [fst snd] in E, A. subst st.
      pose proof (m_end_sq (len_of n) (skipn qi seq0) (option_map (skipn qi) ql0) pq) as E1.
      pose proof (m_end_ql (len_of n) (skipn qi seq0) (option_map (skipn qi) ql0) pq) as E2.
      assert (E3 : ql0 = None -> snd (m_end (len_of n) (skipn qi seq0) (option_map (skipn qi) ql0) pq) = pq0).
      { intros ->. simpl. rewrite m_end_none. apply Hpq. reflexivity. }
      destruct (m_end (len_of n) (skipn qi seq0) (option_map (skipn qi) ql0) pq) as [[sq' ql'] pq'].
      cbn [fst snd] in E1, E2, E3. subst sq' ql'.
      rewrite skipn_skipn, option_map_skipn_skipn. rewrite (Nat.add_comm (len_of n) qi).
      destruct (IH (p + Z.of_nat (len_of n)) (qi + len_of n)%nat pq' x E3) as [gq Hgq].
      exists gq. rewrite obs_of_app, at_pos_app, A, Hgq.
      destruct ((p <=? x) && (x <? p + Z.of_nat (len_of n))) eqn:Ein.
      - rewrite exp_at_none by lia. rewrite nth_skipn_add, (qual_at_skipn ql0 pq pq0) by exact Hpq. reflexivity.
      - reflexivity. }
    destruct o; cbn [walk aligned covered exp_at]; unfold exp_at in *; cbn [aligned covered]; try exact HM.
    + (* I *)
      destruct (IH p (qi + len_of n)%nat
                  (match option_map (skipn qi) ql0 with Some l => qmean (map inject_Z (firstn (len_of n) l)) | None => pq end) x) as [gq Hgq].
      { intros ->. simpl. apply Hpq. reflexivity. }
      exists gq. rewrite skipn_skipn, option_map_skipn_skipn, (Nat.add_comm (len_of n) qi).
      cbn [obs_of flat_map app]. fold (obs_of ((if phaseable g p then [Ph (p, ins_op (firstn (len_of n) (skipn qi seq0)))] else []) ++
         walk g c mqb t p (skipn (qi + len_of n) seq0) (option_map (skipn (qi + len_of n)) ql0)
           (match option_map (skipn qi) ql0 with Some l => qmean (map inject_Z (firstn (len_of n) l)) | None => pq end))).
      rewrite obs_of_app, obs_of_opt_ph. cbn [app]. unfold at_pos at 1. cbn [filter]. unfold dpred at 1. cbn [fst snd].
      rewrite is_ins_ins. cbn [negb]. rewrite andb_false_r. exact Hgq.
    + (* D *)
      destruct (IH (p + Z.of_nat (len_of n)) qi pq x Hpq) as [gq Hgq].
      exists (if (p <=? x) && (x <? p + Z.of_nat (len_of n)) then binq c pq else gq).
      rewrite obs_of_app. rewrite (obs_of_map_ob (fun y => ((y, gap_op), (mqb, binq c pq)))).
      cbn [obs_of flat_map app]. fold (obs_of ((if phaseable g p then [Ph (p, del_op (gslice g p (len_of n)))] else []) ++
         walk g c mqb t (p + Z.of_nat (len_of n)) (skipn qi seq0) (option_map (skipn qi) ql0) pq)).
      rewrite obs_of_app, obs_of_opt_ph. cbn [app]. rewrite at_pos_app, at_pos_gap_run, Hgq.
      destruct ((p <=? x) && (x <? p + Z.of_nat (len_of n))) eqn:Ein.
      * fold (exp_at g c mqb seq0 ql0 pq0 t (p + Z.of_nat (len_of n)) qi x gq). rewrite exp_at_none by lia.
        destruct (aligned t (p + Z.of_nat (len_of n)) qi x) eqn:EA; [apply aligned_lb in EA; lia|]. reflexivity.
      * reflexivity.
    + (* N *) apply IH, Hpq.
    + (* S *)
      destruct (IH p (qi + len_of n)%nat pq x Hpq) as [gq Hgq].
      exists gq. rewrite skipn_skipn, option_map_skipn_skipn, (Nat.add_comm (len_of n) qi). exact Hgq.
    + (* H *) apply IH, Hpq.
    + (* P *) apply IH, Hpq.
Qed.

(* ================================================================== the multi-substitution merge is a relabelling *)
Lemma comps_from_sub pos l r : forall i ck, In ck (comps_from pos i l r) ->
  exists a b, snd ck = (pos + Z.of_nat (fst ck), sub_op a b).
Proof.
  induction l as [|a l IH]; intros i ck H; simpl in H; [contradiction|].
  apply in_app_or in H. destruct H as [H|H].
  - destruct (a =? 46); [contradiction|]. destruct H as [<-|[]]. simpl. eauto.
  - eapply IH, H.
Qed.

Lemma comp_index_some cs k i : comp_index cs k = Some i -> exists ck, In ck cs /\ snd ck = k /\ fst ck = i.
Proof.
  unfold comp_index. destruct (find (fun ck => key_eqb (snd ck) k) cs) as [ck|] eqn:E; [|discriminate].
  intros [= <-]. apply find_some in E. destruct E as [E1 E2]. exists ck. split; [exact E1|]. split; [|reflexivity].
  destruct (key_eqb_spec (snd ck) k); [assumption | discriminate].
Qed.

Lemma comp_index_none cs k : (forall ck, In ck cs -> fst (snd ck) <> fst k) -> comp_index cs k = None.
Proof.
  intros H. unfold comp_index. destruct (find (fun ck => key_eqb (snd ck) k) cs) as [ck|] eqn:E; [|reflexivity].
  apply find_some in E. destruct E as [E1 E2]. cbv beta in E2. destruct (key_eqb_spec (snd ck) k) as [e|]; [|discriminate].
  exfalso. apply (H ck E1). exact (f_equal fst e).
Qed.

Lemma filter_map_comm {A} (f : A -> bool) (h : A -> A) l : (forall a, f (h a) = f a) -> filter f (map h l) = map h (filter f l).
Proof.
  intros H. induction l as [|a l IH]; simpl; [reflexivity|]. rewrite H. destruct (f a); simpl; rewrite IH; reflexivity.
Qed.

Definition relabel (m : Z * (str * str)) (mq : qual) (o : obs) : obs :=
  match comp_index (comps m) (fst o) with
  | Some O => ((fst (fst o), multi_op (fst (snd m)) (snd (snd m))), mq)
  | Some (S _) => ((fst (fst o), ref_op), snd o)
  | None => o
  end.

Lemma merge_one_unfold dump os m :
  merge_one dump os m =
  if matched dump m then
    map (relabel m
           (let items := flat_map (fun ck => match find (fun o => key_eqb (fst o) (snd ck)) os with Some o => [snd o] | None => [] end) (comps m) in
            (qmean (map fst items), qmean (map snd items)))) os
  else os.
Proof. reflexivity. Qed.

Lemma relabel_dpred m mq x o : is_ins (multi_op (fst (snd m)) (snd (snd m))) = false -> dpred x (relabel m mq o) = dpred x o.
Proof.
  intros Hm. unfold relabel. destruct (comp_index (comps m) (fst o)) as [i|] eqn:E; [|reflexivity].
  apply comp_index_some in E. destruct E as (ck & Hin & Hk & Hi).
  unfold comps in Hin. apply comps_from_sub in Hin. destruct Hin as (a & b & Hs).
  assert (Ho : is_ins (snd (fst o)) = false). { rewrite <- Hk, Hs. apply is_ins_sub. }
  unfold dpred. destruct i; cbn [fst snd]; rewrite Ho; [rewrite Hm|]; reflexivity.
Qed.

Lemma relabel_other m mq x o : (forall ck, In ck (comps m) -> fst (snd ck) <> x) -> fst (fst o) = x -> relabel m mq o = o.
Proof.
  intros H Hx. unfold relabel. rewrite comp_index_none; [reflexivity|]. intros ck Hck E. apply (H ck Hck). etransitivity; [exact E | exact Hx].
Qed.

Lemma merge_one_at_len dump os m x : is_ins (multi_op (fst (snd m)) (snd (snd m))) = false ->
  length (at_pos x (merge_one dump os m)) = length (at_pos x os).
Proof.
  intros Hm. rewrite merge_one_unfold. destruct (matched dump m); [|reflexivity].
  unfold at_pos. rewrite filter_map_comm by (intros; apply relabel_dpred, Hm). apply map_length.
Qed.

Lemma merge_one_at_same dump os m x : is_ins (multi_op (fst (snd m)) (snd (snd m))) = false ->
  (forall ck, In ck (comps m) -> fst (snd ck) <> x) -> at_pos x (merge_one dump os m) = at_pos x os.
Proof.
  intros Hm H. rewrite merge_one_unfold. destruct (matched dump m); [|reflexivity].
  unfold at_pos. rewrite filter_map_comm by (intros; apply relabel_dpred, Hm).
  rewrite <- (map_id (filter (dpred x) os)) at 2. apply map_ext_in. intros o Ho.
  apply filter_In in Ho. destruct Ho as [_ Ho]. unfold dpred in Ho. apply andb_true_iff in Ho. destruct Ho as [Ho _].
  apply relabel_other with (x := x); [exact H | apply Z.eqb_eq; exact Ho].
Qed.

Definition multi_ops_ok (g : gview) : Prop :=
  forall m, In m (g_multi g) -> is_ins (multi_op (fst (snd m)) (snd (snd m))) = false.

Lemma multi_wf_ops_ok g : multi_wf g = true -> multi_ops_ok g.
Proof.
  unfold multi_wf, multi_ops_ok. intros H m Hm. apply andb_true_iff in H. destruct H as [H _].
  rewrite forallb_forall in H. specialize (H m Hm). unfold multi_wf1 in H. destruct m as [pos [l r]].
  apply andb_true_iff in H. destruct H as [_ H]. apply negb_true_iff in H. exact H.
Qed.

Lemma merge_at_len g dump : multi_ops_ok g -> forall os x, length (at_pos x (merge g dump os)) = length (at_pos x os).
Proof.
  unfold merge, multi_ops_ok. induction (g_multi g) as [|m ms IH]; intros H os x; [reflexivity|].
  simpl. rewrite IH by (intros; apply H; right; assumption). apply merge_one_at_len, H. left. reflexivity.
Qed.

(* x is not a position of any catalogued multi-substitution *)
Definition multi_free (g : gview) (x : Z) : Prop := forall m ck, In m (g_multi g) -> In ck (comps m) -> fst (snd ck) <> x.

Lemma merge_at_same g dump : multi_ops_ok g -> forall os x, multi_free g x -> at_pos x (merge g dump os) = at_pos x os.
Proof.
  unfold merge, multi_ops_ok, multi_free. induction (g_multi g) as [|m ms IH]; intros H os x F; [reflexivity|].
  simpl. rewrite IH.
  - apply merge_one_at_same; [apply H; left; reflexivity | intros ck Hck; eapply F; [left; reflexivity | exact Hck]].
  - intros; apply H; right; assumption.
  - intros m' ck Hm'. apply F. right. exact Hm'.
Qed.

(* ================================================================== one read *)
Definition read_exp_at (g : gview) (c : consts) (r : read) (x : Z) (gq : Q) : list obs :=
  exp_at g c (mapq_bin c r) (r_seq r) (r_qual r) prev_q0 (r_cigar r) (r_start r) O x gq.

Lemma raw_at g c r x : exists gq, at_pos x (raw_obs g c r) = read_exp_at g c r x gq.
Proof.
  unfold raw_obs, read_events, read_exp_at.
  destruct (walk_at g c (mapq_bin c r) (r_seq r) (r_qual r) prev_q0 (r_cigar r) (r_start r) O prev_q0 x) as [gq H].
  - reflexivity.
  - exists gq. simpl in H. destruct (r_qual r); exact H.
Qed.

Lemma exp_at_length g c mqb seq0 ql0 pq0 cg p qi x gq :
  Z.of_nat (length (exp_at g c mqb seq0 ql0 pq0 cg p qi x gq)) = if covered cg p x then 1 else 0.
Proof.
  unfold exp_at. destruct (aligned cg p qi x) eqn:E.
  - apply aligned_covered in E. rewrite E. reflexivity.
  - destruct (covered cg p x); reflexivity.
Qed.

(* the read contributes exactly one non-insertion observation at x iff x lies under an M/=/X/D run; also after the merge *)
Theorem depth_one_per_spanned_base g c r x : multi_ops_ok g ->
  depth (read_obs g c r) x = if spans r x then 1 else 0.
Proof.
  intros H. rewrite depth_at_pos. unfold read_obs. rewrite merge_at_len by exact H.
  fold (raw_obs g c r). destruct (raw_at g c r x) as [gq E]. rewrite E. apply exp_at_length.
Qed.

Theorem depth_one_raw g c r x : depth (raw_obs g c r) x = if spans r x then 1 else 0.
Proof. rewrite depth_at_pos. destruct (raw_at g c r x) as [gq E]. rewrite E. apply exp_at_length. Qed.

(* ================================================================== all reads: depth of the pile *)
Lemma depth_pile g c rs x : multi_ops_ok g ->
  depth (pile g c rs) x = count (fun r => eligible g r && spans r x) rs.
Proof.
  intros H. induction rs as [|r rs IH]; [reflexivity|].
  unfold pile in *. cbn [flat_map]. rewrite depth_app, IH, count_cons. f_equal.
  destruct (eligible g r); cbn [andb]; [apply depth_one_per_spanned_base, H | reflexivity].
Qed.

(* ================================================================== table assembly *)
Lemma alookup_notin {V} k (l : list (str * V)) : ~ In k (map fst l) -> alookup str_eqb k l = None.
Proof.
  induction l as [|[k' v] l IH]; intros H; simpl; [reflexivity|].
  destruct (str_eqb_spec k k') as [->|]; [exfalso; apply H; left; reflexivity|]. apply IH. intros H'. apply H. right. exact H'.
Qed.

Definition cell_list (o : option (list qual)) : list qual := match o with Some l => l | None => [] end.

Lemma cell_add_lookup op qs cs k :
  alookup str_eqb k (cell_add op qs cs) =
  if str_eqb k op then Some (cell_list (alookup str_eqb k cs) ++ qs) else alookup str_eqb k cs.
Proof.
  induction cs as [|[op' qs'] t IH]; simpl.
  - destruct (str_eqb k op); reflexivity.
  - destruct (str_eqb_spec op op') as [->|Hne]; simpl.
    + destruct (str_eqb_spec k op'); reflexivity.
    + rewrite IH. destruct (str_eqb_spec k op') as [->|]; [|reflexivity].
      destruct (str_eqb_spec op' op); [congruence | reflexivity].
Qed.

Lemma cell_add_keys_in op qs cs k : In k (map fst (cell_add op qs cs)) -> k = op \/ In k (map fst cs).
Proof.
  induction cs as [|[op' qs'] t IH]; simpl; intros H.
  - destruct H as [<-|[]]. left. reflexivity.
  - destruct (str_eqb op op'); simpl in H.
    + right. exact H.
    + destruct H as [<-|H]; [right; left; reflexivity|]. apply IH in H. destruct H; [left | right; right]; assumption.
Qed.

Lemma cell_add_nodup op qs cs : NoDup (map fst cs) -> NoDup (map fst (cell_add op qs cs)).
Proof.
  induction cs as [|[op' qs'] t IH]; simpl; intros H.
  - constructor; [intros [] | constructor].
  - inversion H as [|? ? Hn Ht]; subst. destruct (str_eqb_spec op op') as [->|Hne]; simpl.
    + constructor; assumption.
    + constructor; [|apply IH, Ht]. intros Hin. apply cell_add_keys_in in Hin. destruct Hin; [congruence | contradiction].
Qed.

Lemma table_add_cells e t x :
  cells_at (table_add e t) x = if fst (fst e) =? x then cell_add (snd (fst e)) (snd e) (cells_at t x) else cells_at t x.
Proof.
  unfold cells_at. induction t as [|[p cs] t IH]; simpl.
  - rewrite Z.eqb_sym. destruct (fst (fst e) =? x); reflexivity.
  - destruct (fst (fst e) =? p) eqn:E; simpl.
    + apply Z.eqb_eq in E. rewrite E. rewrite (Z.eqb_sym p x). destruct (x =? p); reflexivity.
    + destruct (x =? p) eqn:E2; [|exact IH]. apply Z.eqb_eq in E2. subst p. rewrite E. reflexivity.
Qed.

Definition table_ok (t : table) : Prop := forall x, NoDup (map fst (cells_at t x)).
Lemma table_ok_nil : table_ok []. Proof. intros x. constructor. Qed.
Lemma table_ok_add e t : table_ok t -> table_ok (table_add e t).
Proof. intros H x. rewrite table_add_cells. destruct (fst (fst e) =? x); [apply cell_add_nodup|]; apply H. Qed.

Lemma table_add_cell e t k :
  cell_at (table_add e t) k = cell_at t k ++ (if key_eqb (fst e) k then snd e else []).
Proof.
  unfold cell_at. rewrite table_add_cells. destruct e as [[p op] qs], k as [x o]. cbn [fst snd]. unfold key_eqb. cbn [fst snd].
  destruct (p =? x); cbn [andb]; [|rewrite app_nil_r; reflexivity].
  rewrite cell_add_lookup. rewrite (str_eqb_sym_aux o op).
  destruct (str_eqb op o); [reflexivity | rewrite app_nil_r; reflexivity].
Qed.

Definition cellw (cl : cell) : Z := if is_ins (fst cl) then 0 else Z.of_nat (length (snd cl)).
Lemma depth_at_unfold t x : depth_at t x = zsum (map cellw (cells_at t x)).
Proof. reflexivity. Qed.

Lemma cell_add_w op qs cs : zsum (map cellw (cell_add op qs cs)) = zsum (map cellw cs) + cellw (op, qs).
Proof.
  induction cs as [|[op' qs'] t IH]; simpl.
  - lia.
  - destruct (str_eqb_spec op op') as [->|Hne]; simpl.
    + unfold cellw. cbn [fst snd]. destruct (is_ins op'); [lia|]. rewrite app_length, Nat2Z.inj_add. lia.
    + rewrite IH. lia.
Qed.

Definition entw (x : Z) (e : entry) : Z :=
  if (fst (fst e) =? x) && negb (is_ins (snd (fst e))) then Z.of_nat (length (snd e)) else 0.

Lemma table_add_depth e t x : depth_at (table_add e t) x = depth_at t x + entw x e.
Proof.
  rewrite !depth_at_unfold, table_add_cells. unfold entw. destruct (fst (fst e) =? x); cbn [andb]; [|lia].
  rewrite cell_add_w. unfold cellw. cbn [fst snd]. destruct (is_ins (snd (fst e))); reflexivity.
Qed.

Definition build (es : list entry) (t : table) : table := fold_left (fun t e => table_add e t) es t.

Lemma build_depth es : forall t x, depth_at (build es t) x = depth_at t x + zsum (map (entw x) es).
Proof.
  induction es as [|e es IH]; intros; simpl; [lia|]. unfold build in *. simpl. rewrite IH, table_add_depth. lia.
Qed.
Lemma build_cell es : forall t k,
  cell_at (build es t) k = cell_at t k ++ flat_map (fun e => if key_eqb (fst e) k then snd e else []) es.
Proof.
  induction es as [|e es IH]; intros; simpl; [rewrite app_nil_r; reflexivity|]. unfold build in *. simpl.
  rewrite IH, table_add_cell, app_assoc. reflexivity.
Qed.
Lemma build_ok es : forall t, table_ok t -> table_ok (build es t).
Proof. induction es as [|e es IH]; intros t H; [exact H|]. unfold build in *. simpl. apply IH, table_ok_add, H. Qed.

(* the final clean-up: empty cells dropped; insertion cells dropped when the indel table is truthy *)
Definition keep (it : bool) (cl : cell) : bool := nonempty (snd cl) && negb (it && is_ins (fst cl)).
Definition cleanup (it : bool) (t : table) : table := map (fun pc => (fst pc, filter (keep it) (snd pc))) t.

Lemma cleanup_cells it t x : cells_at (cleanup it t) x = filter (keep it) (cells_at t x).
Proof.
  unfold cells_at, cleanup. induction t as [|[p cs] t IH]; simpl; [reflexivity|]. destruct (x =? p); [reflexivity | exact IH].
Qed.

Lemma keep_false_w it cl : keep it cl = false -> cellw cl = 0.
Proof.
  unfold keep, cellw. destruct cl as [op l]. cbn [fst snd]. destruct l; simpl.
  - destruct (is_ins op); reflexivity.
  - destruct it, (is_ins op); simpl; intros; try reflexivity; discriminate.
Qed.

Lemma cleanup_depth it t x : depth_at (cleanup it t) x = depth_at t x.
Proof.
  rewrite !depth_at_unfold, cleanup_cells. induction (cells_at t x) as [|cl l IH]; simpl; [reflexivity|].
  destruct (keep it cl) eqn:E; simpl; [rewrite IH; reflexivity|]. rewrite IH, (keep_false_w it cl E). lia.
Qed.

Lemma alookup_filter (f : cell -> bool) cs k : NoDup (map fst cs) ->
  alookup str_eqb k (filter f cs) =
  match alookup str_eqb k cs with Some l => if f (k, l) then Some l else None | None => None end.
Proof.
  induction cs as [|[op l] t IH]; simpl; intros H; [reflexivity|]. inversion H as [|? ? Hn Ht]; subst.
  destruct (str_eqb_spec k op) as [->|Hne].
  - destruct (f (op, l)) eqn:E; simpl.
    + rewrite str_eqb_refl. reflexivity.
    + rewrite IH by exact Ht. rewrite (alookup_notin op t Hn). reflexivity.
  - destruct (f (op, l)); simpl; [destruct (str_eqb_spec k op); [congruence|]|]; apply IH, Ht.
Qed.

Lemma cleanup_cell it t k : table_ok t ->
  cell_at (cleanup it t) k = if it && is_ins (snd k) then [] else cell_at t k.
Proof.
  intros H. unfold cell_at. rewrite cleanup_cells, alookup_filter by apply H.
  destruct (alookup str_eqb (snd k) (cells_at t (fst k))) as [l|]; [|destruct (it && is_ins (snd k)); reflexivity].
  unfold keep. cbn [fst snd]. destruct (it && is_ins (snd k)); cbn [negb].
  - rewrite andb_false_r. reflexivity.
  - rewrite andb_true_r. destruct l; reflexivity.
Qed.

Lemma make_coverage_unfold g it norm muts :
  make_coverage g it norm muts =
  cleanup it (build (map (fun pl => ((fst pl, ref_op), snd pl)) (filter (fun pl => nonempty (snd pl)) norm)
                     ++ map (fun e => (fold_key g (fst e), snd e)) muts) []).
Proof. reflexivity. Qed.

(* ================================================================== the table of a read set *)
Definition fold_obs (g : gview) (o : obs) : obs := (fold_key g (fst o), snd o).
Definition arranged (os : list obs) : list obs := filter is_ref os ++ filter (fun o => negb (is_ref o)) os.

Lemma fold_key_ref g p : fold_key g (p, ref_op) = (p, ref_op).
Proof. unfold fold_key. cbn [fst snd]. destruct (negb (in_bounds g p) && negb (is_ins ref_op)); reflexivity. Qed.

Lemma is_ref_key o : is_ref o = true -> fst o = (fst (fst o), ref_op).
Proof. unfold is_ref. intros H. apply str_eqb_eq in H. destruct o as [[p op] q]. simpl in *. subst. reflexivity. Qed.

Lemma sample_entries_ref g (l : list obs) : (forall o, In o l -> is_ref o = true) ->
  map (fun pl : Z * list qual => ((fst pl, ref_op), snd pl))
      (filter (fun pl : Z * list qual => nonempty (snd pl)) (map (fun o : obs => (fst (fst o), [snd o])) l))
  = map (fun o => (fst (fold_obs g o), [snd (fold_obs g o)])) l.
Proof.
  induction l as [|o l IH]; intros H; [reflexivity|]. simpl. rewrite IH by (intros; apply H; right; assumption).
  f_equal. unfold fold_obs. cbn [fst snd]. rewrite (is_ref_key o) by (apply H; left; reflexivity).
  rewrite fold_key_ref. reflexivity.
Qed.

Lemma sample_entries g os :
  map (fun pl => ((fst pl, ref_op), snd pl)) (filter (fun pl => nonempty (snd pl)) (norm_of os))
    ++ map (fun e => (fold_key g (fst e), snd e)) (muts_of os)
  = map (fun o => (fst (fold_obs g o), [snd (fold_obs g o)])) (arranged os).
Proof.
  unfold arranged, norm_of, muts_of. rewrite map_app. f_equal.
  - apply sample_entries_ref. intros o Ho. apply filter_In in Ho. apply Ho.
  - rewrite map_map. reflexivity.
Qed.

Lemma sample_table_unfold g c rs :
  sample_table g c rs =
  cleanup (g_has_indels g)
          (build (map (fun o => (fst (fold_obs g o), [snd (fold_obs g o)])) (arranged (pile g c rs))) []).
Proof. unfold sample_table. rewrite make_coverage_unfold, sample_entries. reflexivity. Qed.

Lemma fold_key_pos g k : fst (fold_key g k) = fst k.
Proof. unfold fold_key. destruct (negb (in_bounds g (fst k)) && negb (is_ins (snd k))); reflexivity. Qed.
Lemma fold_key_ins g k : is_ins (snd (fold_key g k)) = is_ins (snd k).
Proof.
  unfold fold_key. destruct (is_ins (snd k)) eqn:E; cbn [negb]; [rewrite andb_false_r; exact E|].
  destruct (negb (in_bounds g (fst k))); cbn [andb snd]; [reflexivity | exact E].
Qed.
Lemma fold_key_in_bounds g k : in_bounds g (fst k) = true -> fold_key g k = k.
Proof. unfold fold_key. intros ->. reflexivity. Qed.

Lemma count_arranged (f : obs -> bool) os : count f (arranged os) = count f os.
Proof.
  unfold arranged. rewrite count_app. induction os as [|o os IH]; [reflexivity|].
  cbn [filter]. destruct (is_ref o); cbn [negb]; rewrite ?count_cons; lia.
Qed.

Lemma zsum_indicator {A} (f : A -> bool) (w : A -> Z) l : (forall a, w a = if f a then 1 else 0) -> zsum (map w l) = count f l.
Proof.
  intros H. induction l as [|a l IH]; [reflexivity|]. cbn [map zsum fold_right]. rewrite count_cons, <- IH, H. reflexivity.
Qed.

Lemma table_depth_pile g c rs x : cov_total_pos (sample_table g c rs) x = depth (pile g c rs) x.
Proof.
  unfold cov_total_pos. rewrite sample_table_unfold, cleanup_depth, build_depth. cbn [depth_at cells_at alookup map zsum fold_right].
  rewrite map_map. unfold depth. rewrite <- (count_arranged _ (pile g c rs)).
  rewrite Z.add_0_l. apply zsum_indicator. intros o. unfold entw, fold_obs. cbn [fst snd length].
  rewrite fold_key_pos, fold_key_ins. reflexivity.
Qed.

(* the depth at every position = the number of eligible reads whose alignment spans it *)
Theorem depth_conservation g c rs x : multi_ops_ok g ->
  cov_total_pos (sample_table g c rs) x = count (fun r => eligible g r && spans r x) rs.
Proof. intros H. rewrite table_depth_pile. apply depth_pile, H. Qed.

Lemma flat_map_singletons (k : key) (l : list obs) :
  flat_map (fun e : entry => if key_eqb (fst e) k then snd e else []) (map (fun o : obs => (fst o, [snd o])) l)
  = map snd (filter (fun o => key_eqb (fst o) k) l).
Proof.
  induction l as [|o l IH]; [reflexivity|]. cbn [map flat_map filter fst snd]. rewrite IH.
  destruct (key_eqb (fst o) k); reflexivity.
Qed.

Theorem table_cell_pile g c rs k :
  cell_at (sample_table g c rs) k =
  if g_has_indels g && is_ins (snd k) then []
  else map snd (filter (fun o => key_eqb (fst o) k) (map (fold_obs g) (arranged (pile g c rs)))).
Proof.
  rewrite sample_table_unfold, cleanup_cell by (apply build_ok, table_ok_nil).
  destruct (g_has_indels g && is_ins (snd k)); [reflexivity|].
  rewrite build_cell. cbn [cell_at cells_at alookup app].
  rewrite <- flat_map_singletons, map_map. reflexivity.
Qed.

(* ================================================================== permutations of the reads *)
Lemma Permutation_filter' {A} (f : A -> bool) l l' : Permutation l l' -> Permutation (filter f l) (filter f l').
Proof.
  induction 1; simpl.
  - constructor.
  - destruct (f x); [constructor|]; assumption.
  - destruct (f x), (f y); try apply perm_swap; try constructor; apply Permutation_refl.
  - eapply Permutation_trans; eassumption.
Qed.

Lemma pile_perm g c rs rs' : Permutation rs rs' -> Permutation (pile g c rs) (pile g c rs').
Proof. intros H. unfold pile. apply Permutation_flat_map, H. Qed.

Lemma arranged_perm os os' : Permutation os os' -> Permutation (arranged os) (arranged os').
Proof. intros H. unfold arranged. apply Permutation_app; apply Permutation_filter', H. Qed.

(* tables are equal as multisets, cell by cell, under any permutation of the reads; depths are equal *)
Theorem order_independent g c rs rs' : Permutation rs rs' ->
  (forall k, Permutation (cell_at (sample_table g c rs) k) (cell_at (sample_table g c rs') k)) /\
  (forall x, cov_total_pos (sample_table g c rs) x = cov_total_pos (sample_table g c rs') x) /\
  Permutation (pile g c rs) (pile g c rs').
Proof.
  intros H. split; [|split].
  - intros k. rewrite !table_cell_pile. destruct (g_has_indels g && is_ins (snd k)); [constructor|].
    apply Permutation_map, Permutation_filter', Permutation_map, arranged_perm, pile_perm, H.
  - intros x. rewrite !table_depth_pile. unfold depth, count.
    rewrite (Permutation_length (Permutation_filter' _ _ _ (pile_perm g c rs rs' H))). reflexivity.
  - apply pile_perm, H.
Qed.

(* ================================================================== ineligible reads *)
Lemma phases_app g c a b :
  phases g c (a ++ b) =
  fold_left (fun ph r => if eligible g r then phases_add ph (r_name r) (read_phase g c r) else ph) b (phases g c a).
Proof. unfold phases. apply fold_left_app. Qed.

Lemma phases_from_app g c (a b : list read) ph :
  fold_left (fun ph r => if eligible g r then phases_add ph (r_name r) (read_phase g c r) else ph) (a ++ b) ph =
  fold_left (fun ph r => if eligible g r then phases_add ph (r_name r) (read_phase g c r) else ph) b
    (fold_left (fun ph r => if eligible g r then phases_add ph (r_name r) (read_phase g c r) else ph) a ph).
Proof. apply fold_left_app. Qed.

Theorem ineligible_contribute_nothing g c rs1 r rs2 : eligible g r = false ->
  pile g c (rs1 ++ r :: rs2) = pile g c (rs1 ++ rs2) /\
  sample_table g c (rs1 ++ r :: rs2) = sample_table g c (rs1 ++ rs2) /\
  phases g c (rs1 ++ r :: rs2) = phases g c (rs1 ++ rs2).
Proof.
  intros H.
  assert (P : pile g c (rs1 ++ r :: rs2) = pile g c (rs1 ++ rs2)).
  { unfold pile. rewrite !flat_map_app. cbn [flat_map]. rewrite H. reflexivity. }
  split; [exact P|]. split.
  - unfold sample_table. rewrite P. reflexivity.
  - unfold phases. rewrite !fold_left_app. cbn [fold_left]. rewrite H. reflexivity.
Qed.

(* ================================================================== how a match run is written does not matter *)
Lemma m_run_add g c mqb b : forall a p sq ql pq,
  m_run g c mqb (a + b) p sq ql pq =
  (let '(ev1, (sq1, ql1, pq1)) := m_run g c mqb a p sq ql pq in
   let '(ev2, st2) := m_run g c mqb b (p + Z.of_nat a) sq1 ql1 pq1 in (ev1 ++ ev2, st2)).
Proof.
  induction a as [|a IH]; intros.
  - cbn [Nat.add m_run]. rewrite Z.add_0_r. destruct (m_run g c mqb b p sq ql pq). reflexivity.
  - cbn [Nat.add m_run]. rewrite IH.
    destruct (m_run g c mqb a (p + 1) (tl sq) (option_map (@tl Z) ql) _) as [ev1 [[sq1 ql1] pq1]].
    replace (p + 1 + Z.of_nat a) with (p + Z.of_nat (S a)) by lia.
    destruct (m_run g c mqb b (p + Z.of_nat (S a)) sq1 ql1 pq1) as [ev2 st2].
    rewrite <- app_comm_cons, <- !app_assoc. reflexivity.
Qed.

Lemma m_end_add b : forall a sq ql pq,
  m_end (a + b) sq ql pq = (let '(sq1, ql1, pq1) := m_end a sq ql pq in m_end b sq1 ql1 pq1).
Proof. induction a as [|a IH]; intros; cbn [Nat.add m_end]; [reflexivity | apply IH]. Qed.

Definition same_walk (g : gview) (c : consts) (x y : list (cop * Z)) : Prop :=
  forall mqb p sq ql pq, walk g c mqb x p sq ql pq = walk g c mqb y p sq ql pq /\ walk_end x p sq ql pq = walk_end y p sq ql pq.

Lemma walk_nil_r g c mqb x p sq ql pq : walk g c mqb (x ++ []) p sq ql pq = walk g c mqb x p sq ql pq.
Proof. rewrite app_nil_r. reflexivity. Qed.

Lemma same_walk_join g c o1 o2 o3 n1 n2 : is_match o1 = true -> is_match o2 = true -> is_match o3 = true ->
  0 <= n1 -> 0 <= n2 -> same_walk g c [(o1, n1); (o2, n2)] [(o3, n1 + n2)].
Proof.
  intros H1 H2 H3 P1 P2 mqb p sq ql pq.
  assert (L : len_of (n1 + n2) = (len_of n1 + len_of n2)%nat) by (unfold len_of; lia).
  assert (W : walk g c mqb [(CM, n1); (CM, n2)] p sq ql pq = walk g c mqb [(CM, n1 + n2)] p sq ql pq
              /\ walk_end [(CM, n1); (CM, n2)] p sq ql pq = walk_end [(CM, n1 + n2)] p sq ql pq).
  { cbn [walk walk_end]. rewrite L, m_run_add, m_end_add.
    pose proof (m_run_end g c mqb (len_of n1) p sq ql pq) as E1.
    destruct (m_run g c mqb (len_of n1) p sq ql pq) as [ev1 st1]. cbn [snd] in E1. subst st1.
    destruct (m_end (len_of n1) sq ql pq) as [[sq1 ql1] pq1].
    pose proof (m_run_end g c mqb (len_of n2) (p + Z.of_nat (len_of n1)) sq1 ql1 pq1) as E2.
    destruct (m_run g c mqb (len_of n2) (p + Z.of_nat (len_of n1)) sq1 ql1 pq1) as [ev2 st2]. cbn [snd] in E2. subst st2.
    destruct (m_end (len_of n2) sq1 ql1 pq1) as [[sq2 ql2] pq2].
    rewrite !app_nil_r. split; [reflexivity|]. f_equal. lia. }
  destruct o1; try discriminate; destruct o2; try discriminate; destruct o3; try discriminate; exact W.
Qed.

Lemma same_walk_ops g c o1 o2 n : is_match o1 = true -> is_match o2 = true -> same_walk g c [(o1, n)] [(o2, n)].
Proof.
  intros H1 H2 mqb p sq ql pq. destruct o1; try discriminate; destruct o2; try discriminate; split; reflexivity.
Qed.

Lemma walk_end_app a : forall b p sq ql pq,
  walk_end (a ++ b) p sq ql pq = (let '(p', (sq', ql', pq')) := walk_end a p sq ql pq in walk_end b p' sq' ql' pq').
Proof.
  induction a as [|[o n] a IH]; intros; [cbn [app walk_end]; reflexivity|].
  cbn [app walk_end]. destruct o; try apply IH.
  all: destruct (m_end (len_of n) sq ql pq) as [[sq' ql'] pq']; apply IH.
Qed.

Lemma same_walk_context g c pre x y post : same_walk g c x y -> same_walk g c (pre ++ x ++ post) (pre ++ y ++ post).
Proof.
  intros H mqb p sq ql pq. rewrite !walk_app, !walk_end_app.
  destruct (walk_end pre p sq ql pq) as [p1 [[sq1 ql1] pq1]].
  rewrite !walk_app, !walk_end_app.
  destruct (H mqb p1 sq1 ql1 pq1) as [Hw He]. rewrite Hw, He. split; reflexivity.
Qed.

Definition with_cigar (r : read) (cg : list (cop * Z)) : read :=
  {| r_name := r_name r; r_start := r_start r; r_cigar := cg; r_seq := r_seq r; r_qual := r_qual r; r_mapq := r_mapq r;
     r_offtarget := r_offtarget r; r_funmap := r_funmap r; r_supp := r_supp r |}.

Lemma ref_len_app a b : ref_len (a ++ b) = ref_len a + ref_len b.
Proof. induction a as [|[o n] a IH]; simpl; [reflexivity|]. rewrite IH. lia. Qed.

Lemma eligible_with_cigar g r cg :
  ref_len cg = ref_len (r_cigar r) ->
  existsb (fun on => match fst on with CH => true | _ => false end) cg
    = existsb (fun on => match fst on with CH => true | _ => false end) (r_cigar r) ->
  (cg = [] <-> r_cigar r = []) ->
  eligible g (with_cigar r cg) = eligible g r.
Proof.
  intros H1 H2 H3. unfold eligible, in_region, ref_end, with_cigar. cbn [r_cigar r_supp r_seq r_offtarget r_funmap r_start].
  rewrite H1, H2. f_equal. f_equal. f_equal. f_equal.
  destruct cg, (r_cigar r); try reflexivity; exfalso; destruct H3 as [A B]; [discriminate (A eq_refl) | discriminate (B eq_refl)].
Qed.

(* M a; M b == M (a+b), and M == '=' == X, anywhere in the CIGAR: same observations, dump, phase writes, same eligibility *)
Theorem split_independent g c r pre post o1 o2 o3 n1 n2 :
  is_match o1 = true -> is_match o2 = true -> is_match o3 = true -> 0 <= n1 -> 0 <= n2 ->
  r_cigar r = pre ++ [(o1, n1); (o2, n2)] ++ post ->
  let r' := with_cigar r (pre ++ [(o3, n1 + n2)] ++ post) in
  parse_read g c r' = parse_read g c r /\ eligible g r' = eligible g r.
Proof.
  intros H1 H2 H3 P1 P2 E r'. split.
  - unfold parse_read, read_events, mapq_bin. unfold r', with_cigar. cbn [r_cigar r_start r_seq r_qual r_mapq]. rewrite E.
    destruct (same_walk_context g c pre _ _ post (same_walk_join g c o1 o2 o3 n1 n2 H1 H2 H3 P1 P2)
                (binq c (inject_Z (r_mapq r))) (r_start r) (r_seq r) (r_qual r) prev_q0) as [W _].
    rewrite W. reflexivity.
  - apply eligible_with_cigar.
    + rewrite E, !ref_len_app. cbn [ref_len].
      destruct o1; try discriminate; destruct o2; try discriminate; destruct o3; try discriminate;
        cbn [ref_consuming]; unfold len_of; lia.
    + rewrite E, !existsb_app. cbn [existsb fst].
      destruct o1; try discriminate; destruct o2; try discriminate; destruct o3; try discriminate; reflexivity.
    + rewrite E. split; intros H; destruct pre; discriminate.
Qed.

Theorem match_ops_equivalent g c r pre post o1 o2 n :
  is_match o1 = true -> is_match o2 = true ->
  r_cigar r = pre ++ [(o1, n)] ++ post ->
  let r' := with_cigar r (pre ++ [(o2, n)] ++ post) in
  parse_read g c r' = parse_read g c r /\ eligible g r' = eligible g r.
Proof.
  intros H1 H2 E r'. split.
  - unfold parse_read, read_events, mapq_bin. unfold r', with_cigar. cbn [r_cigar r_start r_seq r_qual r_mapq]. rewrite E.
    destruct (same_walk_context g c pre _ _ post (same_walk_ops g c o1 o2 n H1 H2)
                (binq c (inject_Z (r_mapq r))) (r_start r) (r_seq r) (r_qual r) prev_q0) as [W _].
    rewrite W. reflexivity.
  - apply eligible_with_cigar.
    + rewrite E, !ref_len_app. cbn [ref_len]. destruct o1; try discriminate; destruct o2; try discriminate; reflexivity.
    + rewrite E, !existsb_app. cbn [existsb fst]. destruct o1; try discriminate; destruct o2; try discriminate; reflexivity.
    + rewrite E. split; intros H; destruct pre; discriminate.
Qed.

(* consequence for whole read sets: a read may be replaced by any read with the same parse and eligibility *)
Lemma read_obs_parse g c r : read_obs g c r = fst (fst (parse_read g c r)). Proof. reflexivity. Qed.
Lemma read_phase_parse g c r : read_phase g c r = snd (parse_read g c r). Proof. reflexivity. Qed.

Theorem same_parse_same_sample g c rs1 r r' rs2 :
  parse_read g c r' = parse_read g c r -> eligible g r' = eligible g r -> r_name r' = r_name r ->
  sample_table g c (rs1 ++ r' :: rs2) = sample_table g c (rs1 ++ r :: rs2) /\
  phases g c (rs1 ++ r' :: rs2) = phases g c (rs1 ++ r :: rs2).
Proof.
  intros HP HE HN. split.
  - unfold sample_table, pile. rewrite !flat_map_app. cbn [flat_map]. rewrite HE, !read_obs_parse, HP. reflexivity.
  - unfold phases. rewrite !fold_left_app. cbn [fold_left]. rewrite HE, HN, !read_phase_parse, HP. reflexivity.
Qed.

(* ================================================================== substitution and reference counts *)
Lemma filter_filter_impl {A} (f h : A -> bool) l : (forall a, f a = true -> h a = true) -> filter f (filter h l) = filter f l.
Proof.
  intros H. induction l as [|a l IH]; [reflexivity|]. cbn [filter]. destruct (h a) eqn:E; cbn [filter]; rewrite IH; [reflexivity|].
  destruct (f a) eqn:F; [rewrite (H a F) in E; discriminate | reflexivity].
Qed.

Lemma kcount_at os x op : is_ins op = false -> kcount os (x, op) = count (fun o => key_eqb (fst o) (x, op)) (at_pos x os).
Proof.
  intros H. unfold kcount, count, at_pos. rewrite filter_filter_impl; [reflexivity|].
  intros o E. destruct (key_eqb_spec (fst o) (x, op)) as [e|]; [|discriminate]. unfold dpred. rewrite e. cbn [fst snd].
  rewrite Z.eqb_refl, H. reflexivity.
Qed.

Lemma str_eqb_sub_sub a b b' : str_eqb (sub_op a b) (sub_op a b') = (b =? b').
Proof. unfold sub_op. cbn [str_eqb]. rewrite !Z.eqb_refl, andb_true_r. reflexivity. Qed.
Lemma str_eqb_ref_sub a b : str_eqb ref_op (sub_op a b) = false.
Proof. unfold sub_op, ref_op. cbn [str_eqb]. apply andb_false_r. Qed.
Lemma str_eqb_sub_ref a b : str_eqb (sub_op a b) ref_op = false.
Proof. rewrite str_eqb_sym_aux. apply str_eqb_ref_sub. Qed.
Lemma str_eqb_gap_sub a b : str_eqb gap_op (sub_op a b) = false.
Proof. unfold sub_op, gap_op. cbn [str_eqb]. apply andb_false_r. Qed.

Lemma read_at_free g c r x : multi_ops_ok g -> multi_free g x ->
  exists gq, at_pos x (read_obs g c r) = read_exp_at g c r x gq.
Proof.
  intros H F. unfold read_obs. rewrite merge_at_same by assumption. apply raw_at.
Qed.

Lemma count_single {A} (f : A -> bool) a : count f [a] = if f a then 1 else 0.
Proof. unfold count. cbn [filter]. destruct (f a); reflexivity. Qed.

Lemma read_kcount_sub g c r x b : multi_ops_ok g -> multi_free g x -> in_gene g x = true -> b <> base g x ->
  kcount (read_obs g c r) (x, sub_op (base g x) b) = if shows r x b then 1 else 0.
Proof.
  intros H F G Hb. rewrite kcount_at by apply is_ins_sub. destruct (read_at_free g c r x H F) as [gq E]. rewrite E.
  unfold read_exp_at, exp_at, shows, base_at. destruct (aligned (r_cigar r) (r_start r) 0 x) as [j|].
  - rewrite count_single. unfold key_eqb. cbn [fst snd]. rewrite Z.eqb_refl. cbn [andb]. unfold classify. rewrite G. cbn [andb].
    destruct (base g x =? nth j (r_seq r) 78) eqn:E1; cbn [negb].
    + rewrite str_eqb_ref_sub. apply Z.eqb_eq in E1. destruct (nth j (r_seq r) 78 =? b) eqn:E2; [|reflexivity].
      apply Z.eqb_eq in E2. exfalso. apply Hb. congruence.
    + rewrite str_eqb_sub_sub. reflexivity.
  - destruct (covered (r_cigar r) (r_start r) x); [|reflexivity].
    rewrite count_single. unfold key_eqb. cbn [fst snd]. rewrite str_eqb_gap_sub, andb_false_r. reflexivity.
Qed.

Lemma read_kcount_ref g c r x : multi_ops_ok g -> multi_free g x -> in_gene g x = true ->
  kcount (read_obs g c r) (x, ref_op) = if shows r x (base g x) then 1 else 0.
Proof.
  intros H F G. rewrite kcount_at by reflexivity. destruct (read_at_free g c r x H F) as [gq E]. rewrite E.
  unfold read_exp_at, exp_at, shows, base_at. destruct (aligned (r_cigar r) (r_start r) 0 x) as [j|].
  - rewrite count_single. unfold key_eqb. cbn [fst snd]. rewrite Z.eqb_refl. cbn [andb]. unfold classify. rewrite G. cbn [andb].
    rewrite (Z.eqb_sym (nth j (r_seq r) 78)).
    destruct (base g x =? nth j (r_seq r) 78) eqn:E1; cbn [negb]; [reflexivity | rewrite str_eqb_sub_ref; reflexivity].
  - destruct (covered (r_cigar r) (r_start r) x); [|reflexivity].
    rewrite count_single. unfold key_eqb. cbn [fst snd]. replace (str_eqb gap_op ref_op) with false by reflexivity.
    rewrite andb_false_r. reflexivity.
Qed.

Lemma kcount_pile g c rs k :
  kcount (pile g c rs) k = zsum (map (fun r => if eligible g r then kcount (read_obs g c r) k else 0) rs).
Proof.
  unfold kcount, pile. rewrite count_flat_map. f_equal. apply map_ext. intros r. destruct (eligible g r); reflexivity.
Qed.

Lemma length_filter_map {A B} (f : B -> bool) (h : A -> B) l :
  length (filter f (map h l)) = length (filter (fun a => f (h a)) l).
Proof. induction l as [|a l IH]; [reflexivity|]. cbn [map filter]. destruct (f (h a)); cbn [length]; rewrite IH; reflexivity. Qed.

(* the count recorded in the table for a key inside the RefSeq window = number of such observations in the pile *)
Lemma table_kcount g c rs k : in_bounds g (fst k) = true -> is_ins (snd k) = false ->
  Z.of_nat (length (cell_at (sample_table g c rs) k)) = kcount (pile g c rs) k.
Proof.
  intros B I. rewrite table_cell_pile, I, andb_false_r. rewrite map_length, length_filter_map.
  unfold kcount. rewrite <- (count_arranged _ (pile g c rs)). unfold count. f_equal. f_equal.
  apply filter_ext_in. intros o _. unfold fold_obs. cbn [fst].
  destruct (Z.eq_dec (fst (fst o)) (fst k)) as [e|ne].
  - rewrite fold_key_in_bounds; [reflexivity|]. rewrite e. exact B.
  - destruct (key_eqb_spec (fold_key g (fst o)) k) as [e1|]; destruct (key_eqb_spec (fst o) k) as [e2|]; try reflexivity; exfalso; apply ne.
    + rewrite <- e1, fold_key_pos. reflexivity.
    + rewrite e2. reflexivity.
Qed.

Lemma zsum_ind_count (f : read -> bool) (w : read -> Z) rs : (forall r, w r = if f r then 1 else 0) -> zsum (map w rs) = count f rs.
Proof. apply zsum_indicator. Qed.

Lemma fold_min_le l : forall a, fold_left Z.min l a <= a /\ forall x, In x l -> fold_left Z.min l a <= x.
Proof.
  induction l as [|y l IH]; intros a; simpl; [split; [lia | intros x []]|].
  destruct (IH (Z.min a y)) as [H1 H2]. split; [lia|]. intros x [<-|Hx]; [lia | apply H2, Hx].
Qed.
Lemma fold_max_ge l : forall a, a <= fold_left Z.max l a /\ forall x, In x l -> x <= fold_left Z.max l a.
Proof.
  induction l as [|y l IH]; intros a; simpl; [split; [lia | intros x []]|].
  destruct (IH (Z.max a y)) as [H1 H2]. split; [lia|]. intros x [<-|Hx]; [lia | apply H2, Hx].
Qed.

Lemma in_gene_in_bounds g x : in_gene g x = true -> in_bounds g x = true.
Proof.
  unfold in_gene, in_bounds. intros H. apply existsb_exists in H. destruct H as ([a b] & Hin & Hab). cbn [fst snd] in Hab.
  destruct (g_mapped g) as [|ab t]; [contradiction|].
  destruct (fold_min_le (map fst t) (fst ab)) as [M1 M2]. destruct (fold_max_ge (map snd t) (snd ab)) as [X1 X2].
  destruct Hin as [->|Hin].
  - cbn [fst snd] in *. lia.
  - specialize (M2 a (in_map fst _ _ Hin)). specialize (X2 b (in_map snd _ _ Hin)). cbn [fst snd] in *. lia.
Qed.

(* inside the RefSeq-mapped part, at a position that is not part of a catalogued multi-substitution:
   count under ref>b = eligible reads showing b, reference count = eligible reads showing the reference base *)
Theorem subst_counts g c rs indels x b : multi_ops_ok g -> multi_free g x -> in_gene g x = true -> b <> base g x ->
  alookup key_eqb (x, sub_op (base g x) b) indels = None -> alookup key_eqb (x, ref_op) indels = None ->
  cov_coverage (sample_table g c rs) indels (x, sub_op (base g x) b) = count (fun r => eligible g r && shows r x b) rs /\
  cov_coverage (sample_table g c rs) indels (x, ref_op) = count (fun r => eligible g r && shows r x (base g x)) rs.
Proof.
  intros H F G Hb I1 I2. pose proof (in_gene_in_bounds g x G) as B. unfold cov_coverage. rewrite I1, I2. split.
  - rewrite table_kcount by (try exact B; apply is_ins_sub). rewrite kcount_pile. apply zsum_ind_count. intros r.
    destruct (eligible g r); cbn [andb]; [apply read_kcount_sub; assumption | reflexivity].
  - rewrite table_kcount by (try exact B; reflexivity). rewrite kcount_pile. apply zsum_ind_count. intros r.
    destruct (eligible g r); cbn [andb]; [apply read_kcount_ref; assumption | reflexivity].
Qed.

(* ================================================================== qualities *)
Lemma m_run_mapq g c mqb n : forall p sq ql pq, Forall (fun o : obs => fst (snd o) = mqb) (obs_of (fst (m_run g c mqb n p sq ql pq))).
Proof.
  induction n as [|n IH]; intros; [constructor|]. rewrite m_run_step. constructor; [reflexivity | apply IH].
Qed.

Lemma walk_mapq g c mqb cg : forall p sq ql pq, Forall (fun o : obs => fst (snd o) = mqb) (obs_of (walk g c mqb cg p sq ql pq)).
Proof.
  induction cg as [|[o n] t IH]; intros; [constructor|].
  assert (HM : Forall (fun o : obs => fst (snd o) = mqb)
                 (obs_of (let '(ev, (sq', ql', pq')) := m_run g c mqb (len_of n) p sq ql pq in
                          ev ++ walk g c mqb t (p + Z.of_nat (len_of n)) sq' ql' pq'))).
  { pose proof (m_run_mapq g c mqb (len_of n) p sq ql pq) as A.
    destruct (m_run g c mqb (len_of n) p sq ql pq) as [ev [[sq' ql'] pq']]. cbn [fst] in A.
    rewrite obs_of_app. apply Forall_app. split; [exact A | apply IH]. }
  destruct o; cbn [walk]; try exact HM; try apply IH.
  - cbn [obs_of flat_map app]. constructor; [reflexivity|].
    change (flat_map (fun e : event => match e with Ob o => [o] | _ => [] end)) with obs_of.
    rewrite obs_of_app, obs_of_opt_ph. apply IH.
  - rewrite obs_of_app, (obs_of_map_ob (fun y => ((y, gap_op), (mqb, binq c pq)))). apply Forall_app. split.
    + apply Forall_forall. intros o Ho. apply in_map_iff in Ho. destruct Ho as (y & <- & _). reflexivity.
    + cbn [obs_of flat_map app]. change (flat_map (fun e : event => match e with Ob o => [o] | _ => [] end)) with obs_of.
      rewrite obs_of_app, obs_of_opt_ph. apply IH.
Qed.

(* every observation of a read carries the read's binned mapping quality *)
Theorem quality_mapq g c r o : In o (raw_obs g c r) -> fst (snd o) = mapq_bin c r.
Proof. intros H. pose proof (walk_mapq g c (mapq_bin c r) (r_cigar r) (r_start r) (r_seq r) (r_qual r) prev_q0) as F.
  rewrite Forall_forall in F. apply F, H. Qed.

(* an aligned base is recorded with the binned quality of exactly that base (10 when the read has no qualities) *)
Theorem quality_aligned g c r x j : aligned (r_cigar r) (r_start r) O x = Some j ->
  In ((x, classify g x (nth j (r_seq r) 78)), (mapq_bin c r, binq c (qual_at (r_qual r) prev_q0 j))) (raw_obs g c r).
Proof.
  intros H. destruct (raw_at g c r x) as [gq E]. unfold read_exp_at, exp_at in E. rewrite H in E.
  assert (I : In ((x, classify g x (nth j (r_seq r) 78)), (mapq_bin c r, binq c (qual_at (r_qual r) prev_q0 j))) (at_pos x (raw_obs g c r))).
  { rewrite E. left. reflexivity. }
  unfold at_pos in I. apply filter_In in I. apply I.
Qed.

(* state of the walk after a prefix of a standard CIGAR *)
Lemma walk_end_std pre : std_cigar pre = true -> forall p sq ql pq,
  fst (walk_end pre p sq ql pq) = p + ref_len pre /\
  fst (fst (snd (walk_end pre p sq ql pq))) = skipn (query_len pre) sq /\
  snd (fst (snd (walk_end pre p sq ql pq))) = option_map (skipn (query_len pre)) ql.
Proof.
  induction pre as [|[o n] t IH]; intros S p sq ql pq.
  - cbn. destruct ql; repeat split; try reflexivity; lia.
  - cbn [std_cigar forallb fst] in S. apply andb_true_iff in S. destruct S as [S1 S2]. specialize (IH S2).
    assert (HM : let '(sq', ql', pq') := m_end (len_of n) sq ql pq in
                 fst (walk_end t (p + Z.of_nat (len_of n)) sq' ql' pq') = p + (Z.of_nat (len_of n) + ref_len t) /\
                 fst (fst (snd (walk_end t (p + Z.of_nat (len_of n)) sq' ql' pq'))) = skipn (len_of n + query_len t) sq /\
                 snd (fst (snd (walk_end t (p + Z.of_nat (len_of n)) sq' ql' pq'))) = option_map (skipn (len_of n + query_len t)) ql).
    { pose proof (m_end_sq (len_of n) sq ql pq) as E1. pose proof (m_end_ql (len_of n) sq ql pq) as E2.
      destruct (m_end (len_of n) sq ql pq) as [[sq' ql'] pq']. cbn [fst snd] in E1, E2. subst.
      destruct (IH (p + Z.of_nat (len_of n)) (skipn (len_of n) sq) (option_map (skipn (len_of n)) ql) pq') as (A & B & C).
      rewrite A, B, C, skipn_skipn, option_map_skipn_skipn, (Nat.add_comm (query_len t)). repeat split; lia. }
    destruct o; try discriminate; cbn [walk_end ref_len ref_consuming query_len fold_right fst snd];
      fold (query_len t); try (destruct (m_end (len_of n) sq ql pq) as [[sq' ql'] pq']; exact HM).
    + destruct (IH p (skipn (len_of n) sq) (option_map (skipn (len_of n)) ql)
                  (match ql with Some l => qmean (map inject_Z (firstn (len_of n) l)) | None => pq end)) as (A & B & C).
      rewrite A, B, C, skipn_skipn, option_map_skipn_skipn, (Nat.add_comm (query_len t)). repeat split; lia.
    + destruct (IH (p + Z.of_nat (len_of n)) sq ql pq) as (A & B & C). rewrite A, B, C. repeat split; lia.
    + destruct (IH p (skipn (len_of n) sq) (option_map (skipn (len_of n)) ql) pq) as (A & B & C).
      rewrite A, B, C, skipn_skipn, option_map_skipn_skipn, (Nat.add_comm (query_len t)). repeat split; lia.
Qed.

Definition prev_q_after (r : read) (pre : list (cop * Z)) : Q :=
  snd (snd (walk_end pre (r_start r) (r_seq r) (r_qual r) prev_q0)).

(* an insertion is recorded at the next reference position with the inserted bases and the binned MEAN quality of the
   inserted bases (the running previous quality when the read has no qualities) *)
Theorem quality_inserted g c r pre n post : std_cigar pre = true -> r_cigar r = pre ++ (CI, n) :: post ->
  let k := len_of n in let qi := query_len pre in
  In ((r_start r + ref_len pre, ins_op (firstn k (skipn qi (r_seq r)))),
      (mapq_bin c r, binq c (match r_qual r with
                             | Some l => qmean (map inject_Z (firstn k (skipn qi l)))
                             | None => prev_q_after r pre end)))
     (raw_obs g c r).
Proof.
  intros S E k qi. unfold raw_obs, read_events. rewrite E, walk_app, obs_of_app. apply in_or_app. right.
  destruct (walk_end_std pre S (r_start r) (r_seq r) (r_qual r) prev_q0) as (A & B & C).
  unfold prev_q_after. destruct (walk_end pre (r_start r) (r_seq r) (r_qual r) prev_q0) as [p' [[sq' ql'] pq']].
  cbn [fst snd] in *. subst p' sq' ql'. cbn [walk obs_of flat_map app]. left.
  destruct (r_qual r); reflexivity.
Qed.

(* every deleted base is recorded once, with the binned quality that was current before the deletion
   ([prev_q_after]: see prev_q_match / prev_q_ins / prev_q_clip / prev_q_del / prev_q_start below) *)
Theorem quality_deleted g c r pre n post i : std_cigar pre = true -> r_cigar r = pre ++ (CD, n) :: post ->
  (i < len_of n)%nat ->
  In ((r_start r + ref_len pre + Z.of_nat i, gap_op), (mapq_bin c r, binq c (prev_q_after r pre))) (raw_obs g c r).
Proof.
  intros S E Hi. unfold raw_obs, read_events. rewrite E, walk_app, obs_of_app. apply in_or_app. right.
  destruct (walk_end_std pre S (r_start r) (r_seq r) (r_qual r) prev_q0) as (A & B & C).
  unfold prev_q_after. destruct (walk_end pre (r_start r) (r_seq r) (r_qual r) prev_q0) as [p' [[sq' ql'] pq']].
  cbn [fst snd] in *. subst p' sq' ql'. cbn [walk]. rewrite obs_of_app. apply in_or_app. left.
  rewrite (obs_of_map_ob (fun y => ((y, gap_op), (mapq_bin c r, binq c pq')))). apply in_map_iff.
  exists (r_start r + ref_len pre + Z.of_nat i). split; [reflexivity|].
  clear - Hi. revert i Hi. generalize (r_start r + ref_len pre) as p. induction (len_of n) as [|m IH]; intros p i Hi; [lia|].
  destruct i; cbn [zseq]; [left; lia|]. right. replace (p + Z.of_nat (S i)) with (p + 1 + Z.of_nat i) by lia. apply IH. lia.
Qed.

Lemma prev_q_start r : prev_q_after r [] = prev_q0.
Proof. reflexivity. Qed.

Lemma walk_end_snoc pre o n p sq ql pq :
  walk_end (pre ++ [(o, n)]) p sq ql pq =
  (let '(p', (sq', ql', pq')) := walk_end pre p sq ql pq in walk_end [(o, n)] p' sq' ql' pq').
Proof. apply walk_end_app. Qed.

Lemma m_end_pq n : forall sq l pq, (0 < n)%nat -> snd (m_end n sq (Some l) pq) = inject_Z (nth (n - 1) l 0).
Proof.
  induction n as [|n IH]; intros sq l pq H; [lia|]. cbn [m_end option_map].
  destruct n as [|n].
  - cbn. destruct l; reflexivity.
  - rewrite IH by lia. replace (S (S n) - 1)%nat with (S (S n - 1)) by lia. rewrite nth_tl. reflexivity.
Qed.

(* the "previous quality": after a match run it is the quality of the run's last base *)
Theorem prev_q_match r pre o n l : std_cigar pre = true -> is_match o = true -> (0 < len_of n)%nat -> r_qual r = Some l ->
  prev_q_after r (pre ++ [(o, n)]) = inject_Z (nth (query_len pre + len_of n - 1) l 0).
Proof.
  intros S M P Q. unfold prev_q_after. rewrite walk_end_snoc.
  destruct (walk_end_std pre S (r_start r) (r_seq r) (r_qual r) prev_q0) as (A & B & C).
  destruct (walk_end pre (r_start r) (r_seq r) (r_qual r) prev_q0) as [p' [[sq' ql'] pq']]. cbn [fst snd] in *. subst.
  rewrite Q. cbn [option_map].
  assert (G : snd (m_end (len_of n) (skipn (query_len pre) (r_seq r)) (Some (skipn (query_len pre) l)) pq')
              = inject_Z (nth (query_len pre + len_of n - 1) l 0)).
  { rewrite m_end_pq by exact P. rewrite nth_skipn_add. f_equal. f_equal. lia. }
  destruct o; try discriminate; cbn [walk_end];
    destruct (m_end (len_of n) (skipn (query_len pre) (r_seq r)) (Some (skipn (query_len pre) l)) pq') as [[a b] q]; exact G.
Qed.

(* after an insertion it is the mean quality of the inserted bases; clips and deletions leave it unchanged *)
Theorem prev_q_ins r pre n l : std_cigar pre = true -> r_qual r = Some l ->
  prev_q_after r (pre ++ [(CI, n)]) = qmean (map inject_Z (firstn (len_of n) (skipn (query_len pre) l))).
Proof.
  intros S Q. unfold prev_q_after. rewrite walk_end_snoc.
  destruct (walk_end_std pre S (r_start r) (r_seq r) (r_qual r) prev_q0) as (A & B & C).
  destruct (walk_end pre (r_start r) (r_seq r) (r_qual r) prev_q0) as [p' [[sq' ql'] pq']]. cbn [fst snd] in *. subst.
  rewrite Q. reflexivity.
Qed.
Theorem prev_q_clip_del r pre o n : (o = CS \/ o = CD) -> prev_q_after r (pre ++ [(o, n)]) = prev_q_after r pre.
Proof.
  intros H. unfold prev_q_after. rewrite walk_end_snoc.
  destruct (walk_end pre (r_start r) (r_seq r) (r_qual r) prev_q0) as [p' [[sq' ql'] pq']]. destruct H; subst; reflexivity.
Qed.

(* ================================================================== phase records *)
Lemma in_phase_of k ev : In k (phase_of ev) <-> In (Ph k) ev.
Proof.
  unfold phase_of. rewrite in_flat_map. split.
  - intros (e & He & Hk). destruct e; try contradiction. destruct Hk as [<-|[]]. exact He.
  - intros H. exists (Ph k). split; [exact H | left; reflexivity].
Qed.
Lemma in_obs_of o ev : In o (obs_of ev) <-> In (Ob o) ev.
Proof.
  unfold obs_of. rewrite in_flat_map. split.
  - intros (e & He & Hk). destruct e; try contradiction. destruct Hk as [<-|[]]. exact He.
  - intros H. exists (Ob o). split; [exact H | left; reflexivity].
Qed.
Lemma in_dump_of k ev : In k (dump_of ev) <-> In (Du k) ev.
Proof.
  unfold dump_of. rewrite in_flat_map. split.
  - intros (e & He & Hk). destruct e; try contradiction. destruct Hk as [<-|[]]. exact He.
  - intros H. exists (Du k). split; [exact H | left; reflexivity].
Qed.

(* a phase write is made only at a catalogued site, and only for a key the same read records as an observation
   (reference, substitution, insertion) or in its dump_arr (deletion, substitution, insertion) *)
Definition ph_ok (g : gview) (ev : list event) : Prop :=
  forall k, In (Ph k) ev -> phaseable g (fst k) = true /\ ((exists q, In (Ob (k, q)) ev) \/ In (Du k) ev).

Lemma ph_ok_app g a b : ph_ok g a -> ph_ok g b -> ph_ok g (a ++ b).
Proof.
  intros Ha Hb k H. apply in_app_or in H. destruct H as [H|H]; [destruct (Ha k H) as [P [[q Q]|Q]] | destruct (Hb k H) as [P [[q Q]|Q]]];
    (split; [exact P|]); [left; exists q | right | left; exists q | right]; apply in_or_app; auto.
Qed.

Ltac in_tail := repeat (first [apply in_or_app; right | right]).

Lemma m_run_ph_ok g c mqb n : forall p sq ql pq, ph_ok g (fst (m_run g c mqb n p sq ql pq)).
Proof.
  induction n as [|n IH]; intros; [intros k []|]. cbn [m_run].
  specialize (IH (p + 1) (tl sq) (option_map (@tl Z) ql) (match ql with Some l => inject_Z (hd 0 l) | None => pq end)).
  destruct (m_run g c mqb n (p + 1) (tl sq) (option_map (@tl Z) ql) _) as [ev st]. cbn [fst] in *.
  set (op := classify g p (hd 78 sq)) in *.
  change (ph_ok g ([Ob ((p, op), (mqb, binq c (match ql with Some l => inject_Z (hd 0 l) | None => pq end)))]
                   ++ ((if str_eqb op ref_op then [] else [Du (p, op)]) ++ (if phaseable g p then [Ph (p, op)] else []) ++ ev))).
  intros k H. apply in_app_or in H. destruct H as [[H|[]]|H]; [discriminate|].
  apply in_app_or in H. destruct H as [H|H]; [destruct (str_eqb op ref_op); [contradiction | destruct H as [H|[]]; discriminate]|].
  apply in_app_or in H. destruct H as [H|H].
  - destruct (phaseable g p) eqn:E; [|contradiction]. destruct H as [H|[]]. injection H as <-. split; [exact E|].
    left. eexists. left. reflexivity.
  - destruct (IH k H) as [P [[q Q]|Q]]; (split; [exact P|]); [left; exists q | right]; in_tail; exact Q.
Qed.

Lemma walk_ph_ok g c mqb cg : forall p sq ql pq, ph_ok g (walk g c mqb cg p sq ql pq).
Proof.
  induction cg as [|[o n] t IH]; intros; [intros k []|].
  assert (HM : ph_ok g (let '(ev, (sq', ql', pq')) := m_run g c mqb (len_of n) p sq ql pq in
                        ev ++ walk g c mqb t (p + Z.of_nat (len_of n)) sq' ql' pq')).
  { pose proof (m_run_ph_ok g c mqb (len_of n) p sq ql pq) as A.
    destruct (m_run g c mqb (len_of n) p sq ql pq) as [ev [[sq' ql'] pq']]. apply ph_ok_app; [exact A | apply IH]. }
  destruct o; cbn [walk]; try exact HM; try apply IH.
  - (* I *)
    set (i := (p, ins_op (firstn (len_of n) sq))). set (q := binq c _).
    change (ph_ok g ([Ob (i, (mqb, q)); Du i] ++ (if phaseable g p then [Ph i] else []) ++
                     walk g c mqb t p (skipn (len_of n) sq) (option_map (skipn (len_of n)) ql)
                       (match ql with Some l => qmean (map inject_Z (firstn (len_of n) l)) | None => pq end))).
    intros k H. apply in_app_or in H. destruct H as [[H|[H|[]]]|H]; try discriminate.
    apply in_app_or in H. destruct H as [H|H].
    + destruct (phaseable g p) eqn:E; [|contradiction]. destruct H as [H|[]]. injection H as <-. split; [exact E|].
      right. right. left. reflexivity.
    + destruct (IH _ _ _ _ k H) as [P [[q' Q]|Q]]; (split; [exact P|]); [left; exists q' | right]; in_tail; exact Q.
  - (* D *)
    set (d := (p, del_op (gslice g p (len_of n)))).
    change (ph_ok g (map (fun x => Ob ((x, gap_op), (mqb, binq c pq))) (zseq p (len_of n)) ++ [Du d] ++
                     (if phaseable g p then [Ph d] else []) ++ walk g c mqb t (p + Z.of_nat (len_of n)) sq ql pq)).
    intros k H. apply in_app_or in H. destruct H as [H|H].
    { apply in_map_iff in H. destruct H as (y & H & _). discriminate. }
    apply in_app_or in H. destruct H as [[H|[]]|H]; [discriminate|].
    apply in_app_or in H. destruct H as [H|H].
    + destruct (phaseable g p) eqn:E; [|contradiction]. destruct H as [H|[]]. injection H as <-. split; [exact E|].
      right. apply in_or_app. right. left. reflexivity.
    + destruct (IH _ _ _ _ k H) as [P [[q' Q]|Q]]; (split; [exact P|]); [left; exists q' | right]; in_tail; exact Q.
Qed.

Theorem read_phase_shown g c r k : In k (read_phase g c r) ->
  phaseable g (fst k) = true /\ (In k (map fst (raw_obs g c r)) \/ In k (dump_of (read_events g c r))).
Proof.
  unfold read_phase, raw_obs. intros H. apply in_phase_of in H.
  destruct (walk_ph_ok g c (mapq_bin c r) (r_cigar r) (r_start r) (r_seq r) (r_qual r) prev_q0 k H) as [P [[q Q]|Q]].
  - split; [exact P|]. left. apply in_map_iff. exists (k, q). split; [reflexivity | apply in_obs_of, Q].
  - split; [exact P|]. right. apply in_dump_of, Q.
Qed.

(* every catalogued site under an aligned base gets a phase write *)
Lemma m_run_phase_complete g c mqb n : forall p sq ql pq x, p <= x < p + Z.of_nat n -> phaseable g x = true ->
  exists op, In (Ph (x, op)) (fst (m_run g c mqb n p sq ql pq)).
Proof.
  induction n as [|n IH]; intros p sq ql pq x Hx P; [lia|]. cbn [m_run].
  specialize (IH (p + 1) (tl sq) (option_map (@tl Z) ql) (match ql with Some l => inject_Z (hd 0 l) | None => pq end) x).
  destruct (m_run g c mqb n (p + 1) (tl sq) (option_map (@tl Z) ql) _) as [ev st]. cbn [fst] in *.
  destruct (Z.eq_dec p x) as [->|Hne].
  - exists (classify g x (hd 78 sq)). right. apply in_or_app. right. apply in_or_app. left. rewrite P. left. reflexivity.
  - destruct IH as [op H]; [lia | exact P |]. exists op. right. apply in_or_app. right. apply in_or_app. right. exact H.
Qed.

Lemma walk_phase_complete g c mqb cg : forall p qi sq ql pq x j, aligned cg p qi x = Some j -> phaseable g x = true ->
  exists op, In (Ph (x, op)) (walk g c mqb cg p sq ql pq).
Proof.
  induction cg as [|[o n] t IH]; intros p qi sq ql pq x j A P; [discriminate|].
  assert (HM : (if (p <=? x) && (x <? p + Z.of_nat (len_of n)) then Some (qi + Z.to_nat (x - p))%nat
                else aligned t (p + Z.of_nat (len_of n)) (qi + len_of n)%nat x) = Some j ->
               exists op, In (Ph (x, op)) (let '(ev, (sq', ql', pq')) := m_run g c mqb (len_of n) p sq ql pq in
                                           ev ++ walk g c mqb t (p + Z.of_nat (len_of n)) sq' ql' pq')).
  { intros A'. pose proof (m_run_phase_complete g c mqb (len_of n) p sq ql pq x) as C.
    destruct (m_run g c mqb (len_of n) p sq ql pq) as [ev [[sq' ql'] pq']]. cbn [fst] in C.
    destruct ((p <=? x) && (x <? p + Z.of_nat (len_of n))) eqn:E.
    - destruct C as [op H]; [lia | exact P |]. exists op. apply in_or_app. left. exact H.
    - destruct (IH _ _ sq' ql' pq' _ _ A' P) as [op H]. exists op. apply in_or_app. right. exact H. }
  destruct o; cbn [walk aligned] in *; try (apply HM; exact A); try (eapply IH; eassumption).
  - destruct (IH _ _ (skipn (len_of n) sq) (option_map (skipn (len_of n)) ql)
                (match ql with Some l => qmean (map inject_Z (firstn (len_of n) l)) | None => pq end) _ _ A P) as [op H].
    exists op. right. right. apply in_or_app. right. exact H.
  - destruct (IH _ _ sq ql pq _ _ A P) as [op H]. exists op. apply in_or_app. right. right. apply in_or_app. right. exact H.
Qed.

Lemma alookup_aset {K V} (eqb : K -> K -> bool) (spec : forall a b, reflect (a = b) (eqb a b)) k v (d : list (K * V)) x :
  alookup eqb x (aset eqb k v d) = if eqb x k then Some v else alookup eqb x d.
Proof.
  induction d as [|[k' v'] t IH]; cbn [aset alookup]; [reflexivity|].
  destruct (spec k k') as [->|Hne]; cbn [alookup].
  - destruct (eqb x k'); reflexivity.
  - rewrite IH. destruct (spec x k') as [->|]; [|reflexivity]. destruct (spec k' k); [congruence | reflexivity].
Qed.

Lemma aset_in {V} k (v : V) d kv : In kv (aset Z.eqb k v d) -> kv = (k, v) \/ In kv d.
Proof.
  induction d as [|[k' v'] t IH]; cbn [aset]; intros H.
  - destruct H as [<-|[]]. left. reflexivity.
  - destruct (Z.eqb_spec k k') as [->|].
    + destruct H as [<-|H]; [left; reflexivity | right; right; exact H].
    + destruct H as [<-|H]; [right; left; reflexivity|]. destruct (IH H); [left | right; right]; assumption.
Qed.

Lemma fold_phase_write_in ws : forall d k, In k (fold_left phase_write ws d) -> In k ws \/ In k d.
Proof.
  induction ws as [|w ws IH]; intros d k H; [right; exact H|]. cbn [fold_left] in H. apply IH in H. destruct H as [H|H].
  - left. right. exact H.
  - unfold phase_write in H. apply aset_in in H. destruct H as [->|H]; [left; left; destruct w; reflexivity | right; exact H].
Qed.

Lemma fold_phase_write_key ws : forall d x, (alookup Z.eqb x d <> None \/ In x (map fst ws)) ->
  alookup Z.eqb x (fold_left phase_write ws d) <> None.
Proof.
  induction ws as [|w ws IH]; intros d x H; cbn [fold_left].
  - destruct H as [H|[]]. exact H.
  - apply IH. unfold phase_write. rewrite (alookup_aset Z.eqb Z.eqb_spec).
    destruct (Z.eqb_spec x (fst w)) as [e|ne]; [left; discriminate|].
    destruct H as [H|[H|H]]; [left; exact H | congruence | right; exact H].
Qed.

Definition pstep (g : gview) (c : consts) (ph : list (str * pdict)) (r : read) : list (str * pdict) :=
  if eligible g r then phases_add ph (r_name r) (read_phase g c r) else ph.
Lemma phases_snoc g c rs r : phases g c (rs ++ [r]) = pstep g c (phases g c rs) r.
Proof. unfold phases. rewrite fold_left_app. reflexivity. Qed.

(* every entry of a fragment's record was written by an eligible read of that fragment, which shows it (read_phase_shown) *)
Theorem phase_sound g c rs : forall frag d k, alookup str_eqb frag (phases g c rs) = Some d -> In k d ->
  exists r, In r rs /\ eligible g r = true /\ r_name r = frag /\ In k (read_phase g c r).
Proof.
  induction rs as [|r rs IH] using rev_ind; intros frag d k A K; [discriminate|].
  rewrite phases_snoc in A. unfold pstep in A. destruct (eligible g r) eqn:E.
  - unfold phases_add in A. rewrite (alookup_aset str_eqb str_eqb_spec) in A.
    destruct (str_eqb_spec frag (r_name r)) as [->|ne].
    + injection A as <-. apply fold_phase_write_in in K. destruct K as [K|K].
      * exists r. repeat split; try assumption. apply in_or_app. right. left. reflexivity.
      * destruct (alookup str_eqb (r_name r) (phases g c rs)) as [d0|] eqn:A0; [|contradiction].
        destruct (IH _ _ _ A0 K) as (r0 & I & E0 & N & P). exists r0. repeat split; try assumption. apply in_or_app. left. exact I.
    + destruct (IH _ _ _ A K) as (r0 & I & E0 & N & P). exists r0. repeat split; try assumption. apply in_or_app. left. exact I.
  - destruct (IH _ _ _ A K) as (r0 & I & E0 & N & P). exists r0. repeat split; try assumption. apply in_or_app. left. exact I.
Qed.

(* every catalogued site under an aligned (M/=/X) base of an eligible read has an entry in its fragment's record *)
Theorem phase_complete g c rs : forall r x j, In r rs -> eligible g r = true ->
  aligned (r_cigar r) (r_start r) O x = Some j -> phaseable g x = true ->
  exists d, alookup str_eqb (r_name r) (phases g c rs) = Some d /\ alookup Z.eqb x d <> None.
Proof.
  induction rs as [|r' rs IH] using rev_ind; intros r x j I E A P; [contradiction|].
  rewrite phases_snoc. unfold pstep. apply in_app_or in I. destruct I as [I|[<-|[]]].
  - destruct (IH r x j I E A P) as (d & D1 & D2). destruct (eligible g r'); [|exists d; split; assumption].
    unfold phases_add. rewrite (alookup_aset str_eqb str_eqb_spec).
    destruct (str_eqb_spec (r_name r) (r_name r')) as [e|ne]; [|exists d; split; assumption].
    eexists. split; [reflexivity|]. apply fold_phase_write_key. left. rewrite <- e, D1. exact D2.
  - rewrite E. unfold phases_add. rewrite (alookup_aset str_eqb str_eqb_spec), str_eqb_refl.
    eexists. split; [reflexivity|]. apply fold_phase_write_key. right.
    destruct (walk_phase_complete g c (mapq_bin c r') (r_cigar r') (r_start r') O (r_seq r') (r_qual r') prev_q0 x j A P) as [op H].
    apply in_map_iff. exists (x, op). split; [reflexivity|]. unfold read_phase. apply in_phase_of. exact H.
Qed.

(* ================================================================== one merge step: where each observation comes from *)
Theorem quality_merged dump os m o : In o (merge_one dump os m) ->
  In o os
  \/ (exists o', In o' os /\ o = ((fst (fst o'), ref_op), snd o'))
  \/ (exists o' items, In o' os /\
        items = flat_map (fun ck => match find (fun o => key_eqb (fst o) (snd ck)) os with Some o => [snd o] | None => [] end) (comps m) /\
        o = ((fst (fst o'), multi_op (fst (snd m)) (snd (snd m))), (qmean (map fst items), qmean (map snd items)))).
Proof.
  rewrite merge_one_unfold. destruct (matched dump m); [|left; assumption].
  intros H. apply in_map_iff in H. destruct H as (o' & <- & I). unfold relabel.
  destruct (comp_index (comps m) (fst o')) as [[|i]|].
  - right. right. eexists o', _. split; [exact I|]. split; reflexivity.
  - right. left. exists o'. split; [exact I | reflexivity].
  - left. exact I.
Qed.

(* the components whose mean is taken are observations of the same read *)
Lemma merged_items_from os cs q :
  In q (flat_map (fun ck : nat * key => match find (fun o : obs => key_eqb (fst o) (snd ck)) os with Some o => [snd o] | None => [] end) cs) ->
  exists o ck, In o os /\ In ck cs /\ fst o = snd ck /\ snd o = q.
Proof.
  intros H. apply in_flat_map in H. destruct H as (ck & Hck & Hq).
  destruct (find (fun o : obs => key_eqb (fst o) (snd ck)) os) as [o|] eqn:E; [|contradiction].
  destruct Hq as [<-|[]]. apply find_some in E. destruct E as [E1 E2]. cbv beta in E2.
  destruct (key_eqb_spec (fst o) (snd ck)) as [e|]; [|discriminate]. exists o, ck. repeat split; assumption.
Qed.

(* ================================================================== which records are ineligible *)
Theorem ineligible_kinds g r :
  (r_funmap r = true \/ r_offtarget r = true \/ r_supp r = true \/ r_cigar r = [] \/ r_seq r = [] \/
   (exists n, In (CH, n) (r_cigar r))) -> eligible g r = false.
Proof.
  intros H. apply not_true_is_false. intros E. unfold eligible, in_region in E.
  apply andb_true_iff in E. destruct E as [E E5]. apply andb_true_iff in E. destruct E as [E E4].
  apply andb_true_iff in E. destruct E as [E E3]. apply andb_true_iff in E. destruct E as [E1 E2].
  apply andb_true_iff in E5. destruct E5 as [E5 E7]. apply andb_true_iff in E5. destruct E5 as [E5 E6].
  destruct H as [H|[H|[H|[H|[H|[n H]]]]]].
  - rewrite H in E6. discriminate.
  - rewrite H in E5. discriminate.
  - rewrite H in E2. discriminate.
  - rewrite H in E1. discriminate.
  - rewrite H in E4. discriminate.
  - apply negb_true_iff in E3. assert (X : existsb (fun on : cop * Z => match fst on with CH => true | _ => false end) (r_cigar r) = true).
    { apply existsb_exists. exists (CH, n). split; [exact H | reflexivity]. }
    rewrite X in E3. discriminate.
Qed.

Theorem prev_q_facts r pre :
  prev_q_after r [] = prev_q0 /\
  (forall o n l, std_cigar pre = true -> is_match o = true -> (0 < len_of n)%nat -> r_qual r = Some l ->
     prev_q_after r (pre ++ [(o, n)]) = inject_Z (nth (query_len pre + len_of n - 1) l 0)) /\
  (forall n l, std_cigar pre = true -> r_qual r = Some l ->
     prev_q_after r (pre ++ [(CI, n)]) = qmean (map inject_Z (firstn (len_of n) (skipn (query_len pre) l)))) /\
  (forall o n, o = CS \/ o = CD -> prev_q_after r (pre ++ [(o, n)]) = prev_q_after r pre).
Proof.
  split; [apply prev_q_start|]. split; [intros; apply prev_q_match; assumption|].
  split; [intros; apply prev_q_ins; assumption | intros; apply prev_q_clip_del; assumption].
Qed.

Theorem phase_sound_shown g c rs frag d k : alookup str_eqb frag (phases g c rs) = Some d -> In k d ->
  exists r, In r rs /\ eligible g r = true /\ r_name r = frag /\ In k (read_phase g c r) /\
            phaseable g (fst k) = true /\ (In k (map fst (raw_obs g c r)) \/ In k (dump_of (read_events g c r))).
Proof.
  intros A K. destruct (phase_sound g c rs frag d k A K) as (r & I & E & N & P).
  exists r. repeat split; try assumption; apply (read_phase_shown g c r k P).
Qed.

(* ================================================================== a complete catalogued multi-substitution is counted once *)
(* dump_arr and the observations agree on substitution keys *)
Definition sub_key (k : key) : Prop := exists a b, snd k = sub_op a b.

Lemma sub_ne_ref a b : sub_op a b <> ref_op. Proof. discriminate. Qed.
Lemma sub_ne_gap a b : sub_op a b <> gap_op. Proof. discriminate. Qed.
Lemma sub_ne_del a b x : sub_op a b <> del_op x. Proof. unfold sub_op, del_op. intros H. injection H. intros. discriminate. Qed.

Definition du_ob_ok (ev : list event) : Prop :=
  forall k, sub_key k -> (In (Du k) ev <-> exists q, In (Ob (k, q)) ev).

Lemma du_ob_ok_app a b : du_ob_ok a -> du_ob_ok b -> du_ob_ok (a ++ b).
Proof.
  intros Ha Hb k S. split.
  - intros H. apply in_app_or in H. destruct H as [H|H]; [apply (Ha k S) in H | apply (Hb k S) in H]; destruct H as [q H]; exists q; apply in_or_app; auto.
  - intros [q H]. apply in_app_or in H. destruct H as [H|H]; apply in_or_app; [left; apply (Ha k S) | right; apply (Hb k S)]; exists q; exact H.
Qed.

Lemma m_run_du_ob g c mqb n : forall p sq ql pq, du_ob_ok (fst (m_run g c mqb n p sq ql pq)).
Proof.
  induction n as [|n IH]; intros; [intros k _; split; [intros [] | intros [q []]]|]. cbn [m_run].
  specialize (IH (p + 1) (tl sq) (option_map (@tl Z) ql) (match ql with Some l => inject_Z (hd 0 l) | None => pq end)).
  destruct (m_run g c mqb n (p + 1) (tl sq) (option_map (@tl Z) ql) _) as [ev st]. cbn [fst] in *.
  set (op := classify g p (hd 78 sq)) in *. set (q0 := (mqb, binq c _)).
  change (du_ob_ok ([Ob ((p, op), q0)] ++ (if str_eqb op ref_op then [] else [Du (p, op)]) ++ (if phaseable g p then [Ph (p, op)] else []) ++ ev)).
  intros k S. split.
  - intros H. apply in_app_or in H. destruct H as [[H|[]]|H]; [discriminate|].
    apply in_app_or in H. destruct H as [H|H].
    + destruct (str_eqb op ref_op); [contradiction|]. destruct H as [H|[]]. injection H as <-. exists q0. left. reflexivity.
    + apply in_app_or in H. destruct H as [H|H]; [destruct (phaseable g p); [destruct H as [H|[]]; discriminate | contradiction]|].
      apply (IH k S) in H. destruct H as [q H]. exists q. in_tail. exact H.
  - intros [q H]. apply in_app_or in H. destruct H as [[H|[]]|H].
    + injection H as <- <-. apply in_or_app. right. apply in_or_app. left.
      destruct (str_eqb_spec op ref_op) as [e|ne]; [|left; reflexivity].
      destruct S as (a & b & S). cbn [snd] in S. rewrite e in S. discriminate.
    + apply in_app_or in H. destruct H as [H|H]; [destruct (str_eqb op ref_op); [contradiction | destruct H as [H|[]]; discriminate]|].
      apply in_app_or in H. destruct H as [H|H]; [destruct (phaseable g p); [destruct H as [H|[]]; discriminate | contradiction]|].
      in_tail. apply (IH k S). exists q. exact H.
Qed.

Lemma walk_du_ob g c mqb cg : forall p sq ql pq, du_ob_ok (walk g c mqb cg p sq ql pq).
Proof.
  induction cg as [|[o n] t IH]; intros; [intros k _; split; [intros [] | intros [q []]]|].
  assert (HM : du_ob_ok (let '(ev, (sq', ql', pq')) := m_run g c mqb (len_of n) p sq ql pq in
                         ev ++ walk g c mqb t (p + Z.of_nat (len_of n)) sq' ql' pq')).
  { pose proof (m_run_du_ob g c mqb (len_of n) p sq ql pq) as A.
    destruct (m_run g c mqb (len_of n) p sq ql pq) as [ev [[sq' ql'] pq']]. apply du_ob_ok_app; [exact A | apply IH]. }
  destruct o; cbn [walk]; try exact HM; try apply IH.
  - (* I: the key has an insertion operation, never a substitution *)
    set (i := (p, ins_op (firstn (len_of n) sq))). set (q0 := (mqb, binq c _)).
    change (du_ob_ok ([Ob (i, q0); Du i] ++ (if phaseable g p then [Ph i] else []) ++
                      walk g c mqb t p (skipn (len_of n) sq) (option_map (skipn (len_of n)) ql)
                        (match ql with Some l => qmean (map inject_Z (firstn (len_of n) l)) | None => pq end))).
    apply du_ob_ok_app; [|apply du_ob_ok_app; [|apply IH]].
    + intros k S. split.
      * intros [H|[H|[]]]; [discriminate|]. injection H as <-. exists q0. left. reflexivity.
      * intros [q [H|[H|[]]]]; [|discriminate]. injection H as <- _. right. left. reflexivity.
    + intros k S. destruct (phaseable g p).
      * split; [intros [H|[]]; discriminate | intros [q [H|[]]]; discriminate].
      * split; [intros [] | intros [q []]].
  - (* D *)
    set (d := (p, del_op (gslice g p (len_of n)))).
    change (du_ob_ok (map (fun x => Ob ((x, gap_op), (mqb, binq c pq))) (zseq p (len_of n)) ++ [Du d] ++
                      (if phaseable g p then [Ph d] else []) ++ walk g c mqb t (p + Z.of_nat (len_of n)) sq ql pq)).
    apply du_ob_ok_app; [|apply du_ob_ok_app; [|apply du_ob_ok_app; [|apply IH]]].
    + intros k (a & b & S). split.
      * intros H. apply in_map_iff in H. destruct H as (y & H & _). discriminate.
      * intros [q H]. apply in_map_iff in H. destruct H as (y & H & _). injection H as <- _. cbn [snd] in S. discriminate.
    + intros k (a & b & S). split.
      * intros [H|[]]. injection H as <-. cbn [snd] in S. exfalso. symmetry in S. apply (sub_ne_del _ _ _ S).
      * intros [q [H|[]]]. discriminate.
    + intros k S. destruct (phaseable g p).
      * split; [intros [H|[]]; discriminate | intros [q [H|[]]]; discriminate].
      * split; [intros [] | intros [q []]].
Qed.

Lemma dump_iff_obs g c r k : sub_key k -> (In k (dump_of (read_events g c r)) <-> In k (map fst (raw_obs g c r))).
Proof.
  intros S. rewrite in_dump_of. unfold raw_obs, read_events.
  rewrite (walk_du_ob g c (mapq_bin c r) (r_cigar r) (r_start r) (r_seq r) (r_qual r) prev_q0 k S). split.
  - intros [q H]. apply in_map_iff. exists (k, q). split; [reflexivity | apply in_obs_of, H].
  - intros H. apply in_map_iff in H. destruct H as ([k' q] & <- & H). exists q. apply in_obs_of, H.
Qed.

(* components: positions strictly increase, so a key identifies its index *)
Lemma comps_from_pos pos l r : forall i ck, In ck (comps_from pos i l r) -> fst (snd ck) = pos + Z.of_nat (fst ck) /\ (i <= fst ck)%nat.
Proof.
  induction l as [|a l IH]; intros i ck H; simpl in H; [contradiction|].
  apply in_app_or in H. destruct H as [H|H].
  - destruct (a =? 46); [contradiction|]. destruct H as [<-|[]]. simpl. split; [reflexivity | lia].
  - destruct (IH _ _ H). split; [assumption | lia].
Qed.

Lemma comp_index_in m ck : In ck (comps m) -> comp_index (comps m) (snd ck) = Some (fst ck).
Proof.
  intros H. unfold comp_index. destruct (find (fun ck' => key_eqb (snd ck') (snd ck)) (comps m)) as [ck'|] eqn:E.
  - apply find_some in E. destruct E as [E1 E2]. cbv beta in E2. destruct (key_eqb_spec (snd ck') (snd ck)) as [e|]; [|discriminate].
    f_equal. unfold comps in *. destruct (comps_from_pos _ _ _ _ _ H) as [P1 _]. destruct (comps_from_pos _ _ _ _ _ E1) as [P2 _].
    assert (fst (snd ck') = fst (snd ck)) by (rewrite e; reflexivity). lia.
  - exfalso. apply (find_none _ _ E) in H. cbv beta in H. rewrite key_eqb_refl in H. discriminate.
Qed.

Lemma comps_first pos l r a l' : l = a :: l' -> a <> 46 -> In (O, (pos, sub_op a (nth 0 r 0))) (comps (pos, (l, r))).
Proof.
  intros -> H. unfold comps. cbn [fst snd comps_from]. replace (a =? 46) with false by (symmetry; apply Z.eqb_neq; exact H).
  left. rewrite Z.add_0_r. reflexivity.
Qed.

(* the merge at a position of m: other multi-substitutions leave it alone (pairwise disjoint) *)
Lemma disjoint_keys_pos a b ck x : disjoint_keys a b = true -> In ck b -> fst (snd ck) = x -> forall ck', In ck' a -> fst (snd ck') <> x.
Proof.
  unfold disjoint_keys. intros D I E ck' I' E'. rewrite forallb_forall in D. specialize (D ck' I'). apply negb_true_iff in D.
  assert (X : existsb (fun y => fst (snd ck') =? fst (snd y)) b = true).
  { apply existsb_exists. exists ck. split; [exact I | apply Z.eqb_eq; etransitivity; [exact E' | symmetry; exact E]]. }
  exact (eq_true_false_abs _ X D).
Qed.
Lemma disjoint_keys_pos' a b ck x : disjoint_keys a b = true -> In ck a -> fst (snd ck) = x -> forall ck', In ck' b -> fst (snd ck') <> x.
Proof.
  unfold disjoint_keys. intros D I E ck' I' E'. rewrite forallb_forall in D. specialize (D ck I). apply negb_true_iff in D.
  assert (X : existsb (fun y => fst (snd ck) =? fst (snd y)) b = true).
  { apply existsb_exists. exists ck'. split; [exact I' | apply Z.eqb_eq; etransitivity; [exact E | symmetry; exact E']]. }
  exact (eq_true_false_abs _ X D).
Qed.

Lemma merge_list_same dump ms : forall os x, (forall m, In m ms -> is_ins (multi_op (fst (snd m)) (snd (snd m))) = false) ->
  (forall m ck, In m ms -> In ck (comps m) -> fst (snd ck) <> x) -> at_pos x (fold_left (merge_one dump) ms os) = at_pos x os.
Proof.
  induction ms as [|m ms IH]; intros os x H F; [reflexivity|]. cbn [fold_left]. rewrite IH.
  - apply merge_one_at_same; [apply H; left; reflexivity | intros ck Hck; eapply F; [left; reflexivity | exact Hck]].
  - intros; apply H; right; assumption.
  - intros m' ck Hm'. apply F. right. exact Hm'.
Qed.

Lemma merge_at_comp dump ms : forall os m ck x,
  (forall m', In m' ms -> is_ins (multi_op (fst (snd m')) (snd (snd m'))) = false) ->
  pairwise (fun a b => disjoint_keys (comps a) (comps b)) ms = true ->
  In m ms -> In ck (comps m) -> fst (snd ck) = x ->
  exists os', at_pos x os' = at_pos x os /\ at_pos x (fold_left (merge_one dump) ms os) = at_pos x (merge_one dump os' m).
Proof.
  induction ms as [|m0 ms IH]; intros os m ck x H PW I C E; [contradiction|].
  cbn [pairwise] in PW. apply andb_true_iff in PW. destruct PW as [PW0 PW]. rewrite forallb_forall in PW0.
  cbn [fold_left]. destruct I as [->|I].
  - exists os. split; [reflexivity|]. apply merge_list_same; [intros; apply H; right; assumption|].
    intros m' ck' Hm' Hck'. apply (disjoint_keys_pos' (comps m) (comps m') ck x (PW0 m' Hm') C E ck' Hck').
  - destruct (IH (merge_one dump os m0) m ck x) as (os' & A & B); try assumption; [intros; apply H; right; assumption|].
    exists os'. split; [|exact B]. rewrite A. apply merge_one_at_same; [apply H; left; reflexivity|].
    intros ck' Hck'. apply (disjoint_keys_pos (comps m0) (comps m) ck x (PW0 m I) C E ck' Hck').
Qed.

Lemma memb_key_in k l : memb key_eqb k l = true <-> In k l.
Proof.
  unfold memb. rewrite existsb_exists. split.
  - intros (k' & I & E). destruct (key_eqb_spec k k') as [->|]; [exact I | discriminate].
  - intros I. exists k. split; [exact I | apply key_eqb_refl].
Qed.

Definition shows_all (g : gview) (c : consts) (r : read) (m : Z * (str * str)) : Prop :=
  forall ck, In ck (comps m) -> In (snd ck) (map fst (raw_obs g c r)).

Lemma multi_wf1_parts m : multi_wf1 m = true ->
  length (fst (snd m)) = length (snd (snd m)) /\ (2 <= length (fst (snd m)))%nat /\
  (exists a l', fst (snd m) = a :: l' /\ a <> 46) /\ is_ins (multi_op (fst (snd m)) (snd (snd m))) = false.
Proof.
  destruct m as [pos [l r]]. unfold multi_wf1. cbn [fst snd]. intros H.
  apply andb_true_iff in H. destruct H as [H H4]. apply andb_true_iff in H. destruct H as [H H3]. apply andb_true_iff in H. destruct H as [H1 H2].
  apply Nat.eqb_eq in H1. apply Nat.leb_le in H2. apply negb_true_iff in H3, H4. repeat split; try assumption.
  destruct l as [|a l']; [simpl in H2; lia|]. exists a, l'. split; [reflexivity|]. simpl in H3. apply Z.eqb_neq. exact H3.
Qed.

(* the merge condition of the code (all components in dump_arr) = the read shows every component substitution *)
Theorem matched_iff_shows_all g c r m : multi_wf1 m = true ->
  (matched (dump_of (read_events g c r)) m = true <-> shows_all g c r m).
Proof.
  intros W. destruct (multi_wf1_parts m W) as (_ & _ & (a & l' & El & Ha) & _). unfold matched, shows_all. split.
  - intros H ck I. apply andb_true_iff in H. destruct H as [_ H]. rewrite forallb_forall in H. specialize (H ck I). cbv beta in H.
    apply memb_key_in in H. apply (dump_iff_obs g c r (snd ck)); [|exact H].
    unfold comps in I. apply comps_from_sub in I. destruct I as (x & y & E). exists x, y. rewrite E. reflexivity.
  - intros H. assert (D : forall ck, In ck (comps m) -> In (snd ck) (dump_of (read_events g c r))).
    { intros ck I. apply (dump_iff_obs g c r (snd ck)); [|apply H, I].
      unfold comps in I. apply comps_from_sub in I. destruct I as (x & y & E). exists x, y. rewrite E. reflexivity. }
    apply andb_true_iff. split.
    + destruct m as [pos [l r0]]. cbn [fst snd] in *. pose proof (comps_first pos l r0 a l' El Ha) as I0. specialize (D _ I0). cbn [snd] in D.
      unfold memb. apply existsb_exists. exists pos. split; [|apply Z.eqb_refl]. apply in_map_iff. eexists. split; [|exact D]. reflexivity.
    + apply forallb_forall. intros ck I. apply memb_key_in, D, I.
Qed.

Lemma str_eqb_length a b : str_eqb a b = true -> length a = length b.
Proof. intros H. apply str_eqb_eq in H. subst. reflexivity. Qed.

Lemma multi_op_long l r op : (2 <= length l)%nat -> length l = length r -> (length op <= 3)%nat -> str_eqb (multi_op l r) op = false.
Proof.
  intros H1 H2 H3. destruct (str_eqb (multi_op l r) op) eqn:E; [|reflexivity]. apply str_eqb_length in E.
  unfold multi_op in E. rewrite app_length in E. cbn [length] in E. lia.
Qed.
Lemma classify_short g p b : (length (classify g p b) <= 3)%nat.
Proof. unfold classify. destruct (in_gene g p && negb (base g p =? b)); simpl; lia. Qed.

Lemma raw_at_shape g c r x : exists k q, at_pos x (raw_obs g c r) = [(k, q)] \/ at_pos x (raw_obs g c r) = [].
Proof.
  destruct (raw_at g c r x) as [gq E]. rewrite E. unfold read_exp_at, exp_at.
  destruct (aligned (r_cigar r) (r_start r) 0 x); [eexists _, _; left; reflexivity|].
  destruct (covered (r_cigar r) (r_start r) x); [eexists _, _; left; reflexivity | exists (0, []), (0%Q, 0%Q); right; reflexivity].
Qed.

Lemma raw_at_one_key g c r x k : In k (map fst (raw_obs g c r)) -> fst k = x -> is_ins (snd k) = false ->
  exists q, at_pos x (raw_obs g c r) = [(k, q)].
Proof.
  intros I E N. destruct (raw_at_shape g c r x) as (k0 & q0 & [H|H]).
  - assert (I' : exists q', In (k, q') (at_pos x (raw_obs g c r))).
    { apply in_map_iff in I. destruct I as ([k' q'] & <- & I). exists q'. unfold at_pos. apply filter_In. split; [exact I|].
      unfold dpred. cbn [fst snd] in *. rewrite E, Z.eqb_refl, N. reflexivity. }
    destruct I' as [q' I']. rewrite H in I'. destruct I' as [I'|[]]. injection I' as <- <-. exists q0. exact H.
  - exfalso. apply in_map_iff in I. destruct I as ([k' q'] & <- & I).
    assert (I' : In (k', q') (at_pos x (raw_obs g c r))).
    { unfold at_pos. apply filter_In. split; [exact I|]. unfold dpred. cbn [fst snd] in *. rewrite E, Z.eqb_refl, N. reflexivity. }
    rewrite H in I'. contradiction.
Qed.

(* what the read's observations are at a position of m after the merge *)
Lemma read_at_comp g c r m ck : multi_wf g = true -> In m (g_multi g) -> In ck (comps m) ->
  (shows_all g c r m ->
     exists q, at_pos (fst (snd ck)) (read_obs g c r) =
               [match fst ck with
                | O => ((fst (snd ck), multi_op (fst (snd m)) (snd (snd m))), q)
                | S _ => ((fst (snd ck), ref_op), q)
                end]) /\
  (~ shows_all g c r m -> at_pos (fst (snd ck)) (read_obs g c r) = at_pos (fst (snd ck)) (raw_obs g c r)).
Proof.
  intros W I C. pose proof (multi_wf_ops_ok g W) as OK.
  unfold multi_wf in W. apply andb_true_iff in W. destruct W as [W1 W2]. rewrite forallb_forall in W1. pose proof (W1 m I) as Wm.
  unfold read_obs, merge.
  destruct (merge_at_comp (dump_of (read_events g c r)) (g_multi g) (obs_of (read_events g c r)) m ck (fst (snd ck)) OK W2 I C eq_refl)
    as (os' & A & B).
  fold (raw_obs g c r) in A, B |- *. rewrite B, merge_one_unfold. split.
  - intros S. rewrite (proj2 (matched_iff_shows_all g c r m Wm) S).
    set (mq := (let items := _ in (qmean (map fst items), qmean (map snd items)))). clearbody mq.
    unfold at_pos. rewrite filter_map_comm by (intros; apply relabel_dpred, OK, I). fold (at_pos (fst (snd ck)) os'). rewrite A.
    assert (SK : is_ins (snd (snd ck)) = false).
    { unfold comps in C. apply comps_from_sub in C. destruct C as (x & y & E). rewrite E. apply is_ins_sub. }
    destruct (raw_at_one_key g c r (fst (snd ck)) (snd ck) (S ck C) eq_refl SK) as [q Hq]. rewrite Hq. cbn [map].
    unfold relabel. cbn [fst]. rewrite (comp_index_in m ck C). destruct (fst ck); [exists mq | exists q]; reflexivity.
  - intros NS. destruct (matched (dump_of (read_events g c r)) m) eqn:E; [|exact A].
    exfalso. apply NS. apply (matched_iff_shows_all g c r m Wm). exact E.
Qed.

(* a read showing the complete catalogued multi-substitution m is counted once, under m, at m's first position; not under its
   component substitutions; as reference at the later component positions.  A read not showing all of it is not counted under m. *)
Theorem mnp_counted_once g c r m : multi_wf g = true -> In m (g_multi g) ->
  (shows_all g c r m ->
     kcount (read_obs g c r) (fst m, multi_op (fst (snd m)) (snd (snd m))) = 1 /\
     (forall ck, In ck (comps m) -> kcount (read_obs g c r) (snd ck) = 0) /\
     (forall ck, In ck (comps m) -> fst ck <> O -> kcount (read_obs g c r) (fst (snd ck), ref_op) = 1)) /\
  (~ shows_all g c r m -> kcount (read_obs g c r) (fst m, multi_op (fst (snd m)) (snd (snd m))) = 0).
Proof.
  intros W I. pose proof (multi_wf_ops_ok g W) as OK. pose proof W as W'.
  unfold multi_wf in W'. apply andb_true_iff in W'. destruct W' as [W1 _]. rewrite forallb_forall in W1. pose proof (W1 m I) as Wm.
  destruct (multi_wf1_parts m Wm) as (L1 & L2 & (a & l' & El & Ha) & NI).
  assert (C0 : In (O, (fst m, sub_op a (nth 0 (snd (snd m)) 0))) (comps m)).
  { destruct m as [pos [l r0]]. cbn [fst snd] in *. apply (comps_first pos l r0 a l' El Ha). }
  split.
  - intros S. split; [|split].
    + rewrite kcount_at by exact NI. destruct (proj1 (read_at_comp g c r m _ W I C0) S) as [q E]. cbn [fst snd] in E. rewrite E.
      rewrite count_single. cbn [fst]. rewrite key_eqb_refl. reflexivity.
    + intros ck C. assert (SK : exists x y, snd ck = (fst (snd ck), sub_op x y)).
      { unfold comps in C. apply comps_from_sub in C. destruct C as (x & y & E). exists x, y. rewrite E. reflexivity. }
      destruct SK as (x & y & SK). rewrite SK. rewrite kcount_at by apply is_ins_sub.
      destruct (proj1 (read_at_comp g c r m ck W I C) S) as [q E]. rewrite E, count_single. cbn [fst]. unfold key_eqb. cbn [fst snd].
      destruct (fst ck); cbn [fst snd]; rewrite ?Z.eqb_refl; cbn [andb].
      * rewrite multi_op_long; [reflexivity | exact L2 | exact L1 | simpl; lia].
      * rewrite str_eqb_ref_sub. reflexivity.
    + intros ck C NZ. rewrite kcount_at by reflexivity.
      destruct (proj1 (read_at_comp g c r m ck W I C) S) as [q E]. rewrite E, count_single. cbn [fst].
      destruct (fst ck); [contradiction|]. rewrite key_eqb_refl. reflexivity.
  - intros NS. rewrite kcount_at by exact NI. pose proof (proj2 (read_at_comp g c r m _ W I C0) NS) as E. cbn [fst snd] in E. rewrite E.
    destruct (raw_at g c r (fst m)) as [gq R]. rewrite R. unfold read_exp_at, exp_at.
    destruct (aligned (r_cigar r) (r_start r) 0 (fst m)).
    + rewrite count_single. unfold key_eqb. cbn [fst snd]. rewrite Z.eqb_refl. cbn [andb]. rewrite str_eqb_sym_aux.
      rewrite multi_op_long; [reflexivity | exact L2 | exact L1 | apply classify_short].
    + destruct (covered (r_cigar r) (r_start r) (fst m)); [|reflexivity].
      rewrite count_single. unfold key_eqb. cbn [fst snd]. rewrite Z.eqb_refl. cbn [andb]. rewrite str_eqb_sym_aux.
      rewrite multi_op_long; [reflexivity | exact L2 | exact L1 | simpl; lia].
Qed.

Definition shows_allb (g : gview) (c : consts) (r : read) (m : Z * (str * str)) : bool := matched (dump_of (read_events g c r)) m.

(* table level: the count under a catalogued multi-substitution = the eligible reads that show all of it *)
Theorem mnp_table_count g c rs indels m : multi_wf g = true -> In m (g_multi g) -> in_bounds g (fst m) = true ->
  alookup key_eqb (fst m, multi_op (fst (snd m)) (snd (snd m))) indels = None ->
  cov_coverage (sample_table g c rs) indels (fst m, multi_op (fst (snd m)) (snd (snd m)))
  = count (fun r => eligible g r && shows_allb g c r m) rs.
Proof.
  intros W I B A. pose proof (multi_wf_ops_ok g W m I) as NI. unfold cov_coverage. rewrite A.
  rewrite table_kcount by assumption. rewrite kcount_pile. apply zsum_ind_count. intros r.
  destruct (eligible g r); cbn [andb]; [|reflexivity].
  pose proof W as W'. unfold multi_wf in W'. apply andb_true_iff in W'. destruct W' as [W1 _]. rewrite forallb_forall in W1.
  destruct (mnp_counted_once g c r m W I) as [Y N]. unfold shows_allb.
  destruct (matched (dump_of (read_events g c r)) m) eqn:E.
  - apply Y. apply (matched_iff_shows_all g c r m (W1 m I)). exact E.
  - apply N. intros S. apply (matched_iff_shows_all g c r m (W1 m I)) in S. rewrite S in E. discriminate.
Qed.
