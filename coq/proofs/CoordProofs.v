(* CoordProofs.v — lemmas and theorems about the coordinate model (C08). *)
From Coq Require Import String.
From Aldy Require Import Base Consts Coord.
From Coq Require Import ZifyBool.
Import List.
Open Scope Z_scope.

Lemma std_tab_wf : tab_wf std_tab = true.
Proof. vm_compute. reflexivity. Qed.

(* ------------------------------------------------------------------ complement table *)
Lemma alookup_Z_in (t : ctab) x y : alookup Z.eqb x t = Some y -> In (x, y) t.
Proof.
  induction t as [|[k v] t IH]; cbn [alookup]; [discriminate|].
  destruct (Z.eqb x k) eqn:E.
  - intros H. injection H as ->. apply Z.eqb_eq in E. subst. left. reflexivity.
  - intros H. right. apply IH, H.
Qed.

Lemma tab_wf_entry t k v : tab_wf t = true -> In (k, v) t ->
  comp t (comp t k) = k /\ is_upper k = true /\ is_upper v = true.
Proof.
  intros Hw Hin. unfold tab_wf in Hw. rewrite forallb_forall in Hw. specialize (Hw _ Hin). cbn [fst snd] in Hw.
  apply andb_true_iff in Hw as [Hw H3]. apply andb_true_iff in Hw as [H1 H2]. apply Z.eqb_eq in H1. auto.
Qed.

Lemma comp_inv t x : tab_wf t = true -> comp t (comp t x) = x.
Proof.
  intros Hw. destruct (alookup Z.eqb x t) eqn:E.
  - apply alookup_Z_in in E. apply (tab_wf_entry _ _ _ Hw E).
  - unfold comp. rewrite E. simpl. rewrite E. reflexivity.
Qed.

Lemma comp_not_upper t x : tab_wf t = true -> is_upper x = false -> comp t x = x.
Proof.
  intros Hw Hx. unfold comp. destruct (alookup Z.eqb x t) eqn:E; [|reflexivity].
  apply alookup_Z_in in E. destruct (tab_wf_entry _ _ _ Hw E) as (_ & H & _). congruence.
Qed.

Lemma comp_upper t x : tab_wf t = true -> is_upper x = true -> is_upper (comp t x) = true.
Proof.
  intros Hw Hx. unfold comp. destruct (alookup Z.eqb x t) eqn:E; [|exact Hx].
  apply alookup_Z_in in E. apply (tab_wf_entry _ _ _ Hw E).
Qed.

Lemma comp_dot t : tab_wf t = true -> comp t 46 = 46.
Proof. intros Hw. apply comp_not_upper; [exact Hw|reflexivity]. Qed.

Lemma comp_is_dot t x : tab_wf t = true -> (comp t x =? 46) = (x =? 46).
Proof.
  intros Hw. destruct (x =? 46) eqn:E.
  - apply Z.eqb_eq in E. subst. rewrite comp_dot by exact Hw. reflexivity.
  - destruct (comp t x =? 46) eqn:E2; [|reflexivity]. apply Z.eqb_eq in E2.
    assert (x = 46). { rewrite <- (comp_inv t x Hw), E2. apply comp_dot, Hw. } subst. discriminate.
Qed.

Lemma comp_is_nt t x : tab_wf t = true -> is_nt (comp t x) = is_nt x.
Proof.
  intros Hw. unfold is_nt. rewrite comp_is_dot by exact Hw.
  destruct (is_upper x) eqn:E.
  - rewrite comp_upper by assumption. reflexivity.
  - rewrite comp_not_upper by assumption. rewrite E. reflexivity.
Qed.

(* ------------------------------------------------------------------ rev_comp, splice *)
Section RC.
  Variable t : ctab.
  Hypothesis Hw : tab_wf t = true.
  Notation rc := (rev_comp t).

  Lemma rc_inv x : rc (rc x) = x.
  Proof.
    unfold rev_comp. rewrite <- map_rev, rev_involutive, map_map. rewrite <- (map_id x) at 2.
    apply map_ext. intros a. apply comp_inv, Hw.
  Qed.
  Lemma rc_app a b : rc (a ++ b) = rc b ++ rc a.
  Proof. unfold rev_comp. rewrite rev_app_distr, map_app. reflexivity. Qed.
  Lemma rc_length x : length (rc x) = length x.
  Proof. unfold rev_comp. rewrite map_length, rev_length. reflexivity. Qed.
  Lemma rc_nil : rc [] = [].
  Proof. reflexivity. Qed.
  Lemma rc_inj a b : rc a = rc b -> a = b.
  Proof. intros H. rewrite <- (rc_inv a), <- (rc_inv b), H. reflexivity. Qed.
  Lemma firstn_rc n x : (n <= length x)%nat -> firstn n (rc x) = rc (skipn (length x - n) x).
  Proof. intros H. unfold rev_comp. rewrite firstn_map, firstn_rev. reflexivity. Qed.
  Lemma skipn_rc n x : (n <= length x)%nat -> skipn n (rc x) = rc (firstn (length x - n) x).
  Proof. intros H. unfold rev_comp. rewrite skipn_map, skipn_rev. reflexivity. Qed.

  (* the single lemma behind every reverse-strand rule of gene.py:528-543 *)
  Lemma splice_rc x i k r : (i + k <= length x)%nat ->
    rc (splice (rc x) (length x - i - k) k (rc r)) = splice x i k r.
  Proof.
    intros H. unfold splice. rewrite !rc_app, rc_inv.
    rewrite firstn_rc by lia. rewrite skipn_rc by lia. rewrite !rc_inv.
    replace (length x - (length x - i - k + k))%nat with i by lia.
    replace (length x - (length x - i - k))%nat with (i + k)%nat by lia.
    rewrite <- app_assoc. reflexivity.
  Qed.

  Lemma seg_rc x i k : (i + k <= length x)%nat -> seg (rc x) (length x - i - k) k = rc (seg x i k).
  Proof.
    intros H. unfold seg. rewrite skipn_rc by lia.
    replace (length x - (length x - i - k))%nat with (i + k)%nat by lia.
    rewrite firstn_rc by (rewrite firstn_length; lia).
    rewrite firstn_length. replace (Nat.min (i + k) (length x)) with (i + k)%nat by lia.
    replace (i + k - k)%nat with i by lia.
    rewrite skipn_firstn_comm. replace (i + k - i)%nat with k by lia. reflexivity.
  Qed.

  Lemma merge_snoc r o c x : length r = length o ->
    merge (r ++ [c]) (o ++ [x]) = merge r o ++ [if c =? 46 then x else c].
  Proof.
    revert o. induction r as [|a r IH]; intros [|b o] H; cbn in H; try discriminate; cbn [merge app].
    - reflexivity.
    - rewrite IH by lia. reflexivity.
  Qed.
  Lemma merge_rc r o : length r = length o -> merge (rc r) (rc o) = rc (merge r o).
  Proof.
    revert o. induction r as [|a r IH]; intros [|b o] H; cbn in H; try discriminate.
    - reflexivity.
    - unfold rev_comp in *. cbn [rev merge]. rewrite !map_app. cbn [map].
      rewrite merge_snoc by (rewrite !map_length, !rev_length; lia).
      rewrite IH by lia. f_equal. f_equal. rewrite comp_is_dot by exact Hw.
      destruct (a =? 46); reflexivity.
  Qed.
  Lemma merge_length r o : length (merge r o) = length r.
  Proof. revert o. induction r as [|a r IH]; intros [|b o]; cbn [merge length]; auto. Qed.
End RC.

(* ------------------------------------------------------------------ zseq, slices *)
Lemma zseq_length p n : length (zseq p n) = n.
Proof. revert p. induction n; intros; cbn; auto. Qed.
Lemma zseq_nth n : forall p i d, (i < n)%nat -> nth i (zseq p n) d = p + Z.of_nat i.
Proof.
  induction n as [|n IH]; intros p i d H; [lia|]. destruct i; cbn [zseq nth]; [lia|].
  rewrite IH by lia. lia.
Qed.
Lemma slice_length w a b : length (slice w a b) = Z.to_nat (b - a).
Proof. unfold slice. rewrite map_length, zseq_length. reflexivity. Qed.

(* ------------------------------------------------------------------ aligned blocks: order and disjointness *)
Lemma walk_bounds s : s = 1 \/ s = -1 -> forall cg pc pr c r n,
  cigar_ok cg = true -> In (c, r, n) (walk s pc pr cg) -> pc <= c /\ 0 <= n /\ 0 <= (r - pr) * s.
Proof.
  intros Hs. induction cg as [|[o sz] cg IH]; intros pc pr c r n Hok Hin; cbn [walk] in Hin; [contradiction|].
  cbn [cigar_ok forallb snd] in Hok. apply andb_true_iff in Hok as [Hsz Hok]. fold (cigar_ok cg) in Hok.
  destruct o.
  - destruct Hin as [Heq|Hin].
    + injection Heq as <- <- <-. lia.
    + specialize (IH _ _ _ _ _ Hok Hin). destruct Hs; subst s; lia.
  - specialize (IH _ _ _ _ _ Hok Hin). destruct Hs; subst s; lia.
  - specialize (IH _ _ _ _ _ Hok Hin). lia.
Qed.

Lemma walk_chr_disjoint s : s = 1 \/ s = -1 -> forall cg pc pr b1 b2 p,
  cigar_ok cg = true -> In b1 (walk s pc pr cg) -> In b2 (walk s pc pr cg) ->
  in_chr p b1 = true -> in_chr p b2 = true -> b1 = b2.
Proof.
  intros Hs. induction cg as [|[o sz] cg IH]; intros pc pr b1 b2 p Hok H1 H2 I1 I2; cbn [walk] in *; [contradiction|].
  pose proof Hok as Hok0.
  cbn [cigar_ok forallb snd] in Hok. apply andb_true_iff in Hok as [Hsz Hok]. fold (cigar_ok cg) in Hok.
  destruct o; try (eapply IH; eassumption).
  destruct H1 as [E1|H1], H2 as [E2|H2].
  - congruence.
  - subst b1. destruct b2 as [[c r] n]. pose proof (walk_bounds s Hs _ _ _ _ _ _ Hok H2). cbn [in_chr] in *. lia.
  - subst b2. destruct b1 as [[c r] n]. pose proof (walk_bounds s Hs _ _ _ _ _ _ Hok H1). cbn [in_chr] in *. lia.
  - eapply IH; eassumption.
Qed.

Lemma walk_ref_disjoint s : s = 1 \/ s = -1 -> forall cg pc pr b1 b2 q,
  cigar_ok cg = true -> In b1 (walk s pc pr cg) -> In b2 (walk s pc pr cg) ->
  in_ref s q b1 = true -> in_ref s q b2 = true -> b1 = b2.
Proof.
  intros Hs. induction cg as [|[o sz] cg IH]; intros pc pr b1 b2 q Hok H1 H2 I1 I2; cbn [walk] in *; [contradiction|].
  cbn [cigar_ok forallb snd] in Hok. apply andb_true_iff in Hok as [Hsz Hok]. fold (cigar_ok cg) in Hok.
  destruct o; try (eapply IH; eassumption).
  destruct H1 as [E1|H1], H2 as [E2|H2].
  - congruence.
  - subst b1. destruct b2 as [[c r] n]. pose proof (walk_bounds s Hs _ _ _ _ _ _ Hok H2). cbn [in_ref] in *.
    destruct Hs; subst s; lia.
  - subst b2. destruct b1 as [[c r] n]. pose proof (walk_bounds s Hs _ _ _ _ _ _ Hok H1). cbn [in_ref] in *.
    destruct Hs; subst s; lia.
  - eapply IH; eassumption.
Qed.

Lemma sg_cases al : sg al = 1 \/ sg al = -1.
Proof. unfold sg. destruct (a_plus al); auto. Qed.

Lemma find_unique {A} (f : A -> bool) l b :
  (forall b1 b2, In b1 l -> In b2 l -> f b1 = true -> f b2 = true -> b1 = b2) ->
  In b l -> f b = true -> find f l = Some b.
Proof.
  intros Hu Hin Hf. destruct (find f l) eqn:E.
  - apply find_some in E as [E1 E2]. f_equal. apply Hu; assumption.
  - exfalso. pose proof (find_none _ _ E _ Hin). congruence.
Qed.

Lemma chr_to_ref_block al c r n p : cigar_ok (a_cigar al) = true -> In (c, r, n) (blocks al) -> c <= p < c + n ->
  chr_to_ref al p = Some (r + (p - c) * sg al).
Proof.
  intros Hok Hin Hp. unfold chr_to_ref.
  rewrite (find_unique (in_chr p) (blocks al) (c, r, n)); [reflexivity| |exact Hin|cbn [in_chr]; lia].
  intros b1 b2 H1 H2. unfold blocks in *. eapply walk_chr_disjoint; eauto using sg_cases.
Qed.
Lemma ref_to_chr_block al c r n q : cigar_ok (a_cigar al) = true -> In (c, r, n) (blocks al) -> 0 <= (q - r) * sg al < n ->
  ref_to_chr al q = Some (c + (q - r) * sg al).
Proof.
  intros Hok Hin Hq. unfold ref_to_chr.
  rewrite (find_unique (in_ref (sg al) q) (blocks al) (c, r, n)); [reflexivity| |exact Hin|cbn [in_ref]; lia].
  intros b1 b2 H1 H2. unfold blocks in *. eapply walk_ref_disjoint; eauto using sg_cases.
Qed.

(* ---- maps_inverse ---- *)
Theorem maps_inverse al p q : cigar_ok (a_cigar al) = true ->
  (chr_to_ref al p = Some q <-> ref_to_chr al q = Some p).
Proof.
  intros Hok. split; intros H.
  - unfold chr_to_ref in H. destruct (find (in_chr p) (blocks al)) as [[[c r] n]|] eqn:E; [|discriminate].
    injection H as <-. apply find_some in E as [Hin Hp]. cbn [in_chr] in Hp.
    rewrite (ref_to_chr_block al c r n) by (auto; destruct (sg_cases al) as [-> | ->]; lia).
    f_equal. destruct (sg_cases al) as [-> | ->]; lia.
  - unfold ref_to_chr in H. destruct (find (in_ref (sg al) q) (blocks al)) as [[[c r] n]|] eqn:E; [|discriminate].
    injection H as <-. apply find_some in E as [Hin Hq]. cbn [in_ref] in Hq.
    rewrite (chr_to_ref_block al c r n) by (auto; lia).
    f_equal. destruct (sg_cases al) as [-> | ->]; lia.
Qed.

Corollary ref_to_chr_injective al q1 q2 g : cigar_ok (a_cigar al) = true ->
  ref_to_chr al q1 = Some g -> ref_to_chr al q2 = Some g -> q1 = q2.
Proof. intros Hok H1 H2. apply maps_inverse in H1, H2; try assumption. congruence. Qed.
Corollary chr_to_ref_injective al p1 p2 q : cigar_ok (a_cigar al) = true ->
  chr_to_ref al p1 = Some q -> chr_to_ref al p2 = Some q -> p1 = p2.
Proof. intros Hok H1 H2. apply maps_inverse in H1, H2; try assumption. congruence. Qed.

(* ------------------------------------------------------------------ the lookup sequence on a window of one aligned block *)
Lemma nth_map_zseq {B} (f : Z -> B) p n i d : (i < n)%nat -> nth i (map f (zseq p n)) d = f (p + Z.of_nat i).
Proof.
  intros H. rewrite (nth_indep _ d (f 0)) by (rewrite map_length, zseq_length; exact H).
  rewrite map_nth. rewrite zseq_nth by exact H. reflexivity.
Qed.

Lemma window_block al a m : window_ok al a m = true ->
  exists c r n, In (c, r, n) (blocks al) /\ 0 < m /\ blk_lo (sg al) (c, r, n) <= a /\ a + m <= blk_lo (sg al) (c, r, n) + n.
Proof.
  unfold window_ok. intros H. apply existsb_exists in H as [[[c r] n] [Hin H]]. exists c, r, n.
  cbn [window_in_block] in H. split; [exact Hin|]. lia.
Qed.

Lemma align_ok_block al c r n : align_ok al = true -> In (c, r, n) (blocks al) ->
  cigar_ok (a_cigar al) = true /\ a_start al - 1 <= c /\ c + n <= a_end al - 1.
Proof.
  unfold align_ok. intros H Hin. apply andb_true_iff in H as [H1 H2]. split; [exact H1|].
  rewrite forallb_forall in H2. specialize (H2 _ Hin). cbn in H2. lia.
Qed.

(* genome-side window start and the pointwise content of the lookup *)
Lemma gwin_plus al a m c r n : a_plus al = true -> cigar_ok (a_cigar al) = true -> In (c, r, n) (blocks al) ->
  0 < m -> r <= a -> a + m <= r + n -> gwin al a m = Some (c + (a - r)).
Proof.
  intros Hp Hok Hin Hm H1 H2. unfold gwin. rewrite Hp.
  rewrite (ref_to_chr_block al c r n) by (auto; unfold sg; rewrite Hp; lia). unfold sg. rewrite Hp. f_equal. lia.
Qed.
Lemma gwin_minus al a m c r n : a_plus al = false -> cigar_ok (a_cigar al) = true -> In (c, r, n) (blocks al) ->
  0 < m -> r - n + 1 <= a -> a + m <= r + 1 -> gwin al a m = Some (c + (r - (a + m - 1))).
Proof.
  intros Hp Hok Hin Hm H1 H2. unfold gwin. rewrite Hp.
  rewrite (ref_to_chr_block al c r n) by (auto; unfold sg; rewrite Hp; lia). unfold sg. rewrite Hp. f_equal. lia.
Qed.

Lemma lookup_window t al seq a m : tab_wf t = true -> align_ok al = true -> window_ok al a m = true ->
  exists c, gwin al a m = Some c /\
            lookup_slice t al seq c (c + m) = orient t (a_plus al) (slice seq a (a + m)) /\
            (forall q, a <= q < a + m -> ref_to_chr al q = Some (if a_plus al then c + (q - a) else c + (a + m - 1 - q))).
Proof.
  intros Hw Hal Hwin. destruct (window_block al a m Hwin) as (c & r & n & Hin & Hm & Hlo & Hhi).
  destruct (align_ok_block al c r n Hal Hin) as (Hok & Hs & He).
  destruct (a_plus al) eqn:Hp.
  - (* forward *)
    assert (Hsg : sg al = 1) by (unfold sg; rewrite Hp; reflexivity). rewrite Hsg in *. cbn [blk_lo] in Hlo, Hhi.
    replace (0 <? 1) with true in * by reflexivity.
    exists (c + (a - r)). split; [eapply gwin_plus; eauto|]. split.
    + unfold lookup_slice, slice, orient.
      replace (c + (a - r) + m - (c + (a - r))) with m by lia. replace (a + m - a) with m by lia.
      apply nth_ext with (d := 0) (d' := 0); [rewrite !map_length, !zseq_length; reflexivity|].
      intros i Hi. rewrite map_length, zseq_length in Hi.
      rewrite !nth_map_zseq by exact Hi. unfold lookup_at.
      replace ((a_start al - 1 <=? c + (a - r) + Z.of_nat i) && (c + (a - r) + Z.of_nat i <? a_end al - 1)) with true by lia.
      rewrite (chr_to_ref_block al c r n) by (auto; lia). rewrite Hp, Hsg. f_equal. lia.
    + intros q Hq. rewrite (ref_to_chr_block al c r n) by (auto; lia). rewrite Hsg. f_equal. lia.
  - (* reverse *)
    assert (Hsg : sg al = -1) by (unfold sg; rewrite Hp; reflexivity). rewrite Hsg in *. cbn [blk_lo] in Hlo, Hhi.
    replace (0 <? -1) with false in * by reflexivity.
    exists (c + (r - (a + m - 1))). split; [eapply gwin_minus; eauto; lia|]. split.
    + unfold lookup_slice, slice, orient, rev_comp.
      replace (c + (r - (a + m - 1)) + m - (c + (r - (a + m - 1)))) with m by lia. replace (a + m - a) with m by lia.
      apply nth_ext with (d := 0) (d' := comp t 0); [rewrite !map_length, rev_length, map_length, !zseq_length; reflexivity|].
      intros i Hi. rewrite map_length, zseq_length in Hi.
      rewrite nth_map_zseq by exact Hi. rewrite map_nth.
      rewrite rev_nth by (rewrite map_length, zseq_length; exact Hi). rewrite map_length, zseq_length.
      rewrite nth_map_zseq by lia. unfold lookup_at.
      replace ((a_start al - 1 <=? c + (r - (a + m - 1)) + Z.of_nat i) && (c + (r - (a + m - 1)) + Z.of_nat i <? a_end al - 1)) with true by lia.
      rewrite (chr_to_ref_block al c r n) by (auto; lia). rewrite Hp, Hsg. f_equal. f_equal. lia.
    + intros q Hq. rewrite (ref_to_chr_block al c r n) by (auto; lia). rewrite Hsg. f_equal. lia.
Qed.

(* ------------------------------------------------------------------ variant equivalence *)
Lemma anchor_span plus p v : shape_ok v = true ->
  anchor plus p v = (if plus then fst (span p v) else snd (span p v)) /\ fst (span p v) <= snd (span p v).
Proof.
  destruct v; cbn [shape_ok anchor anchor_shift span fst snd]; intros H; try discriminate;
    try (apply andb_true_iff in H as [H _]); unfold anchor; cbn [anchor_shift]; destruct plus; lia.
Qed.

(* per kind, forward strand: same local index on both sides *)
Lemma apply_shift v i j off1 off2 d : i - off1 = j - off2 -> apply_at v i (off1, d) = apply_at v j (off2, d).
Proof.
  intros H. destruct v; cbn [apply_at fst snd]; try reflexivity.
  - replace (i - off1) with (j - off2) by lia. reflexivity.
  - replace (i + 1 - off1) with (j + 1 - off2) by lia. reflexivity.
  - replace (i - off1) with (j - off2) by lia. reflexivity.
  - replace (i - off1) with (j - off2) by lia. reflexivity.
Qed.

(* per kind, reverse strand *)
Section RevKinds.
  Variable t : ctab.
  Hypothesis Hw : tab_wf t = true.
  Variables (Rd : str) (a c m : Z).
  Hypothesis HL : length Rd = Z.to_nat m.
  Hypothesis Hm : 0 < m.
  (* genome coordinate of RefSeq index q inside the window *)
  Let gc (q : Z) := c + (a + m - 1 - q).

  Lemma equiv_sub_rev p l r : 0 < zlen l -> length l = length r -> a <= p - 1 -> p - 1 + zlen l - 1 < a + m ->
    rev_comp t (apply_genome (gc (p - 1 + zlen l - 1)) (Sub (rev_comp t l) (rev_comp t r)) (c, rev_comp t Rd))
    = apply_refseq p (Sub l r) (a, Rd).
  Proof.
    intros Hl Hlr H1 H2. unfold apply_genome, apply_refseq, gc, zlen in *. cbn [apply_at fst snd].
    rewrite (rc_length t l).
    set (il := Z.to_nat (p - 1 - a)). set (k := length l).
    replace (Z.to_nat (c + (a + m - 1 - (p - 1 + Z.of_nat k - 1)) - c)) with (length Rd - il - k)%nat by lia.
    assert (Hik : (il + k <= length Rd)%nat) by lia.
    rewrite (seg_rc t) by first [exact Hw | exact Hik].
    rewrite (merge_rc t Hw) by (unfold seg; rewrite firstn_length, skipn_length; lia).
    apply (splice_rc t Hw). exact Hik.
  Qed.

  Lemma equiv_del_rev p d : 0 < zlen d -> a <= p - 1 -> p - 1 + zlen d - 1 < a + m ->
    rev_comp t (apply_genome (gc (p - 1 + zlen d - 1)) (Del (rev_comp t d)) (c, rev_comp t Rd))
    = apply_refseq p (Del d) (a, Rd).
  Proof.
    intros Hl H1 H2. unfold apply_genome, apply_refseq, gc, zlen in *. cbn [apply_at fst snd].
    rewrite (rc_length t d).
    set (il := Z.to_nat (p - 1 - a)). set (k := length d).
    replace (Z.to_nat (c + (a + m - 1 - (p - 1 + Z.of_nat k - 1)) - c)) with (length Rd - il - k)%nat by lia.
    change (@nil Z) with (rev_comp t []) at 1.
    apply (splice_rc t Hw). lia.
  Qed.

  Lemma equiv_delins_rev p d x : 0 < zlen d -> a <= p - 1 -> p - 1 + zlen d - 1 < a + m ->
    rev_comp t (apply_genome (gc (p - 1 + zlen d - 1)) (DelIns (rev_comp t d) (rev_comp t x)) (c, rev_comp t Rd))
    = apply_refseq p (DelIns d x) (a, Rd).
  Proof.
    intros Hl H1 H2. unfold apply_genome, apply_refseq, gc, zlen in *. cbn [apply_at fst snd].
    rewrite (rc_length t d).
    set (il := Z.to_nat (p - 1 - a)). set (k := length d).
    replace (Z.to_nat (c + (a + m - 1 - (p - 1 + Z.of_nat k - 1)) - c)) with (length Rd - il - k)%nat by lia.
    apply (splice_rc t Hw). lia.
  Qed.

  (* insertion after written base p: its two flanks p-1, p (0-based) lie in the window *)
  Lemma equiv_ins_rev p x : a <= p - 1 -> p < a + m ->
    rev_comp t (apply_genome (gc p) (Ins (rev_comp t x)) (c, rev_comp t Rd))
    = apply_refseq p (Ins x) (a, Rd).
  Proof.
    intros H1 H2. unfold apply_genome, apply_refseq, gc in *. cbn [apply_at fst snd].
    set (il := Z.to_nat (p - 1 + 1 - a)).
    replace (Z.to_nat (c + (a + m - 1 - p) + 1 - c)) with (length Rd - il - 0)%nat by lia.
    apply (splice_rc t Hw). lia.
  Qed.
End RevKinds.

Theorem variant_equiv t al seq p v a m : tab_wf t = true -> align_ok al = true -> variant_ok al seq p v a m = true ->
  hap_genome t al seq p v a m = Some (hap_refseq seq p v a m).
Proof.
  intros Hw Hal Hv. unfold variant_ok in Hv.
  repeat (apply andb_true_iff in Hv as [Hv ?]).
  rename Hv into Hshape.
  destruct (lookup_window t al seq a m Hw Hal) as (c & Hg & Hlk & Hr2c); [assumption|].
  destruct (anchor_span (a_plus al) p v Hshape) as [Han Hsp].
  assert (Hm : 0 < m). { destruct (window_block al a m) as (? & ? & ? & ? & ? & ?); auto. }
  unfold hap_genome, hap_refseq, convert_v. rewrite Hg, Han.
  set (Rd := slice seq a (a + m)) in *.
  assert (HL : length Rd = Z.to_nat m). { unfold Rd. rewrite slice_length. f_equal. lia. }
  clearbody Rd.
  destruct (a_plus al) eqn:Hp.
  - (* forward strand *)
    rewrite Hr2c by lia. f_equal. rewrite Hlk. cbn [orient]. unfold apply_genome, apply_refseq.
    apply apply_shift. destruct v; cbn [span fst] in *; lia.
  - (* reverse strand *)
    rewrite Hr2c by lia. f_equal. rewrite Hlk. cbn [orient].
    destruct v; cbn [shape_ok span fst snd rc_op] in *; try discriminate.
    + apply andb_true_iff in Hshape as [Hl Hd]. unfold same_dots in Hd. apply andb_true_iff in Hd as [Hd _].
      apply Nat.eqb_eq in Hd. apply (equiv_sub_rev t Hw Rd a c m HL Hm); lia.
    + apply (equiv_ins_rev t Hw Rd a c m HL Hm); lia.
    + apply (equiv_del_rev t Hw Rd a c m HL Hm); lia.
    + apply (equiv_delins_rev t Hw Rd a c m HL Hm); lia.
Qed.

(* ------------------------------------------------------------------ conversion is injective *)
Lemma rc_op_inv t v : tab_wf t = true -> rc_op t (rc_op t v) = v.
Proof. intros Hw. destruct v; cbn [rc_op]; rewrite ?(rc_inv t Hw); reflexivity. Qed.
Lemma rc_op_inj t v1 v2 : tab_wf t = true -> rc_op t v1 = rc_op t v2 -> v1 = v2.
Proof. intros Hw H. rewrite <- (rc_op_inv t v1 Hw), <- (rc_op_inv t v2 Hw), H. reflexivity. Qed.

Theorem convert_v_injective t al p1 v1 p2 v2 g w : tab_wf t = true -> cigar_ok (a_cigar al) = true ->
  convert_v t al p1 v1 = Some (g, w) -> convert_v t al p2 v2 = Some (g, w) -> p1 = p2 /\ v1 = v2.
Proof.
  intros Hw Hok H1 H2. unfold convert_v in *.
  destruct (ref_to_chr al (anchor (a_plus al) p1 v1)) eqn:E1; [|discriminate].
  destruct (ref_to_chr al (anchor (a_plus al) p2 v2)) eqn:E2; [|discriminate].
  injection H1 as -> Hv1. injection H2 as -> Hv2.
  pose proof (ref_to_chr_injective al _ _ _ Hok E1 E2) as Ha.
  destruct (a_plus al).
  - subst. split; [|reflexivity]. unfold anchor in Ha. lia.
  - assert (v1 = v2) by (apply (rc_op_inj t); congruence). subst v2. split; [|reflexivity]. unfold anchor in Ha. lia.
Qed.

(* ---- strings: parse / print ---- *)
Lemma is_prefix_spec p : forall x, is_prefix p x = true -> x = p ++ skipn (length p) x.
Proof.
  induction p as [|a p IH]; intros x H; [reflexivity|]. destruct x as [|b x]; cbn [is_prefix] in H; [discriminate|].
  apply andb_true_iff in H as [H1 H2]. apply Z.eqb_eq in H1. subst b. cbn [length skipn app]. f_equal. apply IH, H2.
Qed.
Lemma find_sub_spec pat : forall x a b, find_sub pat x = Some (a, b) -> x = a ++ pat ++ b.
Proof.
  induction x as [|c x IH]; intros a b H.
  - cbn [find_sub] in H. destruct (is_prefix pat []) eqn:E; [|discriminate]. injection H as <- <-.
    cbn [app]. apply is_prefix_spec, E.
  - cbn [find_sub] in H. destruct (is_prefix pat (c :: x)) eqn:E.
    + injection H as <- <-. cbn [app]. apply is_prefix_spec, E.
    + destruct (find_sub pat x) as [[a' b']|] eqn:E2; [|discriminate]. injection H as <- <-.
      cbn [app]. f_equal. apply IH. reflexivity.
Qed.
Lemma split2_spec pat x a b : split2 pat x = Some (a, b) -> x = a ++ pat ++ b.
Proof.
  unfold split2. destruct (find_sub pat x) as [[a' b']|] eqn:E; [|discriminate].
  destruct (contains pat b'); [discriminate|]. intros H. injection H as <- <-. apply find_sub_spec, E.
Qed.

Theorem print_parse op v : parse_op op = Some v -> print_op v = op.
Proof.
  unfold parse_op. destruct (contains GT op).
  - destruct (split2 GT op) as [[l r]|] eqn:E; [|discriminate]. intros H. injection H as <-.
    cbn [print_op]. symmetry. apply split2_spec, E.
  - destruct (is_prefix INS op) eqn:E1.
    + intros H. injection H as <-. cbn [print_op]. symmetry. apply (is_prefix_spec INS), E1.
    + destruct (is_prefix DEL op) eqn:E2.
      * destruct (contains INS (skipn 3 op)).
        -- destruct (split2 INS (skipn 3 op)) as [[d i]|] eqn:E; [|discriminate]. intros H. injection H as <-.
           cbn [print_op]. rewrite <- (split2_spec _ _ _ _ E). symmetry. apply (is_prefix_spec DEL), E2.
        -- intros H. injection H as <-. cbn [print_op]. symmetry. apply (is_prefix_spec DEL), E2.
      * intros H. injection H as <-. reflexivity.
Qed.

Lemma nt_codes c : is_nt c = true -> c <> 62 /\ c <> 105 /\ c <> 100.
Proof. unfold is_nt, is_upper. lia. Qed.
Lemma forallb_nt_notin x c : forallb is_nt x = true -> (c = 62 \/ c = 105 \/ c = 100) -> ~ In c x.
Proof.
  intros H Hc Hin. rewrite forallb_forall in H. apply H in Hin. apply nt_codes in Hin. lia.
Qed.
Lemma app_split_unique (c : Z) : forall a1 a2 b1 b2, ~ In c a1 -> ~ In c a2 ->
  a1 ++ c :: b1 = a2 ++ c :: b2 -> a1 = a2 /\ b1 = b2.
Proof.
  induction a1 as [|x a1 IH]; intros [|y a2] b1 b2 N1 N2 H; cbn [app] in H.
  - injection H as ->. auto.
  - injection H as -> _. exfalso. apply N2. left. reflexivity.
  - injection H as -> _. exfalso. apply N1. left. reflexivity.
  - injection H as -> H. destruct (IH a2 b1 b2) as [-> ->]; auto.
    + intros Hin. apply N1. right. exact Hin.
    + intros Hin. apply N2. right. exact Hin.
Qed.

Lemma sub_head_nt l r c rest : l ++ 62 :: r = c :: rest -> forallb is_nt l = true -> (c = 105 \/ c = 100) -> False.
Proof.
  intros H Hl Hc. destruct l as [|x l]; cbn [app] in H; injection H as Hx _; [lia|].
  cbn [forallb] in Hl. apply andb_true_iff in Hl as [Hn _]. apply nt_codes in Hn. lia.
Qed.
Lemma del_ins_nt d d' i : d = d' ++ 105 :: i -> forallb is_nt d = true -> False.
Proof.
  intros H Hd. apply (forallb_nt_notin d 105 Hd); [auto|]. rewrite H. apply in_or_app. right. left. reflexivity.
Qed.

Lemma print_inj v1 v2 : vop_ok v1 = true -> vop_ok v2 = true -> print_op v1 = print_op v2 -> v1 = v2.
Proof.
  intros O1 O2 H.
  destruct v1 as [l1 r1|x1|d1|d1 i1|u1], v2 as [l2 r2|x2|d2|d2 i2|u2]; cbn [vop_ok] in O1, O2; try discriminate;
    repeat match goal with Hx : _ && _ = true |- _ => apply andb_true_iff in Hx as [? ?] end;
    cbn [print_op GT INS DEL app] in H;
    try (exfalso; eapply sub_head_nt in H; [exact H|eassumption|auto]; fail);
    try (exfalso; symmetry in H; eapply sub_head_nt in H; [exact H|eassumption|auto]; fail);
    try discriminate.
  - (* Sub / Sub *)
    destruct (app_split_unique 62 l1 l2 r1 r2) as [-> ->]; auto using forallb_nt_notin.
  - injection H as ->. reflexivity.
  - injection H as ->. reflexivity.
  - (* Del / DelIns *)
    exfalso. injection H as H. eapply del_ins_nt in H; eassumption.
  - exfalso. injection H as H. symmetry in H. eapply del_ins_nt in H; eassumption.
  - injection H as H.
    destruct (app_split_unique 105 d1 d2 (110 :: 115 :: i1) (110 :: 115 :: i2)) as [-> Hi]; auto using forallb_nt_notin.
    injection Hi as ->. reflexivity.
Qed.

Lemma forallb_rev {A} (f : A -> bool) x : forallb f (rev x) = forallb f x.
Proof.
  induction x as [|a x IH]; [reflexivity|]. cbn [rev forallb]. rewrite forallb_app. cbn [forallb]. rewrite IH.
  rewrite andb_true_r. apply andb_comm.
Qed.
Lemma forallb_map_nt t x : tab_wf t = true -> forallb is_nt (rev_comp t x) = forallb is_nt x.
Proof.
  intros Hw. unfold rev_comp. rewrite <- (forallb_rev is_nt x).
  induction (rev x) as [|a y IH]; [reflexivity|]. cbn [map forallb]. rewrite comp_is_nt by exact Hw. rewrite IH. reflexivity.
Qed.
Lemma vop_ok_rc t v : tab_wf t = true -> vop_ok (rc_op t v) = vop_ok v.
Proof. intros Hw. destruct v; cbn [rc_op vop_ok]; rewrite ?forallb_map_nt by exact Hw; reflexivity. Qed.

Theorem convert_injective t al p1 o1 p2 o2 g o : tab_wf t = true -> cigar_ok (a_cigar al) = true ->
  (a_plus al = false -> op_ok o1 = true /\ op_ok o2 = true) ->
  convert t al p1 o1 = CLoaded g o -> convert t al p2 o2 = CLoaded g o -> p1 = p2 /\ o1 = o2.
Proof.
  intros Hw Hok Hops H1 H2. unfold convert in *. destruct (a_plus al) eqn:Hp.
  - destruct (ref_to_chr al (p1 - 1)) eqn:E1; [|discriminate]. destruct (ref_to_chr al (p2 - 1)) eqn:E2; [|discriminate].
    injection H1 as -> ->. injection H2 as -> ->. pose proof (ref_to_chr_injective al _ _ _ Hok E1 E2). split; [lia|reflexivity].
  - destruct (Hops eq_refl) as [K1 K2]. unfold op_ok in K1, K2.
    destruct (parse_op o1) as [v1|] eqn:P1; [|discriminate]. destruct (parse_op o2) as [v2|] eqn:P2; [|discriminate].
    destruct (convert_v t al p1 v1) as [[g1 w1]|] eqn:C1; [|discriminate].
    destruct (convert_v t al p2 v2) as [[g2 w2]|] eqn:C2; [|discriminate].
    injection H1 as -> Hs1. injection H2 as -> Hs2.
    assert (Hw12 : w1 = w2).
    { apply print_inj; [| |congruence].
      - unfold convert_v in C1. destruct (ref_to_chr al _); [|discriminate]. injection C1 as _ <-. rewrite Hp, vop_ok_rc; assumption.
      - unfold convert_v in C2. destruct (ref_to_chr al _); [|discriminate]. injection C2 as _ <-. rewrite Hp, vop_ok_rc; assumption. }
    subst w2. destruct (convert_v_injective t al p1 v1 p2 v2 g w1 Hw Hok C1 C2) as [-> ->].
    split; [reflexivity|]. rewrite <- (print_parse _ _ P1), <- (print_parse _ _ P2). reflexivity.
Qed.

(* ------------------------------------------------------------------ notation round trip: get_refseq returns the notation written *)
Lemma str_eqb_eq' a : forall b, str_eqb a b = true <-> a = b.
Proof.
  induction a as [|x a IH]; intros [|y b]; cbn [str_eqb]; split; intros H; try reflexivity; try discriminate.
  - apply andb_true_iff in H as [H1 H2]. apply Z.eqb_eq in H1. apply IH in H2. subst. reflexivity.
  - injection H as -> ->. rewrite Z.eqb_refl. cbn. apply IH. reflexivity.
Qed.
Lemma mkey_eqb_eq a b : mkey_eqb a b = true <-> a = b.
Proof.
  destruct a as [g1 o1], b as [g2 o2]. unfold mkey_eqb. cbn [fst snd]. split; intros H.
  - apply andb_true_iff in H as [H1 H2]. apply Z.eqb_eq in H1. apply str_eqb_eq' in H2. subst. reflexivity.
  - injection H as -> ->. rewrite Z.eqb_refl. cbn. apply str_eqb_eq'. reflexivity.
Qed.
Lemma alookup_snoc (k k' : mkey) (v : minfo) m :
  alookup mkey_eqb k (m ++ [(k', v)]) =
  match alookup mkey_eqb k m with Some i => Some i | None => if mkey_eqb k k' then Some v else None end.
Proof.
  induction m as [|[k0 v0] m IH]; cbn [app alookup]; [reflexivity|]. destruct (mkey_eqb k k0); [reflexivity|exact IH].
Qed.

Definition minfo_of (al : align) (w : Z * str) : minfo :=
  (anchor (a_plus al) (fst w) (match parse_op (snd w) with Some v => v | None => Other [] end), fst w - 1, snd w).
Definition load_step (t : ctab) (al : align) (m : list (mkey * minfo)) (w : Z * str) :=
  match convert t al (fst w) (snd w) with
  | CLoaded g op => setdefault (g, op) (minfo_of al w) m
  | _ => m
  end.
Definition loads_as (t : ctab) (al : align) (k : mkey) (w : Z * str) : bool :=
  match convert t al (fst w) (snd w) with CLoaded g op => mkey_eqb k (g, op) | _ => false end.

Lemma load_muts_fold t al ws : load_muts t al ws = fold_left (load_step t al) ws [].
Proof. reflexivity. Qed.

Lemma fold_lookup t al k : forall ws m,
  alookup mkey_eqb k (fold_left (load_step t al) ws m) =
  match alookup mkey_eqb k m with
  | Some i => Some i
  | None => match find (loads_as t al k) ws with Some w => Some (minfo_of al w) | None => None end
  end.
Proof.
  induction ws as [|w ws IH]; intros m; cbn [fold_left find].
  - destruct (alookup mkey_eqb k m); reflexivity.
  - rewrite IH.
    assert (Hs : load_step t al m w = match convert t al (fst w) (snd w) with
                                      | CLoaded g op => setdefault (g, op) (minfo_of al w) m | _ => m end) by reflexivity.
    assert (Hl : loads_as t al k w = match convert t al (fst w) (snd w) with
                                     | CLoaded g op => mkey_eqb k (g, op) | _ => false end) by reflexivity.
    rewrite Hs, Hl. clear Hs Hl.
    destruct (convert t al (fst w) (snd w)) as [g op| |]; try reflexivity.
    unfold setdefault, amem.
    destruct (alookup mkey_eqb k m) eqn:Ek.
    + destruct (alookup mkey_eqb (g, op) m); [rewrite Ek; reflexivity|]. rewrite alookup_snoc, Ek. reflexivity.
    + destruct (mkey_eqb k (g, op)) eqn:Eq.
      * apply mkey_eqb_eq in Eq. subst k. rewrite Ek. rewrite alookup_snoc, Ek.
        replace (mkey_eqb (g, op) (g, op)) with true by (symmetry; apply mkey_eqb_eq; reflexivity). reflexivity.
      * destruct (alookup mkey_eqb (g, op) m); [rewrite Ek; reflexivity|]. rewrite alookup_snoc, Ek, Eq. reflexivity.
Qed.

Theorem notation_roundtrip t al ws w g o : tab_wf t = true -> cigar_ok (a_cigar al) = true ->
  (a_plus al = false -> forall w', In w' ws -> op_ok (snd w') = true) ->
  In w ws -> convert t al (fst w) (snd w) = CLoaded g o ->
  get_refseq (load_muts t al ws) (g, o) = Some (fst w, snd w).
Proof.
  intros Hw Hok Hops Hin Hc. unfold get_refseq. rewrite load_muts_fold, fold_lookup. cbn [alookup].
  destruct (find (loads_as t al (g, o)) ws) as [w'|] eqn:E.
  - apply find_some in E as [Hin' Hl]. unfold loads_as in Hl.
    destruct (convert t al (fst w') (snd w')) as [g' o'| |] eqn:Hc'; try discriminate.
    apply mkey_eqb_eq in Hl. injection Hl as <- <-.
    destruct (convert_injective t al (fst w) (snd w) (fst w') (snd w') g o Hw Hok) as [E1 E2]; auto.
    unfold minfo_of. rewrite <- E1, <- E2. f_equal. f_equal. lia.
  - exfalso. pose proof (find_none _ _ E _ Hin) as Hn. unfold loads_as in Hn. rewrite Hc in Hn.
    replace (mkey_eqb (g, o) (g, o)) with true in Hn by (symmetry; apply mkey_eqb_eq; reflexivity). discriminate.
Qed.

(* _reverse_op undoes the strand conversion of the operation (structured level) *)
Theorem reverse_op_roundtrip t al p v g v' : tab_wf t = true -> a_plus al = false ->
  convert_v t al p v = Some (g, v') -> rc_op t v' = v.
Proof.
  intros Hw Hp H. unfold convert_v in H. destruct (ref_to_chr al _); [|discriminate]. injection H as _ <-.
  rewrite Hp. apply rc_op_inv, Hw.
Qed.

(* ------------------------------------------------------------------ an insertion sits in the same gap for every consumer *)
Lemma firstn_S_nth (d : str) j : (j < length d)%nat -> firstn (S j) d = firstn j d ++ [nth j d 0].
Proof.
  revert j. induction d as [|x d IH]; intros j H; cbn [length] in H; [lia|]. destruct j; [reflexivity|].
  cbn [firstn nth app]. f_equal. apply IH. lia.
Qed.

Theorem insertion_same_gap_genome lk g x w : x <> [] -> fst w <= g < fst w + zlen (snd w) -> lk g = sget w g ->
  let rv := (g + 1, [lk g], lk g :: x) in
  realign_variant lk g (Ins x) = Some rv /\
  apply_vcf rv w = apply_genome g (Ins x) w /\                       (* the Variant handed to realignment *)
  eq_key rv = Some (cigar_ins_key (g + 1) x) /\                       (* the key expected from a CIGAR insertion *)
  apply_cigar_ins (g + 1) x w = apply_genome g (Ins x) w /\           (* what that CIGAR insertion denotes *)
  gap_vcf rv = gap_db g /\ gap_cigar (g + 1) = gap_db g.
Proof.
  intros Hx Hg Hlk rv. unfold rv. split; [reflexivity|]. split; [|split; [|split; [reflexivity|split]]].
  - unfold apply_vcf, apply_genome. cbn [apply_at]. unfold splice, zlen, sget in *. destruct w as [off d]. cbn [fst snd] in *.
    replace (off <=? g) with true in Hlk by lia.
    replace (Z.to_nat (g + 1 - 1 - off)) with (Z.to_nat (g - off)) by lia.
    replace (Z.to_nat (g + 1 - off)) with (S (Z.to_nat (g - off))) by lia.
    rewrite firstn_S_nth by lia. rewrite Hlk. cbn [length]. rewrite <- app_assoc. cbn [app].
    replace (Z.to_nat (g - off) + 1)%nat with (S (Z.to_nat (g - off)) + 0)%nat by lia. reflexivity.
  - unfold eq_key, cigar_ins_key, zlen. cbn [length is_prefix skipn]. rewrite Z.eqb_refl.
    destruct x as [|y x]; [contradiction|]. cbn [length]. cbn [Nat.ltb Nat.leb andb]. f_equal. f_equal. lia.
  - unfold gap_vcf, gap_db, zlen. cbn [length]. f_equal; lia.
  - unfold gap_cigar, gap_db. f_equal. lia.
Qed.

(* in RefSeq terms: the genome gap (g, g+1) of a loaded insertion is exactly the pair of RefSeq bases p-1, p (0-based)
   flanking the insertion as written, on either strand *)
Theorem insertion_same_gap t al seq p x a m g v' : tab_wf t = true -> align_ok al = true ->
  variant_ok al seq p (Ins x) a m = true -> convert_v t al p (Ins x) = Some (g, v') ->
  v' = Ins (if a_plus al then x else rev_comp t x) /\
  chr_to_ref al (fst (gap_db g)) = Some (if a_plus al then p - 1 else p) /\
  chr_to_ref al (snd (gap_db g)) = Some (if a_plus al then p else p - 1).
Proof.
  intros Hw Hal Hv Hc. unfold variant_ok in Hv. repeat (apply andb_true_iff in Hv as [Hv ?]).
  destruct (lookup_window t al seq a m Hw Hal) as (c & Hg & _ & Hr2c); [assumption|].
  assert (Hok : cigar_ok (a_cigar al) = true).
  { destruct (window_block al a m) as (c0 & r0 & n0 & Hin & _); [assumption|]. apply (align_ok_block al c0 r0 n0 Hal Hin). }
  cbn [span fst snd] in *. unfold convert_v in Hc. cbn [anchor anchor_shift] in Hc. unfold anchor in Hc. cbn [anchor_shift] in Hc.
  unfold gap_db. cbn [fst snd].
  destruct (a_plus al) eqn:Hp.
  - rewrite Hr2c in Hc by lia. injection Hc as <- <-. split; [reflexivity|].
    split; apply maps_inverse; try assumption; rewrite Hr2c by lia; f_equal; lia.
  - rewrite Hr2c in Hc by lia. injection Hc as <- <-. split; [reflexivity|].
    split; apply maps_inverse; try assumption; rewrite Hr2c by lia; f_equal; lia.
Qed.

(* the same for a deletion: Variant(anchor base + deleted, anchor base) and the CIGAR deletion key *)
Theorem deletion_same_anchor lk g d w : d <> [] -> fst w < g -> g + zlen d <= fst w + zlen (snd w) -> lk (g - 1) = sget w (g - 1) ->
  let rv := (g - 1 + 1, lk (g - 1) :: d, [lk (g - 1)]) in
  realign_variant lk g (Del d) = Some rv /\
  apply_vcf rv w = apply_genome g (Del d) w /\
  eq_key rv = Some (g, Del d) /\
  apply_cigar_del g (length d) w = apply_genome g (Del d) w.
Proof.
  intros Hd Hg1 Hg2 Hlk rv. unfold rv. split; [reflexivity|]. split; [|split; [|reflexivity]].
  - unfold apply_vcf, apply_genome. cbn [apply_at]. unfold splice, zlen, sget in *. destruct w as [off dd]. cbn [fst snd] in *.
    replace (off <=? g - 1) with true in Hlk by lia.
    replace (Z.to_nat (g - 1 + 1 - 1 - off)) with (Z.to_nat (g - 1 - off)) by lia.
    replace (Z.to_nat (g - off)) with (S (Z.to_nat (g - 1 - off))) by lia.
    rewrite firstn_S_nth by lia. rewrite Hlk. cbn [length app]. rewrite <- app_assoc. cbn [app].
    replace (Z.to_nat (g - 1 - off) + S (length d))%nat with (S (Z.to_nat (g - 1 - off)) + length d)%nat by lia. reflexivity.
  - unfold eq_key, zlen. cbn [length is_prefix skipn]. rewrite Z.eqb_refl. destruct d as [|y d]; [contradiction|]. cbn [length].
    replace (S (S (length d)) <? 1)%nat with false by (symmetry; apply Nat.ltb_ge; lia).
    replace (1 <? S (S (length d)))%nat with true by (symmetry; apply Nat.ltb_lt; lia).
    cbn [andb]. f_equal. f_equal. lia.
Qed.
