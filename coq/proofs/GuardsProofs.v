(* GuardsProofs.v — theorems about the guard model (C19). *)
From Coq Require Import Lqa.
From Aldy Require Import Base Consts Guards Consts_here.
Open Scope Z_scope.

(* ---------- booleans over Q ---------- *)
Lemma Qltb_lt a b : Qltb a b = true <-> (a < b)%Q.
Proof.
  unfold Qltb. rewrite negb_true_iff. split; intros H.
  - apply Qnot_le_lt. intros L. apply Qle_bool_iff in L. congruence.
  - destruct (Qle_bool b a) eqn:E; [|reflexivity]. apply Qle_bool_iff in E. exfalso. apply (Qlt_not_le _ _ H E).
Qed.
Lemma Qltb_ge a b : Qltb a b = false <-> (b <= a)%Q.
Proof.
  unfold Qltb. rewrite negb_false_iff. apply Qle_bool_iff.
Qed.

Lemma wf_eps c : consts_wf c = true -> (0 < c_avg_cov_eps c)%Q.
Proof.
  unfold consts_wf. intros H. repeat (apply andb_true_iff in H; destruct H as [H ?]).
  apply Qltb_lt. assumption.
Qed.

(* ---------- the average depth ---------- *)
Lemma len_nonneg (l : list Z) : (0 <= inZ (Z.of_nat (length l)))%Q.
Proof. unfold inZ. rewrite <- (Zle_Qle 0). lia. Qed.

Lemma den_pos c (l : list Z) : consts_wf c = true -> (0 < inZ (Z.of_nat (length l)) + c_avg_cov_eps c)%Q.
Proof. intros W. pose proof (wf_eps c W). pose proof (len_nonneg l). lra. Qed.

(* the comparison the code makes is the cross-multiplied one *)
Lemma avg_lt_iff c l m : consts_wf c = true ->
  ((avg_cov c l < m)%Q <-> (inZ (zsum l) < m * (inZ (Z.of_nat (length l)) + c_avg_cov_eps c))%Q).
Proof.
  intros W. pose proof (den_pos c l W) as D. unfold avg_cov. split; intros H.
  - apply Qlt_shift_div_r in H; [exact H|exact D] || idtac.
    all: try (apply (Qmult_lt_r _ _ _ D) in H; unfold Qdiv in H;
              rewrite <- Qmult_assoc, (Qmult_comm (/ _)), Qmult_inv_r, Qmult_1_r in H; [exact H|lra]).
  - apply Qlt_shift_div_r; assumption.
Qed.

Lemma zsum_bound d (l : list Z) : (forall x, In x l -> x <= d) -> zsum l <= Z.of_nat (length l) * d.
Proof.
  induction l as [|x l IH]; intros H; cbn [zsum fold_right length].
  - lia.
  - assert (x <= d) by (apply H; left; reflexivity).
    assert (zsum l <= Z.of_nat (length l) * d) by (apply IH; intros y Hy; apply H; right; exact Hy).
    unfold zsum in *. lia.
Qed.

(* no reads: the table is empty or every total is zero -> average 0 *)
Lemma avg_zero c l : zsum l = 0 -> (avg_cov c l == 0)%Q.
Proof. intros H. unfold avg_cov. rewrite H. unfold inZ, Qdiv. apply Qmult_0_l. Qed.

Lemma avg_zero_lt c l m : consts_wf c = true -> zsum l = 0 -> (0 < m)%Q -> (avg_cov c l < m)%Q.
Proof. intros W H M. rewrite (avg_zero c l H). exact M. Qed.

(* depth at most d everywhere with d <= the minimum: rejected, also at equality (that is what the +eps does) *)
Lemma avg_uniform_low c l d m : consts_wf c = true ->
  (forall x, In x l -> x <= d) -> (inZ d <= m)%Q -> (0 < m)%Q -> (avg_cov c l < m)%Q.
Proof.
  intros W B D M. apply (avg_lt_iff c l m W).
  pose proof (zsum_bound d l B) as S. pose proof (wf_eps c W) as E. pose proof (len_nonneg l) as N.
  assert (inZ (zsum l) <= inZ (Z.of_nat (length l)) * inZ d)%Q as S'.
  { unfold inZ. rewrite <- inject_Z_mult, <- Zle_Qle. exact S. }
  set (n := inZ (Z.of_nat (length l))) in *. set (sm := inZ (zsum l)) in *. set (dd := inZ d) in *.
  set (e := c_avg_cov_eps c) in *. clearbody n sm dd e.
  assert (n * dd <= n * m)%Q by (apply Qmult_le_l' || nra).
  nra.
Qed.

(* ---------- the guards ---------- *)
Definition expected_line (simple : bool) : sline := if simple then EmptyLine else NotSimple.

Lemma line_printed simple : line_of simple true true = expected_line simple.
Proof. destruct simple; reflexivity. Qed.

(* a variant that has the three repairs *)
Definition repaired (v : gvariant) : Prop := needs_neutral v = false /\ late_header v = false /\ cn_unterminated v = false.
Lemma fixed_repaired : repaired g_fixed. Proof. repeat split. Qed.

Lemma sample_guard_line c v ev o : late_header v = false -> sample_guard c v ev = Some o ->
  exists e, o = Error e (expected_line (ev_simple ev)).
Proof.
  intros L. unfold sample_guard. destruct (ev_neutral ev) as [n|]; [|discriminate]. rewrite L. cbn [negb].
  rewrite line_printed.
  destruct (n_in n =? 0); [intros [= <-]; eexists; reflexivity|].
  destruct (Qeqb _ 0); [intros [= <-]; eexists; reflexivity|].
  destruct (Qltb _ _); [intros [= <-]; eexists; reflexivity|discriminate].
Qed.

(* low average depth (whatever the structure source) -> error, empty result line *)
Theorem low_depth_no_call c v ev : repaired v ->
  (avg_cov c (ev_sites ev) < ev_min_avg ev)%Q -> no_call (ev_simple ev) (guard c v ev).
Proof.
  intros (N & L & U) H. unfold guard, no_call. fold (expected_line (ev_simple ev)).
  destruct (sample_guard c v ev) as [o|] eqn:S.
  - exact (sample_guard_line c v ev o L S).
  - unfold avg_guard. rewrite N. cbn [negb].
    assert (match ev_neutral ev with Some _ => true | None => true end = true) as -> by (destruct (ev_neutral ev); reflexivity).
    apply Qltb_lt in H. rewrite H. cbn [andb]. rewrite line_printed. eexists. reflexivity.
Qed.

(* no reads in the locus: empty table / all totals zero *)
Theorem no_reads_no_call c v ev : consts_wf c = true -> repaired v ->
  (0 < ev_min_avg ev)%Q -> zsum (ev_sites ev) = 0 -> no_call (ev_simple ev) (guard c v ev).
Proof.
  intros W R M Z. apply low_depth_no_call; [exact R|]. apply avg_zero_lt; assumption.
Qed.

(* depth everywhere at most d <= min_avg_coverage *)
Theorem thin_reads_no_call c v ev d : consts_wf c = true -> repaired v ->
  (0 < ev_min_avg ev)%Q -> (forall x, In x (ev_sites ev) -> x <= d) -> (inZ d <= ev_min_avg ev)%Q ->
  no_call (ev_simple ev) (guard c v ev).
Proof.
  intros W R M B D. apply low_depth_no_call; [exact R|]. apply (avg_uniform_low c _ d); assumption.
Qed.

(* empty neutral region *)
Theorem empty_neutral_no_call c v ev n : late_header v = false ->
  ev_neutral ev = Some n -> n_in n = 0 -> guard c v ev = Error NeutralEmpty (expected_line (ev_simple ev)).
Proof.
  intros L E Z. unfold guard, sample_guard. rewrite E, Z, L. cbn [Z.eqb negb]. rewrite line_printed. reflexivity.
Qed.

(* the shipped guard is right about the ERROR whenever the profile has a neutral region (estimated structure);
   only the simple-format line can be off *)
Theorem with_neutral_low_depth_is_error c v ev n : ev_neutral ev = Some n ->
  (avg_cov c (ev_sites ev) < ev_min_avg ev)%Q -> exists e l, guard c v ev = Error e l.
Proof.
  intros E H. unfold guard, sample_guard. rewrite E.
  destruct (n_in n =? 0); [eexists; eexists; reflexivity|].
  destruct (Qeqb _ 0); [eexists; eexists; reflexivity|].
  destruct (Qltb _ (c_neutral_floor c)); [eexists; eexists; reflexivity|].
  unfold avg_guard. rewrite E. apply Qltb_lt in H. rewrite H. cbn [andb]. eexists; eexists; reflexivity.
Qed.

(* pseudogene-only evidence is NOT rejected by any guard (the call itself is the copy-number stage's business):
   neutral region fine, average fine, every unique region seen at >= 1 normalised copy on the pseudogene side *)
Lemma qsum_ge_len (l : list Q) : (forall x, In x l -> (1 <= x)%Q) -> (inZ (Z.of_nat (length l)) <= qsum l)%Q.
Proof.
  induction l as [|x l IH]; intros H.
  - cbn [qsum length Z.of_nat]. unfold inZ. change (inject_Z 0) with 0%Q. lra.
  - cbn [qsum length]. rewrite Nat2Z.inj_succ. unfold Z.succ, inZ. rewrite inject_Z_plus.
    assert (1 <= x)%Q by (apply H; left; reflexivity).
    assert (inZ (Z.of_nat (length l)) <= qsum l)%Q by (apply IH; intros y Hy; apply H; right; exact Hy).
    unfold inZ in *. change (inject_Z 1) with 1%Q. lra.
Qed.

Theorem covered_pseudogene_proceeds c v ev n :
  ev_struct ev = Estimated -> ev_neutral ev = Some n ->
  sample_guard c v ev = None -> avg_guard c v ev = None ->
  (forall sp, In sp (ev_regions ev) -> (1 <= region_cov (ratio ev n) sp)%Q) ->
  ev_cn_min ev <= 2 * Z.of_nat (length (ev_regions ev)) ->
  guard c v ev = Proceed.
Proof.
  intros S E G1 G2 R M. unfold guard. rewrite G1, G2. unfold cn_guard. rewrite S, E.
  assert (Qltb (total_cov (ratio ev n) (ev_regions ev)) (inZ (ev_cn_min ev) / 2) = false) as ->; [|reflexivity].
  apply Qltb_ge. unfold total_cov.
  assert (inZ (Z.of_nat (length (map (region_cov (ratio ev n)) (ev_regions ev)))) <= qsum (map (region_cov (ratio ev n)) (ev_regions ev)))%Q as Q1.
  { apply qsum_ge_len. intros x Hx. apply in_map_iff in Hx as (sp & <- & Hs). apply R. exact Hs. }
  rewrite map_length in Q1.
  assert (inZ (ev_cn_min ev) <= 2 * inZ (Z.of_nat (length (ev_regions ev))))%Q as Q2.
  { unfold inZ. change 2%Q with (inject_Z 2). rewrite <- inject_Z_mult, <- Zle_Qle. exact M. }
  set (a := inZ (ev_cn_min ev)) in *. set (b := inZ (Z.of_nat (length (ev_regions ev)))) in *.
  set (t := qsum _) in *. clearbody a b t.
  apply Qle_shift_div_r; lra.
Qed.

(* ---------- the predicate evaluated on the implementation is the Prop of the theorems ---------- *)
Lemma sline_eqb_eq a b : sline_eqb a b = true <-> a = b.
Proof. destruct a, b; cbn; split; intros H; try reflexivity; try discriminate. Qed.

Theorem holds_no_call_iff simple o : holds_no_call simple (observe o) = true <-> no_call simple o.
Proof.
  unfold holds_no_call, no_call. destruct o as [e l|]; cbn [observe ob_error ob_call ob_line andb negb].
  - rewrite sline_eqb_eq. split.
    + intros ->. exists e. reflexivity.
    + intros (e' & [= _ ->]). reflexivity.
  - split; [discriminate|]. intros (e & H). discriminate.
Qed.

(* ---------- witnesses: the shipped switches violate the clauses ---------- *)
Definition ev_supplied_no_reads (simple : bool) : evidence :=
  {| ev_sites := []; ev_neutral := None; ev_neutral_value := 0; ev_min_avg := 2; ev_regions := [];
     ev_cn_min := 7; ev_struct := Supplied; ev_simple := simple |}.
Definition ev_supplied_thin (simple : bool) : evidence :=
  {| ev_sites := [1; 1; 1; 1; 1; 1; 1; 1; 1; 1]; ev_neutral := None; ev_neutral_value := 0; ev_min_avg := 2; ev_regions := [];
     ev_cn_min := 7; ev_struct := Supplied; ev_simple := simple |}.
Definition ev_neutral_empty : evidence :=
  {| ev_sites := [30; 30; 30]; ev_neutral := Some {| n_in := 0; n_all := 0; n_len := 400 |}; ev_neutral_value := 12000;
     ev_min_avg := 2; ev_regions := [(300, 300%Q)]; ev_cn_min := 7; ev_struct := Estimated; ev_simple := true |}.
Definition ev_cn_low : evidence :=
  {| ev_sites := [30; 30; 30]; ev_neutral := Some {| n_in := 12000; n_all := 12000; n_len := 400 |}; ev_neutral_value := 12000;
     ev_min_avg := 2; ev_regions := [(0, 300%Q); (0, 300%Q)]; ev_cn_min := 7; ev_struct := Estimated; ev_simple := true |}.

Theorem no_reads_supplied_refuted c : forall simple,
  guard c g_shipped (ev_supplied_no_reads simple) = Proceed /\ ~ no_call simple (guard c g_shipped (ev_supplied_no_reads simple)).
Proof.
  intros simple. assert (guard c g_shipped (ev_supplied_no_reads simple) = Proceed) as H by reflexivity.
  split; [exact H|]. rewrite H. intros (e & E). discriminate.
Qed.

Theorem low_depth_supplied_refuted c : forall simple,
  guard c g_shipped (ev_supplied_thin simple) = Proceed /\ ~ no_call simple (guard c g_shipped (ev_supplied_thin simple)).
Proof.
  intros simple. assert (guard c g_shipped (ev_supplied_thin simple) = Proceed) as H by reflexivity.
  split; [exact H|]. rewrite H. intros (e & E). discriminate.
Qed.

Theorem empty_neutral_line_refuted c :
  guard c g_shipped ev_neutral_empty = Error NeutralEmpty NoLine /\ ~ no_call true (guard c g_shipped ev_neutral_empty).
Proof.
  assert (guard c g_shipped ev_neutral_empty = Error NeutralEmpty NoLine) as H by reflexivity.
  split; [exact H|]. rewrite H. intros (e & E). discriminate.
Qed.

(* the copy-number stage's own guard leaves the simple-format line unterminated (literals of the current tree) *)
Theorem cn_guard_line_refuted :
  guard here g_shipped ev_cn_low = Error CnLowDepth Unterminated /\ ~ no_call true (guard here g_shipped ev_cn_low).
Proof.
  assert (guard here g_shipped ev_cn_low = Error CnLowDepth Unterminated) as H by (vm_compute; reflexivity).
  split; [exact H|]. rewrite H. intros (e & E). discriminate.
Qed.

(* non-vacuity: the hypotheses of the theorems are met by concrete evidence, and the repaired guard rejects the witnesses *)
Example fixed_rejects_supplied_no_reads : guard here g_fixed (ev_supplied_no_reads true) = Error LowAverage EmptyLine.
Proof. vm_compute. reflexivity. Qed.
Example fixed_rejects_supplied_thin : guard here g_fixed (ev_supplied_thin false) = Error LowAverage NotSimple.
Proof. vm_compute. reflexivity. Qed.
Example fixed_neutral_empty_line : guard here g_fixed ev_neutral_empty = Error NeutralEmpty EmptyLine.
Proof. vm_compute. reflexivity. Qed.
Example fixed_cn_low_line : guard here g_fixed ev_cn_low = Error CnLowDepth EmptyLine.
Proof. vm_compute. reflexivity. Qed.
(* a well-covered two-copy sample passes every guard *)
Definition ev_good : evidence :=
  {| ev_sites := [30; 31; 29; 30]; ev_neutral := Some {| n_in := 12000; n_all := 12100; n_len := 400 |}; ev_neutral_value := 12000;
     ev_min_avg := 2; ev_regions := [(300, 300%Q); (300, 300%Q); (290, 300%Q); (310, 300%Q)]; ev_cn_min := 7;
     ev_struct := Estimated; ev_simple := true |}.
Example good_proceeds : guard here g_fixed ev_good = Proceed /\ guard here g_shipped ev_good = Proceed.
Proof. split; vm_compute; reflexivity. Qed.
(* pseudogene-only evidence: gene regions absent from the list would be 0; here 5 unique regions, pseudogene side at 2 copies, gene side 0 *)
Definition ev_pseudo_only : evidence :=
  {| ev_sites := [30; 30; 30; 30]; ev_neutral := Some {| n_in := 12000; n_all := 12000; n_len := 400 |}; ev_neutral_value := 12000;
     ev_min_avg := 2; ev_regions := [(0, 300%Q); (300, 300%Q); (0, 300%Q); (300, 300%Q); (0, 300%Q); (300, 300%Q)]; ev_cn_min := 7;
     ev_struct := Estimated; ev_simple := false |}.
Example pseudo_only_proceeds : guard here g_shipped ev_pseudo_only = Proceed.
Proof. vm_compute. reflexivity. Qed.
