(* PipelineProofs.v — C01 as far as it is carried on Pipeline.v (PARTIAL):
   ideal pileup of the planted copies  =>  every row of the allele models sees exactly the planted number of copies, the planted
   combination has fit error 0 and no combination does better; ideal region depths normalise to the planted copy numbers;
   a candidate with the best score is reported by the selection. *)
From Coq Require Import Lqa Qfield.
From Aldy Require Import Base Consts Select SelectProofs Pipeline.
Import List.
Open Scope Z_scope.

Lemma Qabs'_zero : forall q, (q == 0)%Q -> (Qabs' q == 0)%Q.
Proof. intros q H. unfold Qabs'. destruct (Qle_bool 0 q); rewrite H; reflexivity. Qed.

Lemma Qabs'_nonneg : forall q, (0 <= Qabs' q)%Q.
Proof.
  intros q. unfold Qabs'. destruct (Qle_bool 0 q) eqn:E.
  - apply Qle_bool_iff. exact E.
  - assert (~ (0 <= q)%Q) as N by (intro L; apply Qle_bool_iff in L; congruence).
    apply Qnot_le_lt in N. lra.
Qed.

Section Rows.
  Context {A : Type}.

  Lemma observed_ideal : forall (d : Q) (planted : list A) (r : @row A), (0 < d)%Q -> ideal_row d planted r ->
    (observed r == inZ (members r planted))%Q.
  Proof.
    intros d planted r Hd [Hc [Ht [Hn [Hz Hone]]]]. unfold observed, single_copy.
    destruct (r_cn r =? 0) eqn:E.
    - apply Z.eqb_eq in E. rewrite (Hz E). reflexivity.
    - apply Z.eqb_neq in E. assert (0 < r_cn r) as Hpos by lia.
      assert (0 < inZ (r_cn r))%Q as Hq. { unfold inZ. change 0%Q with (inject_Z 0). rewrite <- Zlt_Qlt. exact Hpos. }
      pose proof (Hone Hpos) as H1.
      assert (Qmax' 1 (r_total r) = r_total r) as M.
      { unfold Qmax'. assert (Qle_bool 1 (r_total r) = true) as B by (apply Qle_bool_iff; rewrite Ht; exact H1).
        rewrite B. reflexivity. }
      rewrite M. rewrite Hc, Ht. field. split; lra.
  Qed.

  Theorem planted_fit_zero : forall (d : Q) (planted : list A) (rows : list (@row A)), (0 < d)%Q ->
    (forall r, In r rows -> ideal_row d planted r) -> (fit_error rows planted == 0)%Q.
  Proof.
    intros d planted rows Hd. unfold fit_error. induction rows as [|r rows IH]; intros H; cbn [map qsum]; [reflexivity|].
    rewrite IH by (intros r' Hr'; apply H; right; exact Hr').
    rewrite Qabs'_zero; [reflexivity|].
    rewrite (observed_ideal d planted r Hd (H r (or_introl eq_refl))). ring.
  Qed.

  Lemma fit_error_nonneg : forall (rows : list (@row A)) (called : list A), (0 <= fit_error rows called)%Q.
  Proof.
    intros rows called. unfold fit_error. induction rows as [|r rows IH]; cbn [map qsum]; [lra|].
    pose proof (Qabs'_nonneg (observed r - inZ (members r called))). lra.
  Qed.

  (* no called combination fits the ideal evidence better than the planted one *)
  Theorem planted_fit_minimal : forall (d : Q) (planted called : list A) (rows : list (@row A)), (0 < d)%Q ->
    (forall r, In r rows -> ideal_row d planted r) -> (fit_error rows planted <= fit_error rows called)%Q.
  Proof.
    intros d planted called rows Hd H. rewrite (planted_fit_zero d planted rows Hd H). apply fit_error_nonneg.
  Qed.
End Rows.

(* ideal region depths: a region present in k copies at per-copy depth d, profile of two copies at depth d' *)
Theorem ideal_region_copies : forall d d' ln lr k : Q, (0 < d)%Q -> (0 < d')%Q -> (0 < ln)%Q -> (0 < lr)%Q ->
  (region_copies (2 * d' * ln) (2 * d * ln) (d * k * lr) (2 * d' * lr) == k)%Q.
Proof.
  intros d d' ln lr k Hd Hd' Hn Hr. unfold region_copies.
  assert (0 < 2 * d' * lr)%Q as P. { apply Qmult_lt_0_compat; [apply Qmult_lt_0_compat; [reflexivity|exact Hd']|exact Hr]. }
  assert (Qeqb (2 * d' * lr) 0 = false) as E.
  { unfold Qeqb. destruct (Qeq_bool (2 * d' * lr) 0) eqn:B; [|reflexivity]. apply Qeq_bool_iff in B. lra. }
  rewrite E. field. repeat split; lra.
Qed.

(* ---- composition with the selection ---- *)
Theorem zero_score_selected : forall (A : Type) (name : A -> str) (score : A -> Q) prec gap scale l out p,
  select name score prec gap scale l = Some out -> In p l -> (score p == 0)%Q -> (forall a, In a l -> (0 <= score a)%Q) ->
  (0 <= gap)%Q -> (0 < prec)%Q -> In p out.
Proof.
  intros A name score prec gap scale l out p S Ip Z NN G P.
  destruct (select_exact _ _ _ _ _ _ _ _ S) as [_ [_ [_ [Hin [Hle [a [Ia Ea]]]]]]].
  apply Hin. split; [exact Ip|]. pose proof (NN a Ia). rewrite Ea. lra.
Qed.

Theorem best_chain_reported : forall c gap cns out passed n,
  genotype_select c gap cns = Ok out -> passed_majors c gap cns = Some passed ->
  consts_wf c = true -> (0 <= gap)%Q ->
  In n (minor_candidates c (min_score cn_score cns) (min_score jc_score passed) passed) ->
  (nc_score n == min_score nc_score (minor_candidates c (min_score cn_score cns) (min_score jc_score passed) passed))%Q ->
  In n out.
Proof.
  intros c gap cns out passed n H P W G In_ E.
  destruct (genotype_select_ok _ _ _ _ H) as [passed' [P' S]].
  rewrite P in P'. injection P' as <-.
  destruct (select_exact _ _ _ _ _ _ _ _ S) as [_ [_ [_ [Hin _]]]].
  apply Hin. split; [exact In_|].
  assert (0 < c_solution_precision c)%Q as Hp.
  { unfold consts_wf in W. repeat (apply andb_true_iff in W; destruct W as [W ?]). apply Qltb_lt. assumption. }
  rewrite E. lra.
Qed.
