(* LpProofs.v — facts about the shared LP vocabulary (Lp.v) and the two linearisation helpers of lpinterface.py:
     prod   (lpinterface.py:140-150)   prod_exact          the product variable equals the AND of its factors, any arity
     abssum (lpinterface.py:120-138)   abssum_lower        |v_i| <= a_i in every feasible point
                                       abssum_objective_lower / abssum_attained / abssum_tight / abssum_minimiser_tight
   plus reflection of the boolean feasibility test and the frame lemma for [eval_lin]. *)
From Coq Require Import QArith Qabs Lqa Lia List Bool.
From Aldy Require Import Base Lp.
Import ListNotations.
Open Scope Q_scope.

(* ---------------------------------------------------------------- keys *)
Lemma str_eqb_eq : forall a b : str, str_eqb a b = true <-> a = b.
Proof.
  induction a as [|x a IH]; destruct b as [|y b]; cbn [str_eqb]; split; intro H; try discriminate; try reflexivity.
  - apply andb_true_iff in H. destruct H as [H1 H2]. apply Z.eqb_eq in H1. apply IH in H2. congruence.
  - injection H as -> ->. apply andb_true_iff. split; [apply Z.eqb_refl | apply IH; reflexivity].
Qed.

Lemma vkey_eqb_eq : forall a b, vkey_eqb a b = true <-> a = b.
Proof. exact str_eqb_eq. Qed.
Lemma vkey_eqb_refl : forall a, vkey_eqb a a = true.
Proof. intro a. apply vkey_eqb_eq. reflexivity. Qed.
Lemma vkey_eqb_neq : forall a b, vkey_eqb a b = false <-> a <> b.
Proof.
  intros a b. split; intro H.
  - intro E. apply vkey_eqb_eq in E. congruence.
  - destruct (vkey_eqb a b) eqn:E; [apply vkey_eqb_eq in E; contradiction | reflexivity].
Qed.
Lemma vkey_eq_dec : forall a b : vkey, {a = b} + {a <> b}.
Proof. intros a b. destruct (vkey_eqb a b) eqn:E; [left; apply vkey_eqb_eq; exact E | right; apply vkey_eqb_neq; exact E]. Qed.

Lemma abs_key_inj : forall v w, abs_key v = abs_key w -> v = w.
Proof. unfold abs_key. intros v w H. injection H as H. exact H. Qed.

(* ---------------------------------------------------------------- Q booleans *)
Lemma Qleb_le : forall a b, Qleb a b = true <-> a <= b.
Proof. intros. unfold Qleb. apply Qle_bool_iff. Qed.
Lemma Qleb_gt : forall a b, Qleb a b = false <-> b < a.
Proof.
  intros a b. split; intro H.
  - apply Qnot_le_lt. intro L. apply Qleb_le in L. congruence.
  - destruct (Qleb a b) eqn:E; [apply Qleb_le in E; lra | reflexivity].
Qed.
Lemma Qeqb_eq : forall a b, Qeqb a b = true <-> a == b.
Proof. intros. unfold Qeqb. apply Qeq_bool_iff. Qed.
Lemma Qeqb_neq : forall a b, Qeqb a b = false <-> ~ a == b.
Proof.
  intros a b. split; intro H.
  - intro E. apply Qeqb_eq in E. congruence.
  - destruct (Qeqb a b) eqn:E; [apply Qeqb_eq in E; contradiction | reflexivity].
Qed.
Lemma Qltb_lt : forall a b, Qltb a b = true <-> a < b.
Proof. intros a b. unfold Qltb. rewrite negb_true_iff. apply Qleb_gt. Qed.
Lemma Qltb_ge : forall a b, Qltb a b = false <-> b <= a.
Proof. intros a b. unfold Qltb. rewrite negb_false_iff. apply Qleb_le. Qed.

Lemma Qabs'_Qabs : forall q, Qabs' q == Qabs q.
Proof.
  intro q. unfold Qabs'. destruct (Qle_bool 0 q) eqn:E.
  - apply Qle_bool_iff in E. symmetry. apply Qabs_pos. exact E.
  - assert (q < 0) by (apply Qleb_gt; exact E). symmetry. apply Qabs_neg. lra.
Qed.

Lemma Qabs_bounds : forall x y, Qabs x <= y <-> (x <= y /\ - x <= y).
Proof.
  intros x y. split.
  - intro H. pose proof (Qle_Qabs x) as H1. assert (H2 : - x <= Qabs x) by (rewrite <- Qabs_opp; apply Qle_Qabs).
    set (a := Qabs x) in *; clearbody a. split; lra.
  - intros [H1 H2]. apply Qabs_case; intros; lra.
Qed.

Lemma Qmin'_le_l : forall a b, Qmin' a b <= a.
Proof. intros a b. unfold Qmin'. destruct (Qle_bool a b) eqn:E; [lra | apply Qleb_gt in E; lra]. Qed.
Lemma Qmin'_le_r : forall a b, Qmin' a b <= b.
Proof. intros a b. unfold Qmin'. destruct (Qle_bool a b) eqn:E; [apply Qle_bool_iff in E; lra | lra]. Qed.
Lemma Qmin'_cases : forall a b, Qmin' a b = a \/ Qmin' a b = b.
Proof. intros a b. unfold Qmin'. destruct (Qle_bool a b); auto. Qed.

(* ---------------------------------------------------------------- eval_lin *)
Definition lin_vars (l : lin) : list vkey := map snd l.

Lemma eval_lin_app : forall a l1 l2, eval_lin a (l1 ++ l2) == eval_lin a l1 + eval_lin a l2.
Proof.
  intros a l1 l2. induction l1 as [|[c v] t IH]; cbn [eval_lin app]; [lra | rewrite IH; lra].
Qed.

(* frame: an expression only sees the variables it mentions *)
Lemma eval_lin_ext : forall a a' l, (forall v, In v (lin_vars l) -> a v == a' v) -> eval_lin a l == eval_lin a' l.
Proof.
  intros a a' l. induction l as [|[c v] t IH]; intro H; cbn [eval_lin]; [lra|].
  rewrite (H v) by (left; reflexivity). rewrite IH; [lra|]. intros w Hw. apply H. right. exact Hw.
Qed.

Lemma sat_row_ext : forall a a' r, (forall v, In v (lin_vars (r_lin r)) -> a v == a' v) -> sat_row a r -> sat_row a' r.
Proof.
  intros a a' r H. unfold sat_row. pose proof (eval_lin_ext a a' _ H) as E.
  destruct (r_rel r); intro S; rewrite <- E; exact S.
Qed.

(* ---------------------------------------------------------------- reflection of the boolean tests *)
Lemma sat_rowb_iff : forall a r, sat_rowb a r = true <-> sat_row a r.
Proof.
  intros a r. unfold sat_rowb, sat_row. destruct (r_rel r); [apply Qleb_le | apply Qleb_le | apply Qeqb_eq].
Qed.

Lemma is_binb_iff : forall q, is_binb q = true <-> is_bin q.
Proof. intro q. unfold is_binb, is_bin. rewrite orb_true_iff, !Qeqb_eq. tauto. Qed.

Lemma is_intb_sound : forall q, is_intb q = true -> is_int q.
Proof.
  intros q H. unfold is_intb in H. apply Z.eqb_eq in H. exists (Qnum (Qred q)).
  rewrite <- (Qred_correct q) at 1. destruct (Qred q) as [n d]. cbn [Qden Qnum] in *.
  injection H as ->. unfold inject_Z. reflexivity.
Qed.

Lemma in_kindb_sound : forall k q, in_kindb k q = true -> in_kind k q.
Proof.
  intros k q. destruct k as [|lb ub|lb ub]; cbn [in_kindb in_kind].
  - apply is_binb_iff.
  - rewrite !andb_true_iff, !Qleb_le. intros [[H1 H2] H3]. auto using is_intb_sound.
  - rewrite andb_true_iff. intros [H1 H2]. split.
    + destruct lb; [apply Qleb_le; exact H1 | exact I].
    + destruct ub; [apply Qleb_le; exact H2 | exact I].
Qed.

Theorem feasibleb_sound : forall m a, feasibleb m a = true -> feasible m a.
Proof.
  intros m a H. unfold feasibleb in H. apply andb_true_iff in H. destruct H as [H1 H2]. split.
  - apply Forall_forall. intros kv Hin. apply in_kindb_sound. rewrite forallb_forall in H1. apply H1. exact Hin.
  - apply Forall_forall. intros r Hin. apply sat_rowb_iff. rewrite forallb_forall in H2. apply H2. exact Hin.
Qed.

(* the converse needs no integer kinds for [is_intb]; it holds for the kinds aldy uses (KBin, KCont) *)
Lemma in_kindb_complete : forall k q, (match k with KInt _ _ => False | _ => True end) -> in_kind k q -> in_kindb k q = true.
Proof.
  intros k q Hk. destruct k as [|lb ub|lb ub]; cbn [in_kindb in_kind]; [apply is_binb_iff | contradiction |].
  intros [H1 H2]. apply andb_true_iff. split.
  - destruct lb; [apply Qleb_le; exact H1 | reflexivity].
  - destruct ub; [apply Qleb_le; exact H2 | reflexivity].
Qed.

Lemma in_kind_ext : forall k q q', q == q' -> in_kind k q -> in_kind k q'.
Proof.
  intros k q q' E. destruct k as [|lb ub|lb ub]; cbn [in_kind].
  - unfold is_bin. rewrite E. tauto.
  - unfold is_int. intros [[z Hz] [H1 H2]]. split; [exists z; rewrite <- E; exact Hz | split; lra].
  - intros [H1 H2]. split; [destruct lb; [lra | exact I] | destruct ub; [lra | exact I]].
Qed.

(* ---------------------------------------------------------------- models with added rows *)
Lemma feasible_add_rows : forall m rs a, feasible (add_rows m rs) a <-> feasible m a /\ Forall (sat_row a) rs.
Proof.
  intros m rs a. unfold feasible, add_rows. cbn [lp_vars lp_rows]. rewrite Forall_app. tauto.
Qed.
Lemma objective_add_rows : forall m rs a, objective (add_rows m rs) a = objective m a.
Proof. reflexivity. Qed.
Lemma binaries_add_rows : forall m rs, binaries (add_rows m rs) = binaries m.
Proof. reflexivity. Qed.

Lemma binaries_in : forall m v, In v (binaries m) <-> In (v, KBin) (lp_vars m).
Proof.
  intros m v. unfold binaries. rewrite in_map_iff. split.
  - intros [[k kd] [E H]]. cbn [fst] in E. subst k. apply filter_In in H. destruct H as [H1 H2]. cbn [snd] in H2.
    destruct kd; try discriminate. exact H1.
  - intro H. exists (v, KBin). split; [reflexivity|]. apply filter_In. split; [exact H | reflexivity].
Qed.

Lemma feasible_bin : forall m a v, feasible m a -> In v (binaries m) -> is_bin (a v).
Proof.
  intros m a v [Hk _] Hin. apply binaries_in in Hin. rewrite Forall_forall in Hk. exact (Hk _ Hin).
Qed.

Lemma active_in : forall m a v, In v (active m a) <-> In v (binaries m) /\ a v == 1.
Proof. intros m a v. unfold active. rewrite filter_In, Qeqb_eq. tauto. Qed.

(* ---------------------------------------------------------------- prod *)
(* the logical AND of the factors, as a 0/1 rational *)
Definition and_val (a : asg) (ts : list vkey) : Q := if forallb (fun t => Qeqb (a t) 1) ts then 1 else 0.

Lemma eval_neg_terms : forall (a : asg) (ts : list vkey), eval_lin a (map (fun t => ((-1)%Q, t)) ts) == - qsum (map a ts).
Proof. intros a ts. induction ts as [|t ts IH]; cbn [map eval_lin qsum]; [lra | rewrite IH; lra]. Qed.

Lemma inject_len_S : forall (A : Type) (x : A) l,
  inject_Z (Z.of_nat (length (x :: l))) == inject_Z (Z.of_nat (length l)) + 1.
Proof.
  intros A x l. cbn [length]. rewrite Nat2Z.inj_succ. unfold Z.succ. rewrite inject_Z_plus. reflexivity.
Qed.
Lemma inject_len_m1 : forall (A : Type) (l : list A),
  inject_Z (Z.of_nat (length l) - 1) == inject_Z (Z.of_nat (length l)) - 1.
Proof. intros A l. unfold Z.sub. rewrite inject_Z_plus. reflexivity. Qed.

Lemma bin_sum_bounds : forall (a : asg) (ts : list vkey), (forall t, In t ts -> is_bin (a t)) ->
  0 <= qsum (map a ts) /\ qsum (map a ts) <= inject_Z (Z.of_nat (length ts)) /\
  (forallb (fun t => Qeqb (a t) 1) ts = true -> qsum (map a ts) == inject_Z (Z.of_nat (length ts))) /\
  (forallb (fun t => Qeqb (a t) 1) ts = false -> qsum (map a ts) <= inject_Z (Z.of_nat (length ts)) - 1).
Proof.
  intros a ts. induction ts as [|t ts IH]; intro Hb.
  - cbn [map qsum forallb length]. change (inject_Z (Z.of_nat 0)) with 0. repeat split; try lra; try discriminate; intros; try lra.
  - assert (Hb' : forall t', In t' ts -> is_bin (a t')) by (intros; apply Hb; right; assumption).
    destruct (IH Hb') as (I0 & I1 & I2 & I3). pose proof (Hb t (or_introl eq_refl)) as Ht.
    rewrite inject_len_S. cbn [map qsum forallb].
    set (S := qsum (map a ts)) in *. set (N := inject_Z (Z.of_nat (length ts))) in *. clearbody S N.
    destruct (Qeqb (a t) 1) eqn:E.
    + apply Qeqb_eq in E. cbn [andb]. repeat split; try lra.
      * intro H. specialize (I2 H). lra.
      * intro H. specialize (I3 H). lra.
    + apply Qeqb_neq in E. cbn [andb]. destruct Ht as [Ht|Ht]; [|contradiction].
      repeat split; try lra; try discriminate; intros; try lra.
Qed.

Lemma prod_rows_sat : forall a res ts,
  Forall (sat_row a) (prod_rows res ts) <->
  (forall t, In t ts -> a res <= a t) /\ qsum (map a ts) - (inject_Z (Z.of_nat (length ts)) - 1) <= a res.
Proof.
  intros a res ts. unfold prod_rows. rewrite Forall_app. split.
  - intros [H1 H2]. split.
    + intros t Hin. rewrite Forall_forall in H1.
      specialize (H1 _ (in_map (fun t => {| r_lin := [(1, res); ((-1)%Q, t)]; r_rel := RLe; r_rhs := 0 |}) ts t Hin)).
      unfold sat_row in H1. cbn [r_rel r_lin r_rhs eval_lin] in H1. lra.
    + inversion H2 as [|? ? H _]; subst. unfold sat_row in H. cbn [r_rel r_lin r_rhs eval_lin] in H.
      rewrite eval_neg_terms, inject_len_m1 in H. lra.
  - intros [H1 H2]. split.
    + apply Forall_forall. intros r Hin. apply in_map_iff in Hin. destruct Hin as [t [<- Hin]].
      unfold sat_row. cbn [r_rel r_lin r_rhs eval_lin]. specialize (H1 t Hin). lra.
    + constructor; [|constructor]. unfold sat_row. cbn [r_rel r_lin r_rhs eval_lin].
      rewrite eval_neg_terms, inject_len_m1. lra.
Qed.

(* in every point that satisfies the rows of prod (and is 0/1 on the variables involved) the product variable is
   the AND of the factors, and conversely; any number of factors: none (the product is 1) and one (a copy) included *)
Theorem prod_exact : forall a res ts, is_bin (a res) -> (forall t, In t ts -> is_bin (a t)) ->
  (Forall (sat_row a) (prod_rows res ts) <-> a res == and_val a ts).
Proof.
  intros a res ts Hr Hb. rewrite prod_rows_sat. destruct (bin_sum_bounds a ts Hb) as (I0 & I1 & I2 & I3).
  unfold and_val. destruct (forallb (fun t => Qeqb (a t) 1) ts) eqn:E.
  - specialize (I2 eq_refl). split.
    + intros [_ H2]. destruct Hr as [Hr|Hr]; lra.
    + intro H. split; [|lra]. intros t Hin. rewrite forallb_forall in E. specialize (E t Hin). apply Qeqb_eq in E. lra.
  - specialize (I3 eq_refl). split.
    + intros [H1 _]. assert (Hex : exists t, In t ts /\ a t == 0).
      { clear - E Hb. induction ts as [|t ts IH]; [discriminate|]. cbn [forallb] in E. apply andb_false_iff in E.
        destruct E as [E|E].
        - exists t. split; [left; reflexivity|]. apply Qeqb_neq in E. destruct (Hb t (or_introl eq_refl)); [assumption|contradiction].
        - destruct IH as [t' [Hin H0]]; [intros; apply Hb; right; assumption | exact E |]. exists t'. split; [right; exact Hin | exact H0]. }
      destruct Hex as [t [Hin H0]]. specialize (H1 t Hin). destruct Hr as [Hr|Hr]; lra.
    + intro H. split; [|lra]. intros t Hin. destruct (Hb t Hin); lra.
Qed.

Corollary prod_exact_nil : forall a res, is_bin (a res) -> (Forall (sat_row a) (prod_rows res []) <-> a res == 1).
Proof. intros a res H. apply (prod_exact a res [] H). intros t []. Qed.
Corollary prod_exact_one : forall a res t, is_bin (a res) -> is_bin (a t) ->
  (Forall (sat_row a) (prod_rows res [t]) <-> a res == a t).
Proof.
  intros a res t Hr Ht. rewrite (prod_exact a res [t] Hr) by (intros t' [<-|[]]; exact Ht).
  unfold and_val. cbn [forallb]. destruct (Qeqb (a t) 1) eqn:E; cbn [andb].
  - apply Qeqb_eq in E. rewrite E. tauto.
  - apply Qeqb_neq in E. destruct Ht as [Ht|Ht]; [rewrite Ht; tauto | contradiction].
Qed.

(* ---------------------------------------------------------------- abssum *)
Lemma abssum_rows_sat : forall a vs, Forall (sat_row a) (abssum_rows vs) <->
  forall v, In v vs -> 0 <= a (abs_key v) + a v /\ 0 <= a (abs_key v) - a v.
Proof.
  intros a vs. unfold abssum_rows. rewrite Forall_forall. split.
  - intros H v Hin. split.
    + assert (Hr : In {| r_lin := [(1, abs_key v); (1, v)]; r_rel := RGe; r_rhs := 0 |}
                   (flat_map (fun v => [ {| r_lin := [(1, abs_key v); (1, v)]; r_rel := RGe; r_rhs := 0 |};
                                         {| r_lin := [(1, abs_key v); ((-1)%Q, v)]; r_rel := RGe; r_rhs := 0 |} ]) vs)).
      { apply in_flat_map. exists v. split; [exact Hin | left; reflexivity]. }
      specialize (H _ Hr). unfold sat_row in H. cbn [r_rel r_lin r_rhs eval_lin] in H. lra.
    + assert (Hr : In {| r_lin := [(1, abs_key v); ((-1)%Q, v)]; r_rel := RGe; r_rhs := 0 |}
                   (flat_map (fun v => [ {| r_lin := [(1, abs_key v); (1, v)]; r_rel := RGe; r_rhs := 0 |};
                                         {| r_lin := [(1, abs_key v); ((-1)%Q, v)]; r_rel := RGe; r_rhs := 0 |} ]) vs)).
      { apply in_flat_map. exists v. split; [exact Hin | right; left; reflexivity]. }
      specialize (H _ Hr). unfold sat_row in H. cbn [r_rel r_lin r_rhs eval_lin] in H. lra.
  - intros H r Hin. apply in_flat_map in Hin. destruct Hin as [v [Hv Hr]]. destruct (H v Hv) as [H1 H2].
    destruct Hr as [<-|[<-|[]]]; unfold sat_row; cbn [r_rel r_lin r_rhs eval_lin]; lra.
Qed.

(* in every point satisfying the rows of abssum, each helper dominates the absolute value of its term *)
Theorem abssum_lower : forall a vs, Forall (sat_row a) (abssum_rows vs) -> forall v, In v vs -> Qabs (a v) <= a (abs_key v).
Proof.
  intros a vs H v Hin. rewrite abssum_rows_sat in H. destruct (H v Hin) as [H1 H2]. apply Qabs_bounds. split; lra.
Qed.

(* the value the helper expression is meant to have *)
Definition abs_score (coef : vkey -> Q) (a : asg) (vs : list vkey) : Q := qsum (map (fun v => coef v * Qabs (a v)) vs).

Lemma eval_abssum_lin : forall coef a vs, eval_lin a (abssum_lin coef vs) == qsum (map (fun v => coef v * a (abs_key v)) vs).
Proof. intros coef a vs. unfold abssum_lin. induction vs as [|v vs IH]; cbn [map eval_lin qsum]; [lra | rewrite IH; lra]. Qed.

Theorem abssum_objective_lower : forall coef a vs, (forall v, In v vs -> 0 <= coef v) ->
  Forall (sat_row a) (abssum_rows vs) -> abs_score coef a vs <= eval_lin a (abssum_lin coef vs).
Proof.
  intros coef a vs Hc H. rewrite eval_abssum_lin. pose proof (abssum_lower a vs H) as Hl. clear H. unfold abs_score.
  induction vs as [|v vs IH]; cbn [map qsum]; [lra|].
  assert (IH' : qsum (map (fun v => coef v * Qabs (a v)) vs) <= qsum (map (fun v => coef v * a (abs_key v)) vs)).
  { apply IH; intros; [apply Hc | apply Hl]; right; assumption. }
  pose proof (Hl v (or_introl eq_refl)) as H1. pose proof (Hc v (or_introl eq_refl)) as H2.
  set (x := Qabs (a v)) in *. clearbody x. nra.
Qed.

(* positive coefficients: whoever reaches the value sum c_i |v_i| has every helper tight *)
Theorem abssum_tight : forall coef a vs, (forall v, In v vs -> 0 < coef v) ->
  Forall (sat_row a) (abssum_rows vs) -> eval_lin a (abssum_lin coef vs) <= abs_score coef a vs ->
  forall v, In v vs -> a (abs_key v) == Qabs (a v).
Proof.
  intros coef a vs Hc H. rewrite eval_abssum_lin. pose proof (abssum_lower a vs H) as Hl. clear H. unfold abs_score.
  induction vs as [|v vs IH]; cbn [map qsum]; intros Ho w Hin; [destruct Hin|].
  assert (Hrest : qsum (map (fun v => coef v * Qabs (a v)) vs) <= qsum (map (fun v => coef v * a (abs_key v)) vs)).
  { clear IH Ho. assert (Hc' : forall v, In v vs -> 0 < coef v) by (intros; apply Hc; right; assumption).
    assert (Hl' : forall v, In v vs -> Qabs (a v) <= a (abs_key v)) by (intros; apply Hl; right; assumption).
    clear Hc Hl Hin. induction vs as [|u vs IH]; cbn [map qsum]; [lra|].
    assert (I : qsum (map (fun v => coef v * Qabs (a v)) vs) <= qsum (map (fun v => coef v * a (abs_key v)) vs))
      by (apply IH; intros; [apply Hc' | apply Hl']; right; assumption).
    pose proof (Hl' u (or_introl eq_refl)). pose proof (Hc' u (or_introl eq_refl)).
    set (x := Qabs (a u)) in *. clearbody x. nra. }
  pose proof (Hl v (or_introl eq_refl)) as H1. pose proof (Hc v (or_introl eq_refl)) as H2.
  destruct Hin as [<-|Hin].
  - set (x := Qabs (a v)) in *. clearbody x. nra.
  - apply IH; try assumption; try (intros; [apply Hc | apply Hl]; right; assumption).
    + intros; apply Hc; right; assumption.
    + intros; apply Hl; right; assumption.
    + set (x := Qabs (a v)) in *. clearbody x. nra.
Qed.

(* the assignment that puts every helper of [vs] at the absolute value of its term and changes nothing else *)
Definition tighten (a : asg) (vs : list vkey) : asg :=
  fun k => match k with
           | h :: v => if ((h =? -1)%Z && existsb (vkey_eqb v) vs)%bool then Qabs (a v) else a k
           | [] => a k
           end.

Lemma existsb_key : forall v vs, existsb (vkey_eqb v) vs = true <-> In v vs.
Proof.
  intros v vs. rewrite existsb_exists. split.
  - intros [x [Hin E]]. apply vkey_eqb_eq in E. subst. exact Hin.
  - intro H. exists v. split; [exact H | apply vkey_eqb_refl].
Qed.

Lemma tighten_helper : forall a vs v, In v vs -> tighten a vs (abs_key v) = Qabs (a v).
Proof.
  intros a vs v Hin. unfold tighten, abs_key. rewrite Z.eqb_refl. cbn [andb].
  apply existsb_key in Hin. rewrite Hin. reflexivity.
Qed.
Lemma tighten_other : forall a vs k, (forall v, In v vs -> k <> abs_key v) -> tighten a vs k = a k.
Proof.
  intros a vs k H. unfold tighten. destruct k as [|h v]; [reflexivity|].
  destruct (h =? -1)%Z eqn:E1; [|reflexivity]. cbn [andb]. destruct (existsb (vkey_eqb v) vs) eqn:E2; [|reflexivity].
  apply existsb_key in E2. apply Z.eqb_eq in E1. subst h. exfalso. apply (H v E2). reflexivity.
Qed.

(* the value sum c_i |v_i| is attained, without touching any other variable *)
Theorem abssum_attained : forall coef a vs, (forall v w, In v vs -> In w vs -> v <> abs_key w) ->
  Forall (sat_row (tighten a vs)) (abssum_rows vs) /\
  eval_lin (tighten a vs) (abssum_lin coef vs) == abs_score coef a vs /\
  (forall k, (forall v, In v vs -> k <> abs_key v) -> tighten a vs k = a k).
Proof.
  intros coef a vs Hfresh. split; [|split].
  - apply abssum_rows_sat. intros v Hin. rewrite (tighten_helper a vs v Hin).
    rewrite (tighten_other a vs v) by (intros w Hw; apply Hfresh; assumption).
    pose proof (Qle_Qabs (a v)) as H1. assert (H2 : - a v <= Qabs (a v)) by (rewrite <- Qabs_opp; apply Qle_Qabs).
    set (x := Qabs (a v)) in *. clearbody x. split; lra.
  - rewrite eval_abssum_lin. unfold abs_score.
    assert (G : forall l, (forall v, In v l -> In v vs) ->
                qsum (map (fun v => coef v * tighten a vs (abs_key v)) l) == qsum (map (fun v => coef v * Qabs (a v)) l)).
    { induction l as [|v l IH]; intro Hl; cbn [map qsum]; [lra|].
      rewrite (tighten_helper a vs v) by (apply Hl; left; reflexivity).
      rewrite IH by (intros; apply Hl; right; assumption). lra. }
    apply G. auto.
  - intros k Hk. apply tighten_other. exact Hk.
Qed.

(* Objective identity at model level.  A model whose objective is [rest ++ abssum_lin coef vs] and whose rows are
   [base ++ abssum_rows vs], where the helpers occur nowhere else and may take any non-negative value:
   (1) every feasible point can be tightened without losing feasibility, and then its objective is
       rest + sum c_i |v_i| + const, which is no more than before (c_i >= 0);
   (2) if all c_i > 0, every minimiser already has a_i = |v_i|. *)
Section AbssumModel.
  Variables (m : lp) (coef : vkey -> Q) (vs : list vkey) (rest : lin) (base : list row).
  Hypothesis Hobj : lp_obj m = rest ++ abssum_lin coef vs.
  Hypothesis Hrows : lp_rows m = base ++ abssum_rows vs.
  Hypothesis Hfresh_vs : forall v w, In v vs -> In w vs -> v <> abs_key w.
  Hypothesis Hfresh_rest : forall v, In v vs -> ~ In (abs_key v) (lin_vars rest).
  Hypothesis Hfresh_base : forall v r, In v vs -> In r base -> ~ In (abs_key v) (lin_vars (r_lin r)).
  Hypothesis Hkinds : forall v k, In v vs -> In (abs_key v, k) (lp_vars m) -> forall q, 0 <= q -> in_kind k q.

  Lemma tighten_feasible : forall a, feasible m a -> feasible m (tighten a vs).
  Proof.
    intros a [Hk Hr]. split.
    - apply Forall_forall. intros [k kd] Hin. cbn [fst snd]. rewrite Forall_forall in Hk. specialize (Hk _ Hin). cbn [fst snd] in Hk.
      destruct (in_dec vkey_eq_dec k (map abs_key vs)) as [Hh|Hh].
      + apply in_map_iff in Hh. destruct Hh as [v [<- Hv]]. rewrite (tighten_helper a vs v Hv).
        apply (Hkinds v kd Hv Hin). apply Qabs_nonneg.
      + rewrite tighten_other; [exact Hk|]. intros v Hv E. apply Hh. subst k. apply in_map. exact Hv.
    - rewrite Hrows in *. rewrite Forall_app in *. destruct Hr as [Hb Ha]. split.
      + apply Forall_forall. intros r Hin. rewrite Forall_forall in Hb. apply (sat_row_ext a); [|apply Hb; exact Hin].
        intros v Hv. rewrite tighten_other; [reflexivity|]. intros w Hw E. subst v. exact (Hfresh_base w r Hw Hin Hv).
      + apply (abssum_attained coef a vs Hfresh_vs).
  Qed.

  Lemma tighten_objective : forall a, objective m (tighten a vs) == eval_lin a rest + abs_score coef a vs + lp_const m.
  Proof.
    intro a. unfold objective. rewrite Hobj, eval_lin_app.
    destruct (abssum_attained coef a vs Hfresh_vs) as (_ & H2 & _). rewrite H2.
    rewrite (eval_lin_ext (tighten a vs) a rest); [reflexivity|].
    intros v Hv. rewrite tighten_other; [reflexivity|]. intros w Hw E. subst v. exact (Hfresh_rest w Hw Hv).
  Qed.

  Theorem abssum_objective_identity : (forall v, In v vs -> 0 <= coef v) -> forall a, feasible m a ->
    feasible m (tighten a vs) /\
    objective m (tighten a vs) == eval_lin a rest + abs_score coef a vs + lp_const m /\
    objective m (tighten a vs) <= objective m a.
  Proof.
    intros Hc a Hf. split; [apply tighten_feasible; exact Hf|]. split; [apply tighten_objective|].
    rewrite tighten_objective. unfold objective. rewrite Hobj, eval_lin_app.
    destruct Hf as [_ Hr]. rewrite Hrows, Forall_app in Hr. destruct Hr as [_ Ha].
    pose proof (abssum_objective_lower coef a vs Hc Ha). lra.
  Qed.

  Theorem abssum_minimiser_tight : (forall v, In v vs -> 0 < coef v) -> forall a, feasible m a ->
    (forall a', feasible m a' -> objective m a <= objective m a') ->
    (forall v, In v vs -> a (abs_key v) == Qabs (a v)) /\
    objective m a == eval_lin a rest + abs_score coef a vs + lp_const m.
  Proof.
    intros Hc a Hf Hopt.
    assert (Hc0 : forall v, In v vs -> 0 <= coef v) by (intros v Hv; specialize (Hc v Hv); lra).
    destruct (abssum_objective_identity Hc0 a Hf) as (Hf' & Ho & Hle).
    specialize (Hopt _ Hf'). rewrite Ho in Hopt, Hle.
    pose proof Hf as [_ Hr]. rewrite Hrows, Forall_app in Hr. destruct Hr as [_ Ha].
    assert (Hobj_a : objective m a == eval_lin a rest + eval_lin a (abssum_lin coef vs) + lp_const m)
      by (unfold objective; rewrite Hobj, eval_lin_app; reflexivity).
    split.
    - apply (abssum_tight coef a vs Hc Ha). lra.
    - lra.
  Qed.
End AbssumModel.
