(* VcfInProofs.v — lemmas and theorems about the VCF input model (C16). *)
From Coq Require Import String.
From Coq Require Import ZifyBool.
From Aldy Require Import Base Consts Pileup PileupProofs VcfIn.
Import List.
Open Scope Z_scope.

(* ================================================================== constants *)
Lemma consts_ok_vals c : vcf_consts_ok c = true -> 0 < alt_n c /\ ref_n c = 2 * alt_n c.
Proof.
  unfold vcf_consts_ok, alt_n, ref_n. destruct (c_vcf_reads c) as [|a [|r [|? ?]]]; try discriminate. simpl. lia.
Qed.

(* ================================================================== uses of a record list *)
Lemma uses_app g a b : uses g (a ++ b) = uses g a ++ uses g b.
Proof. unfold uses. apply flat_map_app. Qed.
Lemma uses_cons g r rs : uses g (r :: rs) = record_uses g r ++ uses g rs.
Proof. reflexivity. Qed.
Lemma uses_mid g pre r post : uses g (pre ++ r :: post) = uses g pre ++ record_uses g r ++ uses g post.
Proof. rewrite uses_app, uses_cons. reflexivity. Qed.

Lemma n_sub_app a b k : n_sub (a ++ b) k = n_sub a k + n_sub b k. Proof. apply count_app. Qed.
Lemma n_ins_app a b k : n_ins (a ++ b) k = n_ins a k + n_ins b k. Proof. apply count_app. Qed.
Lemma n_at_app a b p : n_at (a ++ b) p = n_at a p + n_at b p. Proof. apply count_app. Qed.
Lemma n_sub_nonneg us k : 0 <= n_sub us k. Proof. apply count_nonneg. Qed.
Lemma n_at_nonneg us p : 0 <= n_at us p. Proof. apply count_nonneg. Qed.

Lemma count_le_impl {A} (f h : A -> bool) l : (forall a, f a = true -> h a = true) -> count f l <= count h l.
Proof.
  intros H. induction l as [|a l IH]; [reflexivity|]. rewrite !count_cons.
  destruct (f a) eqn:E; [rewrite (H a E); lia | destruct (h a); lia].
Qed.

Lemma n_sub_le_at us k : n_sub us k <= n_at us (fst k).
Proof.
  apply count_le_impl. intros [k'|k'|k'] H; try discriminate;
    (destruct (key_eqb_spec k k') as [->|]; [apply Z.eqb_refl | discriminate]).
Qed.

(* ================================================================== records that are ignored *)
Lemma unusable_no_uses g r : usable g r = false -> record_uses g r = [].
Proof. unfold record_uses. intros H. destruct (diploid r) as [[a b]|]; [rewrite H|]; reflexivity. Qed.

Lemma not_diploid_unusable g r : diploid r = None -> usable g r = false.
Proof. unfold usable. intros ->. reflexivity. Qed.

Lemma n_position_unusable g r : base g (v_pos r - 1) = 78 -> usable g r = false.
Proof. unfold usable. intros ->. destruct (diploid r); reflexivity. Qed.

(* an alternate allele that is neither a same-length replacement nor a pure left-anchored insertion / deletion *)
Definition other_shape (ref alt : str) : bool :=
  let zo := Z.of_nat (prefix_len ref alt) in
  negb (length ref =? length alt)%nat &&
  negb ((zlen alt <? zlen ref) && (zlen alt - zo =? 0) && (0 <? zo)) &&
  negb ((zlen ref <? zlen alt) && (zlen ref - zo =? 0) && (0 <? zo)).
Lemma other_shape_no_uses g pos ref alt : other_shape ref alt = true -> alt_uses g pos ref alt = [].
Proof.
  unfold other_shape, alt_uses. intros H. apply andb_true_iff in H. destruct H as [H H3]. apply andb_true_iff in H. destruct H as [H1 H2].
  apply negb_true_iff in H1, H2, H3. rewrite H1, H2, H3. reflexivity.
Qed.
(* a multi-base replacement that is not a catalogued multi-substitution *)
Lemma uncatalogued_mnp_no_uses g pos ref alt : length ref = length alt -> (2 <= length alt)%nat -> padded_sub ref alt = false ->
  mnp_catalogued g (subs_of g pos alt) = false -> alt_uses g pos ref alt = [].
Proof.
  unfold alt_uses. intros H1 H2 HP H3. rewrite H1, Nat.eqb_refl, H3, HP.
  replace (length alt <=? 1)%nat with false by (symmetry; apply Nat.leb_gt; lia). reflexivity.
Qed.

Definition same_evidence (g : gview) (c : consts) (rs rs' : list vrec) : Prop :=
  forall k, fixed_coverage g c rs k = fixed_coverage g c rs' k /\ fixed_total g c rs k = fixed_total g c rs' k.

Lemma same_uses_same_evidence g c rs rs' : uses g rs = uses g rs' -> same_evidence g c rs rs'.
Proof.
  intros H k. unfold fixed_coverage, fixed_total, fixed_ref, fixed_support. rewrite H. split; reflexivity.
Qed.

(* non-diploid / missing genotypes, records on an N position, and records all of whose alleles in use have another shape
   change nothing *)
Theorem vcf_ignored_shapes g c pre r post : record_uses g r = [] -> same_evidence g c (pre ++ r :: post) (pre ++ post).
Proof. intros H. apply same_uses_same_evidence. rewrite uses_mid, H, uses_app. reflexivity. Qed.

Lemma gt_filter_len r : match flat_map (fun o => match o with Some z => [z] | None => [] end) (v_gt r) with [_; _] => False | _ => True end ->
  diploid r = None.
Proof. unfold diploid. destruct (flat_map _ (v_gt r)) as [|a [|b [|? ?]]]; intros H; try reflexivity. contradiction. Qed.

(* ================================================================== plain keys: support and reference *)
Definition plain (g : gview) (k : key) : Prop :=
  is_ins (snd k) = false /\ str_eqb (snd k) ref_op = false /\
  find (fun m => key_eqb (multi_key m) k) (g_all_multi g) = None /\ comp_of g k = None.

Theorem fixed_plain_support g c rs k : plain g k -> fixed_coverage g c rs k = alt_n c * n_sub (uses g rs) k.
Proof. intros (H1 & H2 & H3 & H4). unfold fixed_coverage, fixed_support. rewrite H2, H1, H3, H4. reflexivity. Qed.

Theorem fixed_reference g c rs p : in_range g p = true -> later_comp_at g p = None ->
  fixed_coverage g c rs (p, ref_op) = Z.max 0 (ref_n c - alt_n c * n_at (uses g rs) p).
Proof. intros H1 H2. unfold fixed_coverage, fixed_ref. cbn [fst snd]. rewrite str_eqb_refl, H1, H2. cbv iota. apply Z.add_0_r. Qed.

Theorem fixed_ins_support g c rs p x :
  fixed_coverage g c rs (p, ins_op x) = alt_n c * n_ins (uses g rs) (p, ins_op x) /\
  (in_range g p = true -> fixed_total g c rs (p, ins_op x) = ref_n c).
Proof.
  unfold fixed_coverage, fixed_support, fixed_total. cbn [fst snd]. rewrite is_ins_ins.
  replace (str_eqb (ins_op x) ref_op) with false by reflexivity. split; [reflexivity | intros ->; reflexivity].
Qed.

(* sites without a record count as homozygous reference *)
Theorem vcf_absent_is_ref g c rs p : in_range g p = true -> later_comp_at g p = None -> n_at (uses g rs) p = 0 ->
  fixed_coverage g c rs (p, ref_op) = Z.max 0 (ref_n c) /\
  (forall op, plain g (p, op) -> fixed_coverage g c rs (p, op) = 0) /\
  (forall x, n_ins (uses g rs) (p, ins_op x) = 0 -> fixed_coverage g c rs (p, ins_op x) = 0).
Proof.
  intros H1 H2 H3. split; [|split].
  - rewrite fixed_reference by assumption. rewrite H3, Z.mul_0_r, Z.sub_0_r. reflexivity.
  - intros op P. rewrite fixed_plain_support by exact P.
    pose proof (n_sub_le_at (uses g rs) (p, op)) as L. pose proof (n_sub_nonneg (uses g rs) (p, op)). cbn [fst] in L. rewrite H3 in L.
    assert (E : n_sub (uses g rs) (p, op) = 0) by (apply Z.le_antisymm; assumption). rewrite E. apply Z.mul_0_r.
  - intros x H. destruct (fixed_ins_support g c rs p x) as [E _]. rewrite E, H. apply Z.mul_0_r.
Qed.

(* ================================================================== one record among others *)
Lemma arith_ref a r n : 0 < a -> r = 2 * a -> 0 <= n <= 2 -> Z.max 0 (r - a * n) = r - a * n.
Proof. intros. nia. Qed.

Lemma zero_from_at us k : n_at us (fst k) = 0 -> n_sub us k = 0.
Proof. intros H. pose proof (n_sub_le_at us k) as L. pose proof (n_sub_nonneg us k). rewrite H in L. apply Z.le_antisymm; assumption. Qed.

(* a record that uses a plain key n times, t uses at the site in total, nothing else at the site *)
Theorem support_single g c pre r post k n t : vcf_consts_ok c = true -> plain g k ->
  in_range g (fst k) = true -> later_comp_at g (fst k) = None -> n_at (uses g (pre ++ post)) (fst k) = 0 ->
  n_sub (record_uses g r) k = n -> n_at (record_uses g r) (fst k) = t -> 0 <= t <= 2 ->
  fixed_coverage g c (pre ++ r :: post) k = alt_n c * n /\
  fixed_coverage g c (pre ++ r :: post) (fst k, ref_op) = ref_n c - alt_n c * t.
Proof.
  intros C P R L Z0 N T B. destruct (consts_ok_vals c C) as [A1 A2].
  rewrite uses_app, n_at_app in Z0.
  assert (Z1 : n_at (uses g pre) (fst k) = 0) by (pose proof (n_at_nonneg (uses g pre) (fst k)); pose proof (n_at_nonneg (uses g post) (fst k)); generalize dependent (n_at (uses g pre) (fst k)); generalize dependent (n_at (uses g post) (fst k)); intros; lia).
  assert (Z2 : n_at (uses g post) (fst k) = 0) by (rewrite Z1 in Z0; exact Z0).
  split.
  - rewrite fixed_plain_support by exact P. rewrite uses_mid, !n_sub_app, N, (zero_from_at _ k Z1), (zero_from_at _ k Z2).
    f_equal. apply Z.add_0_r.
  - rewrite fixed_reference by assumption. rewrite uses_mid, !n_at_app, T, Z1, Z2, Z.add_0_l, Z.add_0_r.
    apply arith_ref; assumption.
Qed.

Theorem support_single_ins g c pre r post p x n : in_range g p = true ->
  n_ins (uses g (pre ++ post)) (p, ins_op x) = 0 -> n_ins (record_uses g r) (p, ins_op x) = n ->
  fixed_coverage g c (pre ++ r :: post) (p, ins_op x) = alt_n c * n /\
  fixed_total g c (pre ++ r :: post) (p, ins_op x) - fixed_coverage g c (pre ++ r :: post) (p, ins_op x) = ref_n c - alt_n c * n.
Proof.
  intros R Z0 N. destruct (fixed_ins_support g c (pre ++ r :: post) p x) as [E1 E2]. rewrite E1, (E2 R).
  rewrite uses_mid, !n_ins_app, N. rewrite uses_app, n_ins_app in Z0.
  assert (Z1 : n_ins (uses g pre) (p, ins_op x) = 0 /\ n_ins (uses g post) (p, ins_op x) = 0).
  { pose proof (count_nonneg (fun u => match u with UIns k' => key_eqb (p, ins_op x) k' | _ => false end) (uses g pre)).
    pose proof (count_nonneg (fun u => match u with UIns k' => key_eqb (p, ins_op x) k' | _ => false end) (uses g post)).
    unfold n_ins in *. generalize dependent (count (fun u => match u with UIns k' => key_eqb (p, ins_op x) k' | _ => false end) (uses g pre)).
    generalize dependent (count (fun u => match u with UIns k' => key_eqb (p, ins_op x) k' | _ => false end) (uses g post)). intros; lia. }
  destruct Z1 as [-> ->]. rewrite Z.add_0_l, Z.add_0_r. split; reflexivity.
Qed.

(* ================================================================== what the standard records use *)
Definition gt2 (a b : Z) : list (option Z) := [Some a; Some b].
Definition rec_sub (g : gview) (p b : Z) (gt : list (option Z)) : vrec := mk_vrec (p + 1) [base g p] [[b]] gt.
Definition rec_sub2 (g : gview) (p b1 b2 : Z) (gt : list (option Z)) : vrec := mk_vrec (p + 1) [base g p] [[b1]; [b2]] gt.
Definition rec_del (g : gview) (p : Z) (n : nat) (gt : list (option Z)) : vrec :=
  mk_vrec p (base g (p - 1) :: gslice g p n) [[base g (p - 1)]] gt.
Definition rec_ins (g : gview) (p : Z) (x : str) (gt : list (option Z)) : vrec := mk_vrec (p + 1) [base g p] [base g p :: x] gt.

Lemma diploid_gt2 pos ref alts a b : diploid (mk_vrec pos ref alts (gt2 a b)) = Some (Z.min a b, Z.max a b).
Proof. reflexivity. Qed.

Definition uses01 (u : list ause) (a : Z) : list ause := if a =? 1 then u else [].

Lemma record_uses_01 g pos ref alt a b : (a = 0 \/ a = 1) -> (b = 0 \/ b = 1) -> base g (pos - 1) <> 78 ->
  allele_uses g (mk_vrec pos ref [alt] (gt2 a b)) 0 = [] ->
  exists u, allele_uses g (mk_vrec pos ref [alt] (gt2 a b)) 1 = u /\
            (record_uses g (mk_vrec pos ref [alt] (gt2 a b)) = uses01 u a ++ uses01 u b \/
             record_uses g (mk_vrec pos ref [alt] (gt2 a b)) = uses01 u b ++ uses01 u a).
Proof.
  intros Ha Hb HN H0. eexists. split; [reflexivity|]. unfold record_uses. rewrite diploid_gt2.
  unfold usable. rewrite diploid_gt2. cbn [v_pos mk_vrec]. replace (base g (pos - 1) =? 78) with false by (symmetry; apply Z.eqb_neq; exact HN).
  cbn [negb]. destruct Ha as [-> | ->], Hb as [-> | ->]; cbn [Z.min Z.max Z.compare uses01 Z.eqb Pos.eqb]; rewrite ?H0; first [left; reflexivity | right; reflexivity].
Qed.

Lemma count_uses01 (f : ause -> bool) u a b : (a = 0 \/ a = 1) -> (b = 0 \/ b = 1) -> count f u = 1 ->
  count f (uses01 u a ++ uses01 u b) = a + b /\ count f (uses01 u b ++ uses01 u a) = a + b.
Proof.
  intros Ha Hb H. rewrite !count_app. destruct Ha as [-> | ->], Hb as [-> | ->]; cbn [uses01 Z.eqb Pos.eqb]; rewrite ?H, ?count_nil; split; reflexivity.
Qed.

(* substitution record: POS = p+1, REF = the gene's base, ALT = b *)
Lemma rec_sub_allele0 g p b gt : allele_uses g (rec_sub g p b gt) 0 = [].
Proof.
  unfold allele_uses, rec_sub. cbn [v_pos v_ref mk_vrec Z.eqb subs_of map app]. replace (p + 1 - 1) with p by lia.
  rewrite Z.eqb_refl. reflexivity.
Qed.
Lemma rec_sub_allele1 g p b gt : base g p <> 78 -> b <> base g p ->
  allele_uses g (rec_sub g p b gt) 1 = [USub (p, sub_op (base g p) b)].
Proof.
  intros HN Hb. unfold allele_uses, rec_sub. cbn [v_pos v_ref v_alts mk_vrec]. change (1 =? 0) with false. cbv iota.
  change (Z.to_nat (1 - 1)) with O. cbn [nth_error].
  replace (p + 1 - 1) with p by lia. unfold alt_uses. cbn [length Nat.eqb Nat.leb orb subs_of app map].
  replace (b =? base g p) with false by (symmetry; apply Z.eqb_neq; exact Hb).
  replace (base g p =? 78) with false by (symmetry; apply Z.eqb_neq; exact HN). reflexivity.
Qed.

Lemma key_count_single k : count (fun u => match u with USub k' | UDel k' => key_eqb k k' | UIns _ => false end) [USub k] = 1.
Proof. rewrite count_single, key_eqb_refl. reflexivity. Qed.

Lemma count_eq_list {A} (f : A -> bool) (l l' : list A) n : l = l' -> count f l' = n -> count f l = n.
Proof. intros ->. auto. Qed.

Theorem vcf_support_sub g c pre post p b a1 a2 : vcf_consts_ok c = true ->
  (a1 = 0 \/ a1 = 1) -> (a2 = 0 \/ a2 = 1) -> base g p <> 78 -> b <> base g p ->
  plain g (p, sub_op (base g p) b) -> in_range g p = true -> later_comp_at g p = None -> n_at (uses g (pre ++ post)) p = 0 ->
  let rs := pre ++ rec_sub g p b (gt2 a1 a2) :: post in
  fixed_coverage g c rs (p, sub_op (base g p) b) = alt_n c * (a1 + a2) /\
  fixed_coverage g c rs (p, ref_op) = ref_n c - alt_n c * (a1 + a2).
Proof.
  intros C H1 H2 HN Hb P R L Z0 rs.
  assert (HN' : base g (p + 1 - 1) <> 78) by (replace (p + 1 - 1) with p by lia; exact HN).
  destruct (record_uses_01 g (p + 1) [base g p] [b] a1 a2 H1 H2 HN' (rec_sub_allele0 g p b _)) as (u & Hu & Hr).
  pose proof (rec_sub_allele1 g p b (gt2 a1 a2) HN Hb) as A1. unfold rec_sub in A1.
  assert (Eu : u = [USub (p, sub_op (base g p) b)]) by (rewrite <- Hu; exact A1). clear Hu. subst u.
  unfold rs, rec_sub.
  apply (support_single g c pre _ post (p, sub_op (base g p) b) (a1 + a2) (a1 + a2)); try assumption.
  - unfold n_sub. destruct Hr as [Hr|Hr]; (eapply count_eq_list; [exact Hr|]); apply count_uses01; try assumption; apply key_count_single.
  - unfold n_at. cbn [fst]. destruct Hr as [Hr|Hr]; (eapply count_eq_list; [exact Hr|]); apply count_uses01; try assumption;
      rewrite count_single; cbn [fst]; rewrite Z.eqb_refl; reflexivity.
  - destruct H1 as [-> | ->], H2 as [-> | ->]; lia.
Qed.

(* deletion record for the catalogued (p, del X): POS = p (the base before), REF = that base ++ X, ALT = that base *)
Lemma gslice_length g p n : length (gslice g p n) = n.
Proof. unfold gslice. rewrite map_length. revert p. induction n; intros; simpl; [reflexivity | rewrite IHn; reflexivity]. Qed.

Lemma rec_del_allele0 g p n gt : allele_uses g (rec_del g p (S n) gt) 0 = [].
Proof. unfold allele_uses, rec_del. cbn [v_pos v_ref mk_vrec]. change (0 =? 0) with true. cbv iota. unfold gslice. cbn [zseq map]. reflexivity. Qed.

Lemma rec_del_allele1 g p n gt :
  allele_uses g (rec_del g p (S n) gt) 1 = [UDel (p, del_op (gslice g p (S n)))].
Proof.
  unfold allele_uses, rec_del. cbn [v_pos v_ref v_alts mk_vrec]. change (1 =? 0) with false. cbv iota.
  change (Z.to_nat (1 - 1)) with O. cbn [nth_error]. unfold alt_uses.
  assert (PL : prefix_len (base g (p - 1) :: gslice g p (S n)) [base g (p - 1)] = 1%nat).
  { cbn [prefix_len]. rewrite Z.eqb_refl. unfold gslice. cbn [zseq map prefix_len]. reflexivity. }
  rewrite PL. unfold zlen. cbn [length]. rewrite gslice_length.
  replace (S (S n) =? 1)%nat with false by reflexivity.
  replace ((Z.of_nat 1 <? Z.of_nat (S (S n))) && (Z.of_nat 1 - Z.of_nat 1 =? 0) && (0 <? Z.of_nat 1)) with true by (symmetry; lia).
  replace (Z.of_nat 1 + (p - 1)) with p by lia. replace (Z.to_nat (Z.of_nat (S (S n)) - Z.of_nat 1)) with (S n) by lia. reflexivity.
Qed.

Theorem vcf_support_del g c pre post p n a1 a2 : vcf_consts_ok c = true ->
  (a1 = 0 \/ a1 = 1) -> (a2 = 0 \/ a2 = 1) -> base g (p - 1) <> 78 ->
  plain g (p, del_op (gslice g p (S n))) -> in_range g p = true -> later_comp_at g p = None -> n_at (uses g (pre ++ post)) p = 0 ->
  let rs := pre ++ rec_del g p (S n) (gt2 a1 a2) :: post in
  fixed_coverage g c rs (p, del_op (gslice g p (S n))) = alt_n c * (a1 + a2) /\
  fixed_coverage g c rs (p, ref_op) = ref_n c - alt_n c * (a1 + a2).
Proof.
  intros C H1 H2 HN P R L Z0 rs.
  destruct (record_uses_01 g p (base g (p - 1) :: gslice g p (S n)) [base g (p - 1)] a1 a2 H1 H2 HN (rec_del_allele0 g p n _)) as (u & Hu & Hr).
  pose proof (rec_del_allele1 g p n (gt2 a1 a2)) as A1. unfold rec_del in A1.
  assert (Eu : u = [UDel (p, del_op (gslice g p (S n)))]) by (rewrite <- Hu; exact A1). clear Hu. subst u.
  unfold rs, rec_del.
  apply (support_single g c pre _ post (p, del_op (gslice g p (S n))) (a1 + a2) (a1 + a2)); try assumption.
  - unfold n_sub. destruct Hr as [Hr|Hr]; (eapply count_eq_list; [exact Hr|]); apply count_uses01; try assumption;
      rewrite count_single, key_eqb_refl; reflexivity.
  - unfold n_at. cbn [fst]. destruct Hr as [Hr|Hr]; (eapply count_eq_list; [exact Hr|]); apply count_uses01; try assumption;
      rewrite count_single; cbn [fst]; rewrite Z.eqb_refl; reflexivity.
  - destruct H1 as [-> | ->], H2 as [-> | ->]; lia.
Qed.

(* insertion record for the catalogued (p, ins X) = X inserted AFTER base p: POS = p+1, REF = base p, ALT = base p ++ X *)
Lemma rec_ins_allele0 g p x gt : allele_uses g (rec_ins g p x gt) 0 = [].
Proof.
  unfold allele_uses, rec_ins. cbn [v_pos v_ref mk_vrec]. change (0 =? 0) with true. cbv iota. cbn [subs_of map app].
  replace (p + 1 - 1) with p by lia. rewrite Z.eqb_refl. reflexivity.
Qed.
Lemma rec_ins_allele1 g p y x gt : allele_uses g (rec_ins g p (y :: x) gt) 1 = [UIns (p, ins_op (y :: x))].
Proof.
  unfold allele_uses, rec_ins. cbn [v_pos v_ref v_alts mk_vrec]. change (1 =? 0) with false. cbv iota.
  change (Z.to_nat (1 - 1)) with O. cbn [nth_error]. unfold alt_uses. cbn [prefix_len]. rewrite Z.eqb_refl.
  unfold zlen. cbn [length]. replace (1 =? S (S (length x)))%nat with false by reflexivity.
  replace ((Z.of_nat (S (S (length x))) <? Z.of_nat 1) && (Z.of_nat (S (S (length x))) - Z.of_nat 1 =? 0) && (0 <? Z.of_nat 1)) with false by (symmetry; lia).
  replace ((Z.of_nat 1 <? Z.of_nat (S (S (length x)))) && (Z.of_nat 1 - Z.of_nat 1 =? 0) && (0 <? Z.of_nat 1)) with true by (symmetry; lia).
  cbn [skipn]. replace (Z.of_nat 1 + (p + 1 - 1) - 1) with p by lia. reflexivity.
Qed.

Theorem vcf_support_ins g c pre post p y x a1 a2 :
  (a1 = 0 \/ a1 = 1) -> (a2 = 0 \/ a2 = 1) -> base g p <> 78 -> in_range g p = true ->
  n_ins (uses g (pre ++ post)) (p, ins_op (y :: x)) = 0 ->
  let rs := pre ++ rec_ins g p (y :: x) (gt2 a1 a2) :: post in
  fixed_coverage g c rs (p, ins_op (y :: x)) = alt_n c * (a1 + a2) /\
  fixed_total g c rs (p, ins_op (y :: x)) - fixed_coverage g c rs (p, ins_op (y :: x)) = ref_n c - alt_n c * (a1 + a2).
Proof.
  intros H1 H2 HN R Z0 rs.
  assert (HN' : base g (p + 1 - 1) <> 78) by (replace (p + 1 - 1) with p by lia; exact HN).
  destruct (record_uses_01 g (p + 1) [base g p] (base g p :: y :: x) a1 a2 H1 H2 HN' (rec_ins_allele0 g p (y :: x) _)) as (u & Hu & Hr).
  pose proof (rec_ins_allele1 g p y x (gt2 a1 a2)) as A1. unfold rec_ins in A1.
  assert (Eu : u = [UIns (p, ins_op (y :: x))]) by (rewrite <- Hu; exact A1). clear Hu. subst u.
  unfold rs, rec_ins. apply support_single_ins; try assumption.
  unfold n_ins. destruct Hr as [Hr|Hr]; (eapply count_eq_list; [exact Hr|]); apply count_uses01; try assumption;
    rewrite count_single, key_eqb_refl; reflexivity.
Qed.

(* ================================================================== multi-substitutions, however they are written *)
Lemma fold_min_const n l : (forall x, In x l -> x = n) -> fold_left Z.min l n = n.
Proof. induction l as [|y l IH]; intros H; [reflexivity|]. cbn [fold_left]. rewrite (H y) by (left; reflexivity). rewrite Z.min_id. apply IH. intros x Hx. apply H. right. exact Hx. Qed.

Lemma multi_copies_const us m n : comps m <> [] -> (forall ck, In ck (comps m) -> n_sub us (snd ck) = n) -> multi_copies us m = n.
Proof.
  intros NE H. unfold multi_copies. destruct (comps m) as [|ck cs] eqn:E; [contradiction|]. cbn [map].
  rewrite (H ck) by (left; reflexivity). apply fold_min_const. intros x Hx. apply in_map_iff in Hx. destruct Hx as (ck' & <- & Hck').
  apply H. right. exact Hck'.
Qed.

Definition multi_key_ok (g : gview) (m : Z * (str * str)) : Prop :=
  is_ins (snd (multi_key m)) = false /\ str_eqb (snd (multi_key m)) ref_op = false /\
  find (fun m' => key_eqb (multi_key m') (multi_key m)) (g_all_multi g) = Some m /\ comps m <> [].

(* if every component of a catalogued multi-substitution m is used n times (one MNP record, or adjacent records), then m gets
   n copies' worth of support, its components keep none, the first position loses reference support like a substitution and
   the later positions keep full depth *)
Theorem vcf_support_mnp g c rs m n : multi_key_ok g m ->
  (forall ck, In ck (comps m) -> n_sub (uses g rs) (snd ck) = n) ->
  fixed_coverage g c rs (multi_key m) = alt_n c * n /\
  (forall ck, In ck (comps m) -> is_ins (snd (snd ck)) = false -> str_eqb (snd (snd ck)) ref_op = false ->
     find (fun m' => key_eqb (multi_key m') (snd ck)) (g_all_multi g) = None ->
     (exists i, comp_of g (snd ck) = Some (i, m)) -> fixed_coverage g c rs (snd ck) = 0) /\
  (forall p, in_range g p = true -> later_comp_at g p = Some m ->
     fixed_coverage g c rs (p, ref_op) = Z.max 0 (ref_n c - alt_n c * n_at (uses g rs) p) + alt_n c * n).
Proof.
  intros (K1 & K2 & K3 & K4) H. pose proof (multi_copies_const (uses g rs) m n K4 H) as MC. split; [|split].
  - unfold fixed_coverage, fixed_support. rewrite K2, K1, K3, MC. reflexivity.
  - intros ck I A B F (i & Ci). unfold fixed_coverage, fixed_support. rewrite B, A, F, Ci, MC, (H ck I), Z.sub_diag. apply Z.mul_0_r.
  - intros p R L. unfold fixed_coverage, fixed_ref. cbn [fst snd]. rewrite str_eqb_refl, R, L, MC. reflexivity.
Qed.

(* ================================================================== REF differs from the gene's base: re-expressed against the gene *)
Definition rec_any (p x b : Z) (gt : list (option Z)) : vrec := mk_vrec (p + 1) [x] [[b]] gt.

Lemma rec_mismatch_allele0 g p x b gt : base g p <> 78 -> x <> base g p ->
  allele_uses g (rec_any p x b gt) 0 = [USub (p, sub_op (base g p) x)].
Proof.
  intros HN Hx. unfold allele_uses, rec_any. cbn [v_pos v_ref mk_vrec]. change (0 =? 0) with true. cbv iota. cbn [subs_of map app].
  replace (p + 1 - 1) with p by lia.
  replace (x =? base g p) with false by (symmetry; apply Z.eqb_neq; exact Hx).
  replace (base g p =? 78) with false by (symmetry; apply Z.eqb_neq; exact HN). reflexivity.
Qed.

(* a homozygous-"reference" call on a REF that is not the gene's base is two copies of the substitution gene>REF *)
Theorem vcf_ref_mismatch g c pre post p x b : vcf_consts_ok c = true -> base g p <> 78 -> x <> base g p ->
  plain g (p, sub_op (base g p) x) -> in_range g p = true -> later_comp_at g p = None -> n_at (uses g (pre ++ post)) p = 0 ->
  let rs := pre ++ rec_any p x b (gt2 0 0) :: post in
  fixed_coverage g c rs (p, sub_op (base g p) x) = alt_n c * 2 /\ fixed_coverage g c rs (p, ref_op) = ref_n c - alt_n c * 2.
Proof.
  intros C HN Hx P R L Z0 rs.
  assert (U : record_uses g (rec_any p x b (gt2 0 0)) = [USub (p, sub_op (base g p) x); USub (p, sub_op (base g p) x)]).
  { unfold record_uses, usable. unfold rec_any at 1 2 3. rewrite !diploid_gt2. cbn [v_pos mk_vrec Z.min Z.max Z.compare].
    replace (p + 1 - 1) with p by lia. replace (base g p =? 78) with false by (symmetry; apply Z.eqb_neq; exact HN). cbn [negb].
    rewrite rec_mismatch_allele0 by assumption. reflexivity. }
  apply (support_single g c pre _ post (p, sub_op (base g p) x) 2 2); try assumption; try lia.
  - rewrite U. unfold n_sub. rewrite !count_cons, count_nil, key_eqb_refl. reflexivity.
  - rewrite U. unfold n_at. rewrite !count_cons, count_nil. cbn [fst]. rewrite Z.eqb_refl. reflexivity.
Qed.

(* ================================================================== the repaired reader ignores what get_mut cannot express *)
Lemma multi_apply_empty g c st ms : fold_left (multi_apply g c []) ms st = st.
Proof. induction ms as [|m ms IH]; [reflexivity|]. cbn [fold_left]. unfold multi_apply at 2. unfold multi_hit. cbn [amem alookup andb]. exact IH. Qed.

Definition ignorable (o : option str) : bool := match o with None => true | Some t => str_eqb t ref_op end.

Theorem repaired_ignores_none g c st r a b : diploid r = Some (a, b) ->
  ignorable (snd (nth (Z.to_nat a) (hgvs g r) (v_pos r - 1, None))) = true ->
  ignorable (snd (nth (Z.to_nat b) (hgvs g r) (v_pos r - 1, None))) = true ->
  shipped_record true g c st r = st.
Proof.
  intros D Ia Ib. unfold shipped_record. rewrite D. destruct (base g (v_pos r - 1) =? 78); [reflexivity|].
  cbn [fold_left]. unfold use_allele.
  assert (X : forall o, ignorable o = true -> is_ref_o o || (true && match o with None => true | Some _ => false end) = true).
  { intros [t|] H; simpl in *; [rewrite H|]; reflexivity. }
  rewrite (X _ Ia). cbn [fst snd]. rewrite (X _ Ib). apply multi_apply_empty.
Qed.

(* ================================================================== computed witnesses on a small gene view *)
(* lookup ACGTACGTACGTACGTACGT at 1000..1019; catalogued: AC>GT at 1004 (functional), ins TT after 1010; the indel table is truthy *)
Definition ex_v : gview := {| g_lo := 1000; g_seq := s "ACGTACGTACGTACGTACGT"; g_mapped := [(1000, 1020)]; g_wide := (1000, 1020);
  g_phaseable := [1004; 1010]; g_multi := [(1004, (s "AC", s "GT"))]; g_all_multi := [(1004, (s "AC", s "GT"))]; g_has_indels := true |}.
Definition ex_ins_het : vrec := mk_vrec 1011 (s "G") [s "GTT"] (gt2 0 1).
Definition ex_mnp_one : vrec := mk_vrec 1005 (s "AC") [s "GT"] (gt2 0 1).
Definition ex_mnp_adj : list vrec := [mk_vrec 1005 (s "A") [s "G"] (gt2 0 1); mk_vrec 1006 (s "C") [s "T"] (gt2 0 1)].
Definition ex_sub_het : vrec := mk_vrec 1003 (s "G") [s "A"] (gt2 1 0).

Definition shipped_cov (skipnone : bool) (g : gview) (c : consts) (rs : list vrec) (k : key) : option Z :=
  match shipped_table skipnone g c rs with VOk t => Some (shipped_coverage g c t k) | VCrash => None end.


Theorem ignored_kinds g r :
  (diploid r = None -> record_uses g r = []) /\ (base g (v_pos r - 1) = 78 -> record_uses g r = []) /\
  (forall pos ref alt, other_shape ref alt = true -> alt_uses g pos ref alt = []) /\
  (forall pos ref alt, length ref = length alt -> (2 <= length alt)%nat -> padded_sub ref alt = false ->
     mnp_catalogued g (subs_of g pos alt) = false -> alt_uses g pos ref alt = []).
Proof.
  split; [intros H; apply unusable_no_uses, not_diploid_unusable, H|].
  split; [intros H; apply unusable_no_uses, n_position_unusable, H|].
  split; [intros; apply other_shape_no_uses; assumption | intros; apply uncatalogued_mnp_no_uses; assumption].
Qed.
