(* NormClipProofs.v — operations that neither count nor advance (soft clip S, hard clip H, insertion I, padding P: every code
   outside M/=/X/D) do not influence the depth tables aldy normalises with: a read contributes the same positions with or
   without them, wherever they stand in its CIGAR.  For all read lists; hence the same neutral depth, region sums and
   normalised vector (C07: a hard-clipped record in the neutral region counts like any aligned read). *)
From Aldy Require Import Base Norm.
Import List. Import ListNotations.
Open Scope Z_scope.

Definition strip (cg : cigar) : cigar := filter (fun on => counted (fst on)) cg.
Definition strip_read (r : read) : read := {| rd_start := rd_start r; rd_cigar := strip (rd_cigar r) |}.

Lemma walk_strip : forall cg start, walk start (strip cg) = walk start cg.
Proof.
  induction cg as [|[op n] t IH]; intros start; [reflexivity|].
  cbn [strip filter fst]. destruct (counted op) eqn:E; cbn [walk]; rewrite E.
  - f_equal. apply IH.
  - apply IH.
Qed.

Theorem pileup_strip : forall reads, pileup (map strip_read reads) = pileup reads.
Proof.
  induction reads as [|r t IH]; [reflexivity|].
  unfold pileup in *. cbn [map flat_map]. rewrite IH. f_equal. unfold strip_read. cbn [rd_start rd_cigar]. apply walk_strip.
Qed.

(* inserting uncounted operations anywhere: two CIGARs with the same counted operations in the same order walk alike *)
Theorem walk_same_counted : forall cg1 cg2 start, strip cg1 = strip cg2 -> walk start cg1 = walk start cg2.
Proof. intros cg1 cg2 start E. rewrite <- (walk_strip cg1), <- (walk_strip cg2), E. reflexivity. Qed.

Theorem normalize_strip : forall nv regions cn rg rn,
  normalize nv regions cn (pileup (map strip_read rg)) (pileup (map strip_read rn)) = normalize nv regions cn (pileup rg) (pileup rn).
Proof. intros. rewrite !pileup_strip. reflexivity. Qed.

(* non-vacuity: 5H 10M 3I 4S 2D 5H at 100 walks like 10M 2D *)
Example clip_example : walk 100 [(5, 5); (0, 10); (1, 3); (4, 4); (2, 2); (5, 5)] = walk 100 [(0, 10); (2, 2)] /\
  length (walk 100 [(5, 5); (0, 10); (1, 3); (4, 4); (2, 2); (5, 5)]) = 12%nat.
Proof. vm_compute. split; reflexivity. Qed.
