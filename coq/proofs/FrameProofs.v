(* FrameProofs.v — frame theorem for the heap model, set-order invariance, candidate-pool statements (C14). *)
From Coq Require Import String Permutation.
From Aldy Require Import Base Consts Frame.
Import List.
Open Scope Z_scope.

(* ---------- association lists keyed by Z ---------- *)
Section ZA.
  Context {V : Type}.
  Implicit Types (d : list (Z * V)).
  Lemma zlookup_aset_same k v d : alookup Z.eqb k (aset Z.eqb k v d) = Some v.
  Proof.
    induction d as [|[k' w] d IH]; cbn [aset alookup].
    - rewrite Z.eqb_refl. reflexivity.
    - destruct (k =? k') eqn:E; cbn [alookup]; rewrite E; [reflexivity|exact IH].
  Qed.
  Lemma zlookup_aset_other k k' v d : k <> k' -> alookup Z.eqb k' (aset Z.eqb k v d) = alookup Z.eqb k' d.
  Proof.
    intros N. induction d as [|[k0 w] d IH]; cbn [aset alookup].
    - destruct (k' =? k) eqn:E; [apply Z.eqb_eq in E; congruence|reflexivity].
    - destruct (k =? k0) eqn:E; cbn [alookup].
      + apply Z.eqb_eq in E. subst k0. destruct (k' =? k) eqn:E2; [apply Z.eqb_eq in E2; congruence|reflexivity].
      + destruct (k' =? k0); [reflexivity|exact IH].
  Qed.
End ZA.

(* ---------- ownership ---------- *)
Lemma vmem_cons x y o : vmem x (y :: o) = (x =? y) || vmem x o.
Proof. reflexivity. Qed.
Lemma vmem_vremove x y o : vmem x (vremove y o) = true -> x <> y /\ vmem x o = true.
Proof.
  unfold vmem, vremove. intros H. apply existsb_exists in H as (z & Hz & E). apply Z.eqb_eq in E. subst z.
  apply filter_In in Hz as [Hi Hn]. split.
  - intros ->. rewrite Z.eqb_refl in Hn. discriminate.
  - apply existsb_exists. exists x. split; [exact Hi|apply Z.eqb_refl].
Qed.

Definition inv (n0 : loc) (o : list var) (st : state) : Prop :=
  n0 <= next st /\ forall x, vmem x o = true -> exists l, alookup Z.eqb x (env st) = Some l /\ n0 <= l.

Lemma write_frame st x c l n0 lx : alookup Z.eqb x (env st) = Some lx -> n0 <= lx -> l < n0 ->
  alookup Z.eqb l (heap (write st x c)) = alookup Z.eqb l (heap st).
Proof. intros E G L. unfold write. rewrite E. cbn [heap]. apply zlookup_aset_other. lia. Qed.
Lemma write_env st x c : env (write st x c) = env st /\ next (write st x c) = next st.
Proof. unfold write. destruct (alookup Z.eqb x (env st)); split; reflexivity. Qed.

Lemma inv_alloc n0 o st x c : inv n0 o st -> inv n0 (x :: o) (alloc st x c).
Proof.
  intros [N I]. split; [cbn [alloc next]; lia|]. intros y Hy. cbn [alloc env]. rewrite vmem_cons in Hy.
  destruct (y =? x) eqn:E.
  - apply Z.eqb_eq in E. subst y. exists (next st). rewrite zlookup_aset_same. split; [reflexivity|exact N].
  - cbn [orb] in Hy. destruct (I y Hy) as (l & El & Gl). exists l. rewrite zlookup_aset_other; [split; assumption|].
    intros ->. rewrite Z.eqb_refl in E. discriminate.
Qed.
Lemma alloc_frame n0 st x c l : n0 <= next st -> l < n0 -> alookup Z.eqb l (heap (alloc st x c)) = alookup Z.eqb l (heap st).
Proof. intros N L. cbn [alloc heap]. apply zlookup_aset_other. lia. Qed.

Lemma step_frame n0 o o' st i : safe_instr o i = Some o' -> inv n0 o st ->
  inv n0 o' (step st i) /\ forall l, l < n0 -> alookup Z.eqb l (heap (step st i)) = alookup Z.eqb l (heap st).
Proof.
  intros S I. destruct i as [x|x y|x y|x y|x y|x e|x e]; cbn [safe_instr step] in *.
  - injection S as <-. split; [apply inv_alloc; exact I|]. intros l L. apply (alloc_frame n0); [apply I|exact L].
  - injection S as <-. split; [apply inv_alloc; exact I|]. intros l L. apply (alloc_frame n0); [apply I|exact L].
  - injection S as <-. destruct I as [N I]. destruct (alookup Z.eqb y (env st)) as [ly|] eqn:Ey.
    + split; [|intros; reflexivity]. split; [exact N|]. cbn [env]. intros z Hz. destruct (vmem y o) eqn:Oy.
      * rewrite vmem_cons in Hz. destruct (z =? x) eqn:E.
        -- apply Z.eqb_eq in E. subst z. exists ly. rewrite zlookup_aset_same. split; [reflexivity|].
           destruct (I y Oy) as (l & El & Gl). congruence.
        -- cbn [orb] in Hz. destruct (I z Hz) as (l & El & Gl). exists l. rewrite zlookup_aset_other; [split; assumption|].
           intros ->. rewrite Z.eqb_refl in E. discriminate.
      * apply vmem_vremove in Hz as [Nz Hz]. destruct (I z Hz) as (l & El & Gl). exists l.
        rewrite zlookup_aset_other; [split; assumption|congruence].
    + split; [|intros; reflexivity]. split; [exact N|]. intros z Hz. destruct (vmem y o) eqn:Oy.
      * destruct (I y Oy) as (l & El & _). congruence.
      * apply vmem_vremove in Hz as [_ Hz]. exact (I z Hz).
  - destruct (vmem x o) eqn:Ox; [|discriminate]. injection S as <-. destruct I as [N I]. destruct (I x Ox) as (lx & Ex & Gx).
    split.
    + destruct (write_env st x (union (content st x) (content st y))) as [E1 E2]. split; [rewrite E2; exact N|]. rewrite E1. exact I.
    + intros l L. apply (write_frame st x _ l n0 lx); assumption.
  - destruct (vmem x o) eqn:Ox; [|discriminate]. injection S as <-. destruct I as [N I]. destruct (I x Ox) as (lx & Ex & Gx).
    split.
    + destruct (write_env st x (diff (content st x) (content st y))) as [E1 E2]. split; [rewrite E2; exact N|]. rewrite E1. exact I.
    + intros l L. apply (write_frame st x _ l n0 lx); assumption.
  - destruct (vmem x o) eqn:Ox; [|discriminate]. injection S as <-. destruct I as [N I]. destruct (I x Ox) as (lx & Ex & Gx).
    split.
    + destruct (write_env st x (union (content st x) [e])) as [E1 E2]. split; [rewrite E2; exact N|]. rewrite E1. exact I.
    + intros l L. apply (write_frame st x _ l n0 lx); assumption.
  - destruct (vmem x o) eqn:Ox; [|discriminate]. injection S as <-. destruct I as [N I]. destruct (I x Ox) as (lx & Ex & Gx).
    split.
    + destruct (write_env st x (diff (content st x) [e])) as [E1 E2]. split; [rewrite E2; exact N|]. rewrite E1. exact I.
    + intros l L. apply (write_frame st x _ l n0 lx); assumption.
Qed.

Lemma exec_frame n0 p : forall o o' st, safe_prog o p = Some o' -> inv n0 o st ->
  forall l, l < n0 -> alookup Z.eqb l (heap (exec p st)) = alookup Z.eqb l (heap st).
Proof.
  induction p as [|i p IH]; intros o o' st S I l L; [reflexivity|].
  cbn [safe_prog] in S. destruct (safe_instr o i) as [o1|] eqn:Si; [|discriminate].
  destruct (step_frame n0 o o1 st i Si I) as [I1 F1]. cbn [exec fold_left]. fold (exec p (step st i)).
  rewrite (IH o1 o' (step st i) S I1 l L). apply F1. exact L.
Qed.

(* FRAME: an operation whose program passes the ownership analysis leaves every location that existed before the call
   (in particular everything reachable from the loaded gene or sample) with exactly the contents it had *)
Theorem frame p st : is_safe p = true ->
  forall l, l < next st -> alookup Z.eqb l (heap (exec p st)) = alookup Z.eqb l (heap st).
Proof.
  unfold is_safe. destruct (safe_prog [] p) as [o'|] eqn:S; [|discriminate]. intros _ l L.
  apply (exec_frame (next st) p [] o' st S); [|exact L]. split; [lia|]. intros x Hx. discriminate.
Qed.

Lemma step_env st i x : target i <> Some x -> alookup Z.eqb x (env (step st i)) = alookup Z.eqb x (env st).
Proof.
  intros T. destruct i as [y|y z|y z|y z|y z|y e|y e]; cbn [step target] in *;
    try (apply zlookup_aset_other; congruence); try (apply (f_equal (alookup Z.eqb x)); apply write_env).
  destruct (alookup Z.eqb z (env st)); [|reflexivity]. cbn [env]. apply zlookup_aset_other. congruence.
Qed.
Lemma exec_env p : forall st x, x < 100 -> locals_only p = true -> alookup Z.eqb x (env (exec p st)) = alookup Z.eqb x (env st).
Proof.
  induction p as [|i p IH]; intros st x X L; [reflexivity|]. cbn [locals_only forallb] in L. apply andb_true_iff in L as [Li Lp].
  cbn [exec fold_left]. fold (exec p (step st i)). rewrite (IH (step st i) x X Lp). apply step_env.
  destruct (target i) as [y|]; [|discriminate]. apply Z.leb_le in Li. intros [= ->]. lia.
Qed.

(* contents of every root (catalogue / sample container) after the operation = before *)
Theorem roots_unchanged p st x l : is_safe p = true -> locals_only p = true -> x < 100 ->
  alookup Z.eqb x (env st) = Some l -> l < next st -> content (exec p st) x = content st x.
Proof.
  intros S L X E N. unfold content. rewrite (exec_env p st x X L), E. rewrite (frame p st S l N). reflexivity.
Qed.

Theorem all_ops_local : forall v, forallb (fun np => locals_only (snd np)) (ops v) = true.
Proof. intros []; vm_compute; reflexivity. Qed.

(* the variable bindings of the roots are not changed either, so the root CONTENTS are unchanged; stated for the roots of a
   loaded state: locals are numbered >= 100 and the programs only bind locals *)
Theorem all_ops_safe : forallb (fun np => is_safe (snd np)) (ops AccFixed) = true.
Proof. vm_compute. reflexivity. Qed.

Theorem frame_all_ops name p st : In (name, p) (ops AccFixed) ->
  forall l, l < next st -> alookup Z.eqb l (heap (exec p st)) = alookup Z.eqb l (heap st).
Proof.
  intros Hin. apply frame. pose proof all_ops_safe as A. rewrite forallb_forall in A. exact (A (name, p) Hin).
Qed.

(* every shipped operation except the allele variant accessor passes as well *)
Theorem shipped_ops_safe_except_mutations :
  forallb (fun np => is_safe (snd np) || str_eqb (fst np) (s "SolvedAllele.mutations")) (ops AccShipped) = true
  /\ is_safe (op_mutations AccShipped) = false.
Proof. split; vm_compute; reflexivity. Qed.

(* ---------- refutation: the shipped accessor rewrites the catalogue ---------- *)
Theorem frame_refuted :
  content catalogue_state r_func = [10] /\
  content (exec (op_mutations AccShipped) catalogue_state) r_func = [20; 30] /\
  content (exec (op_mutations AccFixed) catalogue_state) r_func = [10] /\
  content (exec (op_mutations AccFixed) catalogue_state) v_m = [20; 30].
Proof. vm_compute. repeat split. Qed.

(* ---------- set-order invariance ---------- *)
Lemma zmem_app e a b : zmem e (a ++ b) = zmem e a || zmem e b.
Proof. unfold zmem. apply existsb_app. Qed.
Lemma zmem_filter e f a : zmem e (filter f a) = zmem e a && f e.
Proof.
  unfold zmem. induction a as [|x a IH]; [reflexivity|]. cbn [filter]. destruct (f x) eqn:F; cbn [existsb]; rewrite IH.
  - destruct (e =? x) eqn:E; cbn [orb]; [|reflexivity]. apply Z.eqb_eq in E. subst x. rewrite F. destruct (existsb (Z.eqb e) a); reflexivity.
  - destruct (e =? x) eqn:E; cbn [orb]; [|reflexivity]. apply Z.eqb_eq in E. subst x. rewrite F. rewrite andb_false_r. reflexivity.
Qed.
Lemma zmem_union e a b : zmem e (union a b) = zmem e a || zmem e b.
Proof. unfold union. rewrite zmem_app, zmem_filter. destruct (zmem e a), (zmem e b); reflexivity. Qed.
Lemma zmem_diff e a b : zmem e (diff a b) = zmem e a && negb (zmem e b).
Proof. unfold diff. apply zmem_filter. Qed.

Lemma seteq_refl a : seteq a a. Proof. intros e. reflexivity. Qed.
Lemma seteq_union a a' b b' : seteq a a' -> seteq b b' -> seteq (union a b) (union a' b').
Proof. intros H1 H2 e. rewrite !zmem_union, H1, H2. reflexivity. Qed.
Lemma seteq_diff a a' b b' : seteq a a' -> seteq b b' -> seteq (diff a b) (diff a' b').
Proof. intros H1 H2 e. rewrite !zmem_diff, H1, H2. reflexivity. Qed.
Lemma perm_seteq a b : Permutation a b -> seteq a b.
Proof.
  intros P e. unfold zmem. destruct (existsb (Z.eqb e) a) eqn:A; symmetry.
  - apply existsb_exists in A as (x & Hx & E). apply existsb_exists. exists x. split; [eapply Permutation_in; eassumption|exact E].
  - destruct (existsb (Z.eqb e) b) eqn:B; [|reflexivity]. apply existsb_exists in B as (x & Hx & E).
    assert (existsb (Z.eqb e) a = true); [|congruence]. apply existsb_exists. exists x. split; [|exact E].
    eapply Permutation_in; [apply Permutation_sym; eassumption|exact Hx].
Qed.

Lemma heap_eq_aset h1 h2 l c1 c2 : heap_eq h1 h2 -> seteq c1 c2 -> heap_eq (aset Z.eqb l c1 h1) (aset Z.eqb l c2 h2).
Proof.
  intros H S l'. destruct (Z.eq_dec l l') as [<-|N].
  - rewrite !zlookup_aset_same. exact S.
  - rewrite !zlookup_aset_other by exact N. apply H.
Qed.
Lemma content_eq s1 s2 x : state_eq s1 s2 -> seteq (content s1 x) (content s2 x).
Proof.
  intros (E & _ & H). unfold content. rewrite E. destruct (alookup Z.eqb x (env s2)) as [l|]; [|apply seteq_refl].
  specialize (H l). destruct (alookup Z.eqb l (heap s1)), (alookup Z.eqb l (heap s2)); try contradiction; [exact H|apply seteq_refl].
Qed.
Lemma write_eq s1 s2 x c1 c2 : state_eq s1 s2 -> seteq c1 c2 -> state_eq (write s1 x c1) (write s2 x c2).
Proof.
  intros (E & N & H) S. unfold write. rewrite E. destruct (alookup Z.eqb x (env s2)) as [l|].
  - repeat split; cbn [env next heap]; try assumption. apply heap_eq_aset; assumption.
  - repeat split; assumption.
Qed.
Lemma alloc_eq s1 s2 x c1 c2 : state_eq s1 s2 -> seteq c1 c2 -> state_eq (alloc s1 x c1) (alloc s2 x c2).
Proof.
  intros (E & N & H) S. unfold alloc. rewrite E, N. repeat split; cbn [env next heap]. apply heap_eq_aset; assumption.
Qed.
Lemma step_eq s1 s2 i : state_eq s1 s2 -> state_eq (step s1 i) (step s2 i).
Proof.
  intros H. pose proof (content_eq s1 s2) as C. destruct i as [x|x y|x y|x y|x y|x e|x e]; cbn [step].
  - apply alloc_eq; [exact H|apply seteq_refl].
  - apply alloc_eq; [exact H|apply C; exact H].
  - destruct H as (E & N & Hh). rewrite E. destruct (alookup Z.eqb y (env s2)); repeat split; cbn [env next heap]; try assumption; try reflexivity.
  - apply write_eq; [exact H|]. apply seteq_union; apply C; exact H.
  - apply write_eq; [exact H|]. apply seteq_diff; apply C; exact H.
  - apply write_eq; [exact H|]. apply seteq_union; [apply C; exact H|apply seteq_refl].
  - apply write_eq; [exact H|]. apply seteq_diff; [apply C; exact H|apply seteq_refl].
Qed.

(* the result of every operation, as SETS, does not depend on the order in which the input sets are listed *)
Theorem exec_order_invariant p : forall s1 s2, state_eq s1 s2 -> state_eq (exec p s1) (exec p s2).
Proof.
  induction p as [|i p IH]; intros s1 s2 H; [exact H|]. cbn [exec fold_left]. apply IH. apply step_eq. exact H.
Qed.
Corollary result_order_invariant p s1 s2 x : state_eq s1 s2 -> seteq (content (exec p s1) x) (content (exec p s2) x).
Proof. intros H. apply content_eq. apply exec_order_invariant. exact H. Qed.

(* ---------- candidate pool ---------- *)
Section PoolProofs.
  Context {cand structure pool result : Type}.
  Variable struct_of : cand -> structure.
  Variable pool_of : list cand -> pool.
  Variable refine : structure -> pool -> cand -> result.

  (* per-structure filter + a pool that adds nothing: the refinement of a candidate is its refinement alone *)
  Theorem candidate_independent cands c :
    pool_of cands = pool_of [c] ->
    refine_in struct_of pool_of refine PerStructure cands c = refine_alone struct_of pool_of refine PerStructure c.
  Proof. intros P. unfold refine_alone, refine_in, filter_structure. rewrite P. reflexivity. Qed.

  (* the shipped filter (last candidate's structure) gives the same only when the last candidate has c's structure *)
  Theorem candidate_independent_same_structure cands c :
    struct_of (last cands c) = struct_of c -> pool_of cands = pool_of [c] ->
    refine_in struct_of pool_of refine LastStructure cands c = refine_alone struct_of pool_of refine LastStructure c.
  Proof. intros S P. unfold refine_alone, refine_in, filter_structure. cbn [last]. rewrite S, P. reflexivity. Qed.

  (* per-structure filter: the order of the candidates is irrelevant as soon as the pooled list is order-independent *)
  Theorem candidate_order_invariant cands cands' c :
    pool_of cands = pool_of cands' ->
    refine_in struct_of pool_of refine PerStructure cands c = refine_in struct_of pool_of refine PerStructure cands' c.
  Proof. intros P. unfold refine_in, filter_structure. rewrite P. reflexivity. Qed.
End PoolProofs.

(* witnesses: A = (structure 2, variant 7), B = (structure 3, variant 7): same pool, different structure;
   C = (structure 2, variant 9): same structure, larger pool *)
Theorem candidate_independent_refuted :
  let A := (2, 7) in let B := (3, 7) in let C := (2, 9) in
  w_pool [A; B] = w_pool [A] /\
  refine_in w_struct w_pool w_refine LastStructure [A; B] A <> refine_alone w_struct w_pool w_refine LastStructure A /\
  refine_in w_struct w_pool w_refine LastStructure [B; A] B <> refine_alone w_struct w_pool w_refine LastStructure B /\
  refine_in w_struct w_pool w_refine PerStructure [A; B] A = refine_alone w_struct w_pool w_refine PerStructure A /\
  refine_in w_struct w_pool w_refine PerStructure [A; C] A <> refine_alone w_struct w_pool w_refine PerStructure A.
Proof. vm_compute. repeat split; try discriminate. Qed.
