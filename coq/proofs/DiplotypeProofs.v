(* DiplotypeProofs.v — lemmas and theorems about NatSort.v and Diplotype.v (C11). *)
From Coq Require Import String Permutation Sorted.
From Aldy Require Import Base Consts NatSort Diplotype.
Import List.
Open Scope Z_scope.

(* ====================================================================== strings *)
Lemma seqb_eq a : forall b, str_eqb a b = true <-> a = b.
Proof.
  induction a as [|x a IH]; intros [|y b]; cbn [str_eqb]; split; intros H; try reflexivity; try discriminate.
  - apply andb_true_iff in H as [H1 H2]. apply Z.eqb_eq in H1. apply IH in H2. subst. reflexivity.
  - injection H as -> ->. rewrite Z.eqb_refl. cbn. apply IH. reflexivity.
Qed.
Lemma seqb_refl a : str_eqb a a = true. Proof. apply seqb_eq. reflexivity. Qed.
Lemma seqb_neq a b : a <> b -> str_eqb a b = false.
Proof. intros H. destruct (str_eqb a b) eqn:E; [|reflexivity]. apply seqb_eq in E. contradiction. Qed.
Lemma seqb_false a b : str_eqb a b = false -> a <> b.
Proof. intros H ->. rewrite seqb_refl in H. discriminate. Qed.
Lemma seqb_sym a b : str_eqb a b = str_eqb b a.
Proof.
  destruct (str_eqb a b) eqn:E.
  - apply seqb_eq in E. subst. symmetry. apply seqb_refl.
  - symmetry. apply seqb_neq. intros ->. rewrite seqb_refl in E. discriminate.
Qed.

(* ====================================================================== comparison of natsort keys *)
Lemma str_cmp_antisym a : forall b, str_cmp b a = CompOpp (str_cmp a b).
Proof.
  induction a as [|x a IH]; intros [|y b]; cbn [str_cmp]; try reflexivity.
  rewrite (Z.compare_antisym x y). destruct (x ?= y); cbn [CompOpp]; auto.
Qed.
Lemma str_cmp_eq a : forall b, str_cmp a b = Eq -> a = b.
Proof.
  induction a as [|x a IH]; intros [|y b]; cbn [str_cmp]; intros H; try reflexivity; try discriminate.
  destruct (x ?= y) eqn:E; try discriminate. apply Z.compare_eq in E. subst. f_equal. apply IH. exact H.
Qed.
Lemma str_cmp_refl a : str_cmp a a = Eq.
Proof. induction a as [|x a IH]; cbn [str_cmp]; [reflexivity|]. rewrite Z.compare_refl. exact IH. Qed.

Lemma item_cmp_antisym a b : item_cmp b a = CompOpp (item_cmp a b).
Proof.
  destruct a, b; cbn [item_cmp CompOpp]; try reflexivity.
  - apply str_cmp_antisym.
  - apply Z.compare_antisym.
Qed.
Lemma item_cmp_eq a b : item_cmp a b = Eq -> a = b.
Proof.
  destruct a, b; cbn [item_cmp]; intros H; try discriminate.
  - f_equal. apply str_cmp_eq. exact H.
  - f_equal. apply Z.compare_eq. exact H.
Qed.
Lemma item_cmp_refl a : item_cmp a a = Eq.
Proof. destruct a; cbn [item_cmp]; [apply str_cmp_refl|apply Z.compare_refl]. Qed.

Section LexFacts.
  Context {A : Type} (cmp : A -> A -> comparison).
  Hypothesis cmp_antisym : forall a b, cmp b a = CompOpp (cmp a b).
  Hypothesis cmp_eq : forall a b, cmp a b = Eq -> a = b.
  Hypothesis cmp_refl : forall a, cmp a a = Eq.
  Lemma lex_antisym a : forall b, lex_cmp cmp b a = CompOpp (lex_cmp cmp a b).
  Proof.
    induction a as [|x a IH]; intros [|y b]; cbn [lex_cmp]; try reflexivity.
    rewrite (cmp_antisym x y). destruct (cmp x y); cbn [CompOpp]; auto.
  Qed.
  Lemma lex_eq a : forall b, lex_cmp cmp a b = Eq -> a = b.
  Proof.
    induction a as [|x a IH]; intros [|y b]; cbn [lex_cmp]; intros H; try reflexivity; try discriminate.
    destruct (cmp x y) eqn:E; try discriminate. apply cmp_eq in E. subst. f_equal. apply IH. exact H.
  Qed.
  Lemma lex_refl a : lex_cmp cmp a a = Eq.
  Proof. induction a as [|x a IH]; cbn [lex_cmp]; [reflexivity|]. rewrite cmp_refl. exact IH. Qed.
  (* transitivity, given it for the elements *)
  Hypothesis cmp_trans : forall a b c, cmp a b = Lt -> cmp b c = Lt -> cmp a c = Lt.
  Lemma lex_trans a : forall b c, lex_cmp cmp a b = Lt -> lex_cmp cmp b c = Lt -> lex_cmp cmp a c = Lt.
  Proof.
    induction a as [|x a IH]; intros [|y b] [|z c]; cbn [lex_cmp]; intros H1 H2; try reflexivity; try discriminate.
    destruct (cmp x y) eqn:E1; try discriminate.
    - apply cmp_eq in E1. subst y. destruct (cmp x z) eqn:E2; try discriminate; [|reflexivity]. eapply IH; eassumption.
    - destruct (cmp y z) eqn:E2; try discriminate.
      + apply cmp_eq in E2. subst z. rewrite E1. reflexivity.
      + rewrite (cmp_trans _ _ _ E1 E2). reflexivity.
  Qed.
End LexFacts.

Lemma str_cmp_trans a : forall b c, str_cmp a b = Lt -> str_cmp b c = Lt -> str_cmp a c = Lt.
Proof.
  induction a as [|x a IH]; intros [|y b] [|z c]; cbn [str_cmp]; intros H1 H2; try reflexivity; try discriminate.
  destruct (x ?= y) eqn:E1; try discriminate.
  - apply Z.compare_eq in E1. subst y. destruct (x ?= z) eqn:E2; try discriminate; [|reflexivity]. eapply IH; eassumption.
  - destruct (y ?= z) eqn:E2; try discriminate.
    + apply Z.compare_eq in E2. subst z. rewrite E1. reflexivity.
    + assert (x ?= z = Lt) as ->. { rewrite Z.compare_lt_iff in *. lia. } reflexivity.
Qed.
Lemma item_cmp_trans a b c : item_cmp a b = Lt -> item_cmp b c = Lt -> item_cmp a c = Lt.
Proof.
  destruct a, b, c; cbn [item_cmp]; intros H1 H2; try discriminate; try reflexivity.
  - eapply str_cmp_trans; eassumption.
  - rewrite Z.compare_lt_iff in *. lia.
Qed.

Lemma key_cmp_antisym a b : key_cmp b a = CompOpp (key_cmp a b).
Proof. apply lex_antisym. apply item_cmp_antisym. Qed.
Lemma key_cmp_eq a b : key_cmp a b = Eq -> a = b.
Proof. apply lex_eq. apply item_cmp_eq. Qed.
Lemma key_cmp_refl a : key_cmp a a = Eq.
Proof. apply lex_refl. apply item_cmp_refl. Qed.
Lemma key_cmp_trans a b c : key_cmp a b = Lt -> key_cmp b c = Lt -> key_cmp a c = Lt.
Proof. apply lex_trans. apply item_cmp_eq. apply item_cmp_trans. Qed.
Lemma keys_cmp_antisym a b : keys_cmp b a = CompOpp (keys_cmp a b).
Proof. apply lex_antisym. apply key_cmp_antisym. Qed.
Lemma keys_cmp_eq a b : keys_cmp a b = Eq -> a = b.
Proof. apply lex_eq. apply key_cmp_eq. Qed.
Lemma keys_cmp_trans a b c : keys_cmp a b = Lt -> keys_cmp b c = Lt -> keys_cmp a c = Lt.
Proof. apply lex_trans. apply key_cmp_eq. apply key_cmp_trans. Qed.

(* the order used for sorting: a <= b  iff  not (b < a) *)
Lemma name_ltb_asym a b : name_ltb a b = true -> name_ltb b a = false.
Proof. unfold name_ltb. rewrite (key_cmp_antisym (nkey a) (nkey b)). destruct (key_cmp (nkey a) (nkey b)); cbn; congruence. Qed.
Lemma name_leb_ltb a b : name_leb a b = negb (name_ltb b a).
Proof. unfold name_leb, name_ltb. rewrite (key_cmp_antisym (nkey a) (nkey b)). destruct (key_cmp (nkey a) (nkey b)); reflexivity. Qed.
Lemma names_ltb_asym a b : names_ltb a b = true -> names_ltb b a = false.
Proof. unfold names_ltb. rewrite (keys_cmp_antisym (map nkey a) (map nkey b)). destruct (keys_cmp _ _); cbn; congruence. Qed.
Lemma names_leb_ltb a b : names_leb a b = negb (names_ltb b a).
Proof. unfold names_leb, names_ltb. rewrite (keys_cmp_antisym (map nkey a) (map nkey b)). destruct (keys_cmp _ _); reflexivity. Qed.
Lemma name_leb_trans a b c : name_leb a b = true -> name_leb b c = true -> name_leb a c = true.
Proof.
  unfold name_leb. intros H1 H2.
  destruct (key_cmp (nkey a) (nkey b)) eqn:E1; try discriminate; destruct (key_cmp (nkey b) (nkey c)) eqn:E2; try discriminate.
  - apply key_cmp_eq in E1. rewrite E1, E2. reflexivity.
  - apply key_cmp_eq in E1. rewrite E1, E2. reflexivity.
  - apply key_cmp_eq in E2. rewrite <- E2, E1. reflexivity.
  - rewrite (key_cmp_trans _ _ _ E1 E2). reflexivity.
Qed.

(* ---- a natsort key alternates str, int, str, ... : Python never compares a str with an int ---- *)
Fixpoint alt_flags (b : bool) (rs : list (bool * str)) : Prop :=
  match rs with [] => True | (d, _) :: r => d = b /\ alt_flags (negb b) r end.
Lemma runs_alt t : match runs t with [] => True | (d, _) :: _ => alt_flags d (runs t) end.
Proof.
  induction t as [|c t IH]; cbn [runs]; [exact I|].
  destruct (runs t) as [|[d' run] rest] eqn:E.
  - cbn. auto.
  - destruct (Bool.eqb (ns_digit c) d') eqn:Eb.
    + apply Bool.eqb_prop in Eb. cbn [alt_flags] in *. rewrite Eb. destruct IH as [_ IH]. auto.
    + cbn [alt_flags] in *. destruct IH as [_ IH].
      destruct (ns_digit c), d'; cbn in *; try discriminate; auto.
Qed.
Lemma alt_flags_items b rs : alt_flags b rs -> alternates (negb b) (map item_of rs) = true.
Proof.
  revert b. induction rs as [|[d run] rs IH]; intros b H; [reflexivity|].
  cbn [alt_flags] in H. destruct H as [-> H]. cbn [map item_of fst snd]. apply IH in H.
  destruct b; cbn [alternates negb andb] in *; exact H.
Qed.
Theorem nkey_alternates t : alternates true (nkey t) = true.
Proof.
  unfold nkey. pose proof (runs_alt t) as H. destruct (runs t) as [|[d run] rest]; [reflexivity|].
  apply alt_flags_items in H. destruct d; cbn [negb] in H.
  - cbn [alternates andb]. exact H.
  - exact H.
Qed.
Lemma alternates_typed b k1 : forall k2, alternates b k1 = true -> alternates b k2 = true -> key_typed k1 k2 = true.
Proof.
  revert b. induction k1 as [|x k1 IH]; intros b [|y k2] H1 H2; try reflexivity.
  cbn [key_typed]. destruct x, y; cbn [alternates] in H1, H2; cbn [same_kind andb];
    try (destruct b; cbn in H1, H2; discriminate).
  - apply andb_true_iff in H1 as [_ H1]. apply andb_true_iff in H2 as [_ H2].
    destruct (item_cmp (KS t) (KS t0)); try reflexivity. eapply IH; eassumption.
  - apply andb_true_iff in H1 as [_ H1]. apply andb_true_iff in H2 as [_ H2].
    destruct (item_cmp (KN z) (KN z0)); try reflexivity. eapply IH; eassumption.
Qed.
Theorem nkey_typed a b : key_typed (nkey a) (nkey b) = true.
Proof. eapply alternates_typed; apply nkey_alternates. Qed.

(* ====================================================================== the stable sort *)
Section SortFacts.
  Context {A : Type} (ltb : A -> A -> bool).
  Lemma insert_perm x l : Permutation (insert ltb x l) (x :: l).
  Proof.
    induction l as [|y l IH]; cbn [insert]; [reflexivity|].
    destruct (ltb y x); [|reflexivity]. rewrite IH. apply perm_swap.
  Qed.
  Lemma isort_perm l : Permutation (isort ltb l) l.
  Proof. induction l as [|x l IH]; cbn [isort fold_right]; [reflexivity|]. fold (isort ltb l). rewrite insert_perm, IH. reflexivity. Qed.
  (* sortedness needs only asymmetry of `<` *)
  Hypothesis asym : forall a b, ltb a b = true -> ltb b a = false.
  Definition sle (a b : A) : Prop := ltb b a = false.
  Lemma insert_hd x l : HdRel sle x l -> forall y, ltb y x = true -> HdRel sle y l -> HdRel sle y (insert ltb x l).
  Proof.
    intros _ y Hy Hl. destruct l as [|z l]; cbn [insert].
    - constructor. unfold sle. apply asym. exact Hy.
    - destruct (ltb z x); constructor.
      + inversion Hl; assumption.
      + unfold sle. apply asym. exact Hy.
  Qed.
  Lemma insert_sorted x l : Sorted sle l -> Sorted sle (insert ltb x l).
  Proof.
    induction l as [|y l IH]; intros H; cbn [insert].
    - repeat constructor.
    - destruct (ltb y x) eqn:E.
      + inversion H; subst. constructor; [apply IH; assumption|].
        destruct l as [|z l]; cbn [insert].
        * constructor. unfold sle. apply asym. exact E.
        * destruct (ltb z x); constructor; [inversion H3; assumption|unfold sle; apply asym; exact E].
      + constructor; [exact H|]. constructor. exact E.
  Qed.
  Lemma isort_sorted l : Sorted sle (isort ltb l).
  Proof. induction l as [|x l IH]; cbn [isort fold_right]; [constructor|]. apply insert_sorted. exact IH. Qed.
End SortFacts.

Lemma isort_two {A} (ltb : A -> A -> bool) a b : isort ltb [a; b] = if ltb b a then [b; a] else [a; b].
Proof. reflexivity. Qed.

(* ====================================================================== the dictionary *)
Definition vals (md : mdict) : list Z := concat (map snd md).
Definition uall (d : dip) : list Z := uflats (fst d) ++ uflats (snd d).

Lemma mget_cons k k' v t : mget k ((k', v) :: t) = if str_eqb k k' then v else mget k t.
Proof. unfold mget. cbn [alookup]. destruct (str_eqb k k'); reflexivity. Qed.
Lemma mget_nil k : mget k [] = []. Proof. reflexivity. Qed.
Lemma vals_cons k v t : vals ((k, v) :: t) = v ++ vals t. Proof. reflexivity. Qed.
Lemma vals_app a b : vals (a ++ b) = vals a ++ vals b.
Proof. unfold vals. rewrite map_app, concat_app. reflexivity. Qed.

Lemma vals_aset k l md : forall v, alookup str_eqb k md = Some v ->
  Permutation (v ++ vals (aset str_eqb k l md)) (l ++ vals md).
Proof.
  induction md as [|[k' w] t IH]; intros v H; cbn [alookup aset] in *; [discriminate|].
  destruct (str_eqb k k').
  - injection H as ->. rewrite !vals_cons. apply Permutation_app_swap_app.
  - rewrite !vals_cons. rewrite Permutation_app_swap_app. rewrite (IH v H). apply Permutation_app_swap_app.
Qed.
Lemma vals_aset_absent k l md : alookup str_eqb k md = None -> vals (aset str_eqb k l md) = vals md ++ l.
Proof.
  induction md as [|[k' w] t IH]; intros H; cbn [alookup aset] in *.
  - cbn. rewrite app_nil_r. reflexivity.
  - destruct (str_eqb k k'); [discriminate|]. rewrite !vals_cons, IH by exact H. rewrite app_assoc. reflexivity.
Qed.
Lemma vals_mappend k i md : Permutation (vals (mappend k i md)) (i :: vals md).
Proof.
  unfold mappend, mget. destruct (alookup str_eqb k md) as [v|] eqn:E.
  - pose proof (vals_aset k (v ++ [i]) md v E) as H.
    rewrite <- app_assoc in H. apply Permutation_app_inv_l in H. rewrite H. cbn. reflexivity.
  - rewrite vals_aset_absent by exact E. cbn [app]. symmetry. apply Permutation_cons_append.
Qed.
Lemma amem_alookup k (md : mdict) : amem str_eqb k md = true -> alookup str_eqb k md = Some (mget k md).
Proof. unfold amem, mget. destruct (alookup str_eqb k md); [reflexivity|discriminate]. Qed.
Lemma vals_ensure k md : vals (ensure k md) = vals md.
Proof. unfold ensure. destruct (amem str_eqb k md); [reflexivity|]. rewrite vals_app. cbn. rewrite app_nil_r. reflexivity. Qed.
Lemma alookup_app_l k (a b : mdict) v : alookup str_eqb k a = Some v -> alookup str_eqb k (a ++ b) = Some v.
Proof.
  induction a as [|[k' w] t IH]; cbn [alookup app]; intros H; [discriminate|].
  destruct (str_eqb k k'); [exact H|apply IH; exact H].
Qed.
Lemma alookup_app_r k (a b : mdict) : alookup str_eqb k a = None -> alookup str_eqb k (a ++ b) = alookup str_eqb k b.
Proof.
  induction a as [|[k' w] t IH]; cbn [alookup app]; intros H; [reflexivity|].
  destruct (str_eqb k k'); [discriminate|apply IH; exact H].
Qed.
Lemma amem_ensure k md : amem str_eqb k (ensure k md) = true.
Proof.
  unfold ensure. destruct (amem str_eqb k md) eqn:E; [exact E|].
  unfold amem in *. destruct (alookup str_eqb k md) eqn:E2; [discriminate|].
  rewrite alookup_app_r by exact E2. cbn. rewrite seqb_refl. reflexivity.
Qed.
Lemma mget_ensure k k' md : mget k (ensure k' md) = mget k md.
Proof.
  unfold ensure. destruct (amem str_eqb k' md) eqn:E; [reflexivity|].
  unfold mget. destruct (alookup str_eqb k md) eqn:E2.
  - rewrite (alookup_app_l _ _ _ _ E2). reflexivity.
  - rewrite alookup_app_r by exact E2. cbn. destruct (str_eqb k k'); reflexivity.
Qed.
Lemma alookup_aset_same k (l : list Z) md : alookup str_eqb k (aset str_eqb k l md) = Some l.
Proof.
  induction md as [|[k' w] t IH]; cbn [aset alookup].
  - rewrite seqb_refl. reflexivity.
  - destruct (str_eqb k k') eqn:E; cbn [alookup]; rewrite E; [reflexivity|exact IH].
Qed.
Lemma alookup_aset_other k m (l : list Z) md : k <> m -> alookup str_eqb m (aset str_eqb k l md) = alookup str_eqb m md.
Proof.
  intros Hn. induction md as [|[k' w] t IH]; cbn [aset alookup].
  - rewrite (seqb_neq m k) by congruence. reflexivity.
  - destruct (str_eqb k k') eqn:E; cbn [alookup].
    + apply seqb_eq in E. subst k'. rewrite (seqb_neq m k) by congruence. reflexivity.
    + destruct (str_eqb m k'); [reflexivity|exact IH].
Qed.
Lemma mget_aset_same k l md : mget k (aset str_eqb k l md) = l.
Proof. unfold mget. rewrite alookup_aset_same. reflexivity. Qed.
Lemma mget_aset_other k m l md : k <> m -> mget m (aset str_eqb k l md) = mget m md.
Proof. intros H. unfold mget. rewrite alookup_aset_other by exact H. reflexivity. Qed.

(* ====================================================================== placing units *)
Lemma uflats_app a b : uflats (a ++ b) = uflats a ++ uflats b.
Proof. unfold uflats. rewrite map_app, concat_app. reflexivity. Qed.
Lemma uflats_U1 l : uflats (map U1 l) = l.
Proof. unfold uflats. induction l as [|x l IH]; [reflexivity|]. cbn. f_equal. exact IH. Qed.
Lemma uall_place p us d : Permutation (uall (place p us d)) (uall d ++ uflats us).
Proof.
  unfold uall, place. destruct p; cbn [fst snd]; rewrite uflats_app.
  - rewrite app_assoc. reflexivity.
  - rewrite <- !app_assoc. apply Permutation_app_head. apply Permutation_app_comm.
Qed.

(* ====================================================================== every copy exactly once *)
Lemma group_from_perm sol : forall i md md', group_from i sol md = Ok md' ->
  Permutation (vals md') (vals md ++ zrange i (length sol)).
Proof.
  induction sol as [|a r IH]; intros i md md' H; cbn [group_from] in H.
  - injection H as <-. cbn. rewrite app_nil_r. reflexivity.
  - destruct (real (chop (a_major a))) as [k|]; [|discriminate].
    apply IH in H. rewrite H, vals_mappend. cbn [length zrange app]. apply Permutation_middle.
Qed.
Lemma add_del_perm g n md : Permutation (vals (add_del g n md)) (vals md ++ repeat (-1) (ndel g n)).
Proof.
  unfold add_del, ndel. destruct (has_del g) as [d|]; [|cbn; rewrite app_nil_r; reflexivity].
  destruct n as [|[|n]]; cbn [Nat.sub repeat].
  - rewrite !vals_mappend. symmetry. rewrite Permutation_app_comm. reflexivity.
  - rewrite !vals_mappend. symmetry. rewrite Permutation_app_comm. reflexivity.
  - rewrite app_nil_r. reflexivity.
Qed.

Lemma pair_up_perm la : forall lb d p la' lb' d' p', pair_up la lb d p = (la', lb', d', p') ->
  Permutation (uall d' ++ la' ++ lb') (uall d ++ la ++ lb).
Proof.
  induction la as [|x la IH]; intros lb d p la' lb' d' p' H; cbn [pair_up] in H.
  - injection H as <- <- <- <-. reflexivity.
  - destruct lb as [|y lb].
    + injection H as <- <- <- <-. reflexivity.
    + apply IH in H. rewrite H, uall_place. cbn [uflats map uflat concat app].
      rewrite <- !app_assoc. apply Permutation_app_head. cbn [app].
      apply perm_skip. apply Permutation_middle.
Qed.

Ltac perm_solve :=
  repeat match goal with H : Permutation _ _ |- _ => rewrite (Permutation_count_occ Z.eq_dec) in H end;
  rewrite (Permutation_count_occ Z.eq_dec); let x0 := fresh "x0" in intro x0;
  repeat match goal with H : forall x : Z, _ = _ |- _ => specialize (H x0) end;
  repeat rewrite count_occ_app in *; lia.

Lemma amem_ensure_other k k' md : amem str_eqb k md = true -> amem str_eqb k (ensure k' md) = true.
Proof.
  unfold ensure. destruct (amem str_eqb k' md); [auto|]. unfold amem. intros H.
  destruct (alookup str_eqb k md) eqn:E; [|discriminate]. rewrite (alookup_app_l _ _ _ _ E). reflexivity.
Qed.

Definition st_all (st : mdict * dip * bool) : list Z := uall (snd (fst st)) ++ vals (fst (fst st)).

Lemma tandem_step_perm ta tb md d p md' d' p' : str_eqb ta tb = false ->
  tandem_step (ta, tb) (md, d, p) = Ok (md', d', p') -> Permutation (uall d' ++ vals md') (uall d ++ vals md).
Proof.
  intros Hne H. unfold tandem_step in H.
  destruct (mget ta (ensure ta md)) as [|x0 l0] eqn:E.
  - injection H as <- <- <-. rewrite vals_ensure. reflexivity.
  - rewrite Hne in H. clear E.
    set (md2 := ensure tb (ensure ta md)) in *.
    destruct (pair_up (mget ta md2) (mget tb md2) d p) as [[[la lb] d''] p''] eqn:Ep.
    injection H as <- <- <-.
    assert (Ha : alookup str_eqb ta md2 = Some (mget ta md2)).
    { apply amem_alookup. apply amem_ensure_other. apply amem_ensure. }
    assert (Hb : alookup str_eqb tb md2 = Some (mget tb md2)).
    { apply amem_alookup. apply amem_ensure. }
    pose proof (vals_aset ta la md2 _ Ha) as H1.
    assert (Hb' : alookup str_eqb tb (aset str_eqb ta la md2) = Some (mget tb md2)).
    { rewrite alookup_aset_other; [exact Hb|]. apply seqb_false. exact Hne. }
    pose proof (vals_aset tb lb _ _ Hb') as H2.
    pose proof (pair_up_perm _ _ _ _ _ _ _ _ Ep) as H3.
    assert (Hv : vals md2 = vals md) by (unfold md2; rewrite !vals_ensure; reflexivity).
    rewrite <- Hv. perm_solve.
Qed.

Lemma tandem_loop_perm ts : forall md d p md' d' p',
  forallb (fun t => negb (str_eqb (fst t) (snd t))) ts = true ->
  tandem_loop ts (md, d, p) = Ok (md', d', p') -> Permutation (uall d' ++ vals md') (uall d ++ vals md).
Proof.
  induction ts as [|[ta tb] ts IH]; intros md d p md' d' p' Hok H; cbn [tandem_loop] in H.
  - injection H as <- <- <-. reflexivity.
  - cbn [forallb fst snd] in Hok. apply andb_true_iff in Hok as [Hne Hok]. apply negb_true_iff in Hne.
    destruct (tandem_step (ta, tb) (md, d, p)) as [[[md1 d1] p1]|e] eqn:E; cbn [bind] in H; [|discriminate].
    apply tandem_step_perm in E; [|exact Hne]. apply IH in H; [|exact Hok]. rewrite H, E. reflexivity.
Qed.

Lemma split_single_perm md d p md' d' p' : split_single (md, d, p) = (md', d', p') ->
  Permutation (uall d' ++ vals md') (uall d ++ vals md).
Proof.
  unfold split_single. destruct md as [|[k items] [|e r]]; try (intros H; injection H as <- <- <-; reflexivity).
  destruct (Nat.even (length items)); intros H; injection H as <- <- <-; [|reflexivity].
  cbn [vals map snd concat]. rewrite !app_nil_r.
  pose proof (uall_place (negb p) (map U1 (skipn (Nat.div2 (length items)) items))
                (place p (map U1 (firstn (Nat.div2 (length items)) items)) d)) as H1.
  pose proof (uall_place p (map U1 (firstn (Nat.div2 (length items)) items)) d) as H2.
  rewrite uflats_U1 in H1, H2. rewrite H1, H2. rewrite <- app_assoc. rewrite firstn_skipn. reflexivity.
Qed.

Lemma dups_perm md : forall d p md' d' p', dups md d p = (md', d', p') ->
  Permutation (uall d' ++ vals md') (uall d ++ vals md).
Proof.
  induction md as [|[k items] rest IH]; intros d p md' d' p' H; cbn [dups] in H.
  - injection H as <- <- <-. reflexivity.
  - destruct (1 <? Z.of_nat (length items)).
    + destruct (dups rest _ _) as [[rest' d''] p''] eqn:E. injection H as <- <- <-.
      apply IH in E. rewrite !vals_cons. cbn [app]. rewrite E.
      pose proof (uall_place (balance p d) (map U1 items) d) as H1. rewrite uflats_U1 in H1. perm_solve.
    + destruct (dups rest d p) as [[rest' d''] p''] eqn:E. injection H as <- <- <-.
      apply IH in E. rewrite !vals_cons. perm_solve.
Qed.

Lemma singles_perm md : forall d p d' p', singles md d p = Ok (d', p') -> Permutation (uall d') (uall d ++ vals md).
Proof.
  induction md as [|[k items] rest IH]; intros d p d' p' H; cbn [singles] in H.
  - injection H as <- <-. cbn. rewrite app_nil_r. reflexivity.
  - destruct items as [|i [|j items]]; [| |discriminate].
    + apply IH in H. rewrite vals_cons. exact H.
    + apply IH in H. rewrite vals_cons.
      pose proof (uall_place (balance p d) [U1 i] d) as H1. change (uflats [U1 i]) with [i] in H1. perm_solve.
Qed.

Lemma fixup_spec d d' : fixup d = Ok d' ->
  (snd d <> [] /\ d' = d) \/
  (snd d = [] /\ (length (fst d) <= 1)%nat /\ d' = d /\ forall x y, fst d <> [U2 x y]) \/
  (snd d = [] /\ (2 <= length (fst d))%nat /\ d' = (removelast (fst d), [last (fst d) (U1 0)])).
Proof.
  unfold fixup. destruct d as [d0 d1]. cbn [fst snd]. destruct d1 as [|u1 d1].
  - destruct d0 as [|a [|b d0]].
    + intros H; injection H as <-. right. left. cbn. repeat split; auto. intros; discriminate.
    + destruct a; [|discriminate]. intros H; injection H as <-. right. left. cbn. repeat split; auto. intros; discriminate.
    + intros H. right. right. destruct a; injection H as <-; cbn [length]; repeat split; auto; lia.
  - intros H; injection H as <-. left. split; [discriminate|reflexivity].
Qed.
Lemma fixup_perm d d' : fixup d = Ok d' -> Permutation (uall d') (uall d).
Proof.
  intros H. apply fixup_spec in H. destruct H as [[_ ->]|[(_ & _ & -> & _)|(Hs & Hl & ->)]]; try reflexivity.
  destruct d as [d0 d1]. cbn [fst snd] in *. subst d1. unfold uall. cbn [fst snd].
  rewrite <- uflats_app. rewrite <- app_removelast_last by (destruct d0; [cbn in Hl; lia|discriminate]).
  cbn. rewrite app_nil_r. reflexivity.
Qed.

Lemma arrange_units_perm g sol d : tandems_ok g = true -> arrange_units g sol = Ok d ->
  Permutation (uall d) (zrange 0 (length sol) ++ repeat (-1) (ndel g (length sol))).
Proof.
  intros Hok H. unfold arrange_units in H.
  destruct (group_from 0 sol []) as [md0|] eqn:E0; cbn [bind] in H; [|discriminate].
  apply group_from_perm in E0. cbn [vals map concat app] in E0.
  pose proof (add_del_perm g (length sol) md0) as E1.
  set (md1 := add_del g (length sol) md0) in *.
  assert (E2 : exists md2 d2 p2, (if 2 <? Z.of_nat (length sol) then tandem_loop (g_tandems g) (md1, ([], []), false)
                                  else Ok (md1, ([], []), false)) = Ok (md2, d2, p2)
                                 /\ Permutation (uall d2 ++ vals md2) (vals md1)).
  { destruct (2 <? Z.of_nat (length sol)).
    - destruct (tandem_loop (g_tandems g) (md1, ([], []), false)) as [[[md2 d2] p2]|] eqn:E; [|discriminate].
      exists md2, d2, p2. split; [reflexivity|]. apply tandem_loop_perm in E; [exact E|exact Hok].
    - exists md1, ([], []), false. split; reflexivity. }
  destruct E2 as (md2 & d2 & p2 & E2 & P2). rewrite E2 in H. cbn [bind] in H.
  destruct (split_single (md2, d2, p2)) as [[md3 d3] p3] eqn:E3. apply split_single_perm in E3.
  destruct (dups md3 d3 p3) as [[md4 d4] p4] eqn:E4. apply dups_perm in E4.
  destruct (singles md4 d4 p4) as [[d5 p5]|] eqn:E5; cbn [bind] in H; [|discriminate].
  apply singles_perm in E5. cbn [fst] in H. apply fixup_perm in H. perm_solve.
Qed.

(* ====================================================================== flattening and the final sort *)
Lemma Permutation_uflats a b : Permutation a b -> Permutation (uflats a) (uflats b).
Proof.
  unfold uflats. induction 1; cbn [map concat]; try reflexivity.
  - apply Permutation_app_head. assumption.
  - rewrite !app_assoc. apply Permutation_app_tail. apply Permutation_app_comm.
  - etransitivity; eassumption.
Qed.
Lemma flatten_perm name us : Permutation (flatten name us) (uflats us).
Proof. unfold flatten, sort_units. apply Permutation_uflats. apply isort_perm. Qed.

Lemma arrange_shape display g sol dipl : arrange display g sol = Ok dipl ->
  exists d, arrange_units g sol = Ok d /\
    let F := flatten (major_name display g sol) in
    (dipl = [F (fst d); F (snd d)] \/ dipl = [F (snd d); F (fst d)]).
Proof.
  unfold arrange. destruct (arrange_units g sol) as [d|]; cbn [bind]; [|discriminate].
  intros H. cbv zeta in H. injection H as <-. exists d. split; [reflexivity|]. cbv zeta. unfold sort_haps.
  destruct (names_ltb _ _); auto.
Qed.

(* every called copy exactly once, plus max(0, 2-n) placeholders -1 when the gene has a deletion allele *)
Theorem diplotype_partition display g sol dipl : tandems_ok g = true -> arrange display g sol = Ok dipl ->
  Permutation (concat dipl) (zrange 0 (length sol) ++ repeat (-1) (ndel g (length sol))).
Proof.
  intros Hok H. apply arrange_shape in H. destruct H as (d & Hu & Hd). apply arrange_units_perm in Hu; [|exact Hok].
  cbn zeta in Hd. rewrite <- Hu. unfold uall.
  destruct Hd as [-> | ->]; cbn [concat]; rewrite app_nil_r, !flatten_perm; [reflexivity|apply Permutation_app_comm].
Qed.

(* ====================================================================== both haplotypes are used *)
Definition Inv (d : dip) (p : bool) : Prop := fst d = [] -> snd d = [] /\ p = false.
Lemma inv_of_nonempty d p : fst d <> [] -> Inv d p.
Proof. intros H H'. contradiction. Qed.
Lemma place_fst d p us : Inv d p -> us <> [] -> fst (place p us d) <> [].
Proof.
  intros HI Hus. unfold place. destruct p; cbn [fst].
  - intros E. destruct (HI E) as [_ ?]. discriminate.
  - intros E. apply app_eq_nil in E as [_ E]. contradiction.
Qed.
Lemma place_inv d p us q : Inv d p -> us <> [] -> Inv (place p us d) q.
Proof. intros. apply inv_of_nonempty. apply place_fst; assumption. Qed.
Lemma balance_inv d p : Inv d p -> Inv d (balance p d).
Proof.
  intros HI E. destruct (HI E) as [E1 ->]. split; [exact E1|]. unfold balance, side. cbn [negb]. rewrite E, E1. reflexivity.
Qed.

Lemma pair_up_inv la : forall lb d p la' lb' d' p', Inv d p -> pair_up la lb d p = (la', lb', d', p') -> Inv d' p'.
Proof.
  induction la as [|x la IH]; intros lb d p la' lb' d' p' HI H; cbn [pair_up] in H.
  - injection H as <- <- <- <-. exact HI.
  - destruct lb as [|y lb]; [injection H as <- <- <- <-; exact HI|].
    eapply IH; [|exact H]. apply place_inv; [exact HI|discriminate].
Qed.
Lemma tandem_step_inv ta tb md d p md' d' p' : str_eqb ta tb = false -> Inv d p ->
  tandem_step (ta, tb) (md, d, p) = Ok (md', d', p') -> Inv d' p'.
Proof.
  intros Hne HI H. unfold tandem_step in H. destruct (mget ta (ensure ta md)).
  - injection H as <- <- <-. exact HI.
  - rewrite Hne in H. destruct (pair_up _ _ d p) as [[[la lb] d''] p''] eqn:Ep. injection H as <- <- <-.
    eapply pair_up_inv; eassumption.
Qed.
Lemma tandem_loop_inv ts : forall md d p md' d' p',
  forallb (fun t => negb (str_eqb (fst t) (snd t))) ts = true -> Inv d p ->
  tandem_loop ts (md, d, p) = Ok (md', d', p') -> Inv d' p'.
Proof.
  induction ts as [|[ta tb] ts IH]; intros md d p md' d' p' Hok HI H; cbn [tandem_loop] in H.
  - injection H as <- <- <-. exact HI.
  - cbn [forallb fst snd] in Hok. apply andb_true_iff in Hok as [Hne Hok]. apply negb_true_iff in Hne.
    destruct (tandem_step (ta, tb) (md, d, p)) as [[[md1 d1] p1]|e] eqn:E; cbn [bind] in H; [|discriminate].
    eapply IH; [exact Hok| |exact H]. eapply tandem_step_inv; eassumption.
Qed.
Lemma firstn_half_nil {A} (l : list A) : Nat.even (length l) = true -> firstn (Nat.div2 (length l)) l = [] -> l = [].
Proof.
  destruct l as [|a [|b l]]; cbn; try reflexivity; try discriminate.
Qed.
Lemma split_single_inv md d p md' d' p' : Inv d p -> split_single (md, d, p) = (md', d', p') -> Inv d' p'.
Proof.
  unfold split_single. intros HI. destruct md as [|[k items] [|e r]]; try (intros H; injection H as <- <- <-; exact HI).
  destruct (Nat.even (length items)) eqn:Ev; intros H; injection H as <- <- <-; [|exact HI].
  destruct (firstn (Nat.div2 (length items)) items) as [|f0 fs] eqn:Ef.
  - apply firstn_half_nil in Ef; [|exact Ev]. subst items. cbn [length Nat.div2 skipn map].
    intros E. unfold place in E |- *. destruct p; cbn [negb fst snd] in *; rewrite ?app_nil_r in *; auto.
  - apply inv_of_nonempty. unfold place at 1. destruct (negb p) eqn:En; cbn [fst].
    + apply place_fst; [exact HI|discriminate].
    + intros E. apply app_eq_nil in E as [E _]. revert E. apply place_fst; [exact HI|discriminate].
Qed.
Lemma dups_inv md : forall d p md' d' p', Inv d p -> dups md d p = (md', d', p') -> Inv d' p'.
Proof.
  induction md as [|[k items] rest IH]; intros d p md' d' p' HI H; cbn [dups] in H.
  - injection H as <- <- <-. exact HI.
  - destruct (1 <? Z.of_nat (length items)) eqn:El.
    + destruct (dups rest _ _) as [[rest' d''] p''] eqn:E. injection H as <- <- <-.
      eapply IH; [|exact E]. apply place_inv; [apply balance_inv; exact HI|].
      destruct items; [cbn in El; discriminate|discriminate].
    + destruct (dups rest d p) as [[rest' d''] p''] eqn:E. injection H as <- <- <-. eapply IH; eassumption.
Qed.
Lemma singles_inv md : forall d p d' p', Inv d p -> singles md d p = Ok (d', p') -> Inv d' p'.
Proof.
  induction md as [|[k items] rest IH]; intros d p d' p' HI H; cbn [singles] in H.
  - injection H as <- <-. exact HI.
  - destruct items as [|i [|j items]]; [| |discriminate].
    + eapply IH; eassumption.
    + eapply IH; [|exact H]. apply place_inv; [apply balance_inv; exact HI|discriminate].
Qed.

(* the stages of arrange_units, named *)
Lemma arrange_units_stages g sol d : tandems_ok g = true -> arrange_units g sol = Ok d ->
  exists md0 md2 d2 p2 md3 d3 p3 md4 d4 p4 d5 p5,
    group_from 0 sol [] = Ok md0 /\
    (if 2 <? Z.of_nat (length sol) then tandem_loop (g_tandems g) (add_del g (length sol) md0, ([], []), false)
     else Ok (add_del g (length sol) md0, ([], []), false)) = Ok (md2, d2, p2) /\
    split_single (md2, d2, p2) = (md3, d3, p3) /\ dups md3 d3 p3 = (md4, d4, p4) /\
    singles md4 d4 p4 = Ok (d5, p5) /\ fixup d5 = Ok d.
Proof.
  intros Hok H. unfold arrange_units in H.
  destruct (group_from 0 sol []) as [md0|] eqn:E0; cbn [bind] in H; [|discriminate].
  destruct (if 2 <? Z.of_nat (length sol) then _ else _) as [[[md2 d2] p2]|] eqn:E2; cbn [bind] in H; [|discriminate].
  destruct (split_single (md2, d2, p2)) as [[md3 d3] p3] eqn:E3.
  destruct (dups md3 d3 p3) as [[md4 d4] p4] eqn:E4.
  destruct (singles md4 d4 p4) as [[d5 p5]|] eqn:E5; cbn [bind] in H; [|discriminate].
  cbn [fst] in H. exists md0, md2, d2, p2, md3, d3, p3, md4, d4, p4, d5, p5. auto 10.
Qed.

Lemma arrange_units_inv g sol d : tandems_ok g = true -> arrange_units g sol = Ok d ->
  exists d5 p5, Inv d5 p5 /\ fixup d5 = Ok d.
Proof.
  intros Hok H. destruct (arrange_units_stages _ _ _ Hok H) as
    (md0 & md2 & d2 & p2 & md3 & d3 & p3 & md4 & d4 & p4 & d5 & p5 & E0 & E2 & E3 & E4 & E5 & E6).
  exists d5, p5. split; [|exact E6].
  assert (I0 : Inv ([], []) false) by (intros _; auto).
  assert (I2 : Inv d2 p2).
  { destruct (2 <? Z.of_nat (length sol)).
    - eapply tandem_loop_inv; [exact Hok|exact I0|exact E2].
    - injection E2 as <- <- <-. exact I0. }
  eapply singles_inv; [|exact E5]. eapply dups_inv; [|exact E4]. eapply split_single_inv; eassumption.
Qed.

Lemma uflats_length_pos u us : (1 <= length (uflats (u :: us)))%nat.
Proof. unfold uflats. cbn [map concat]. rewrite app_length. destruct u; cbn; lia. Qed.
Lemma flatten_nonempty name us : us <> [] -> flatten name us <> [].
Proof.
  intros H E. pose proof (Permutation_length (flatten_perm name us)) as L. rewrite E in L.
  destruct us as [|u us]; [contradiction|]. pose proof (uflats_length_pos u us). cbn [length] in L. lia.
Qed.
Lemma zrange_length i n : length (zrange i n) = n.
Proof. revert i. induction n as [|n IH]; intros i; cbn [zrange length]; [reflexivity|]. rewrite IH. reflexivity. Qed.

Theorem diplotype_nonempty display g sol dipl : tandems_ok g = true -> arrange display g sol = Ok dipl ->
  (2 <= length sol + ndel g (length sol))%nat ->
  exists h0 h1, dipl = [h0; h1] /\ h0 <> [] /\ h1 <> [].
Proof.
  intros Hok H Hn. apply arrange_shape in H. destruct H as (d & Hu & Hd). cbn zeta in Hd.
  pose proof (arrange_units_perm _ _ _ Hok Hu) as HP. apply Permutation_length in HP.
  rewrite app_length, zrange_length, repeat_length in HP.
  destruct (arrange_units_inv _ _ _ Hok Hu) as (d5 & p5 & HI & Hf).
  assert (Hne : fst d <> [] /\ snd d <> []).
  { apply fixup_spec in Hf. destruct Hf as [[Hs ->]|[(Hs & Hl & -> & HU)|(Hs & Hl & ->)]].
    - split; [|exact Hs]. intros E. destruct (HI E) as [E1 _]. contradiction.
    - exfalso. unfold uall in HP. rewrite Hs in HP. cbn [uflats map concat] in HP. rewrite app_nil_r in HP.
      destruct (fst d5) as [|u [|u' r]]; cbn in HP, Hl; try lia.
      destruct u; cbn in HP; [lia|]. exact (HU _ _ eq_refl).
    - cbn [fst snd]. split; [|discriminate]. destruct (fst d5) as [|u [|u' r]]; cbn in Hl; try lia. cbn. discriminate. }
  destruct Hne as [N0 N1].
  destruct Hd as [-> | ->]; eexists; eexists; (split; [reflexivity|]); split; apply flatten_nonempty; assumption.
Qed.

(* ====================================================================== no exception is reachable *)
Lemma real_some n : n <> [] -> exists k, real n = Some k.
Proof. destruct n; [contradiction|]. intros _. eexists. reflexivity. Qed.
Lemma group_from_total sol : names_ok sol = true -> forall i md, exists md', group_from i sol md = Ok md'.
Proof.
  induction sol as [|a r IH]; intros Hn i md; cbn [group_from].
  - eexists. reflexivity.
  - cbn [names_ok forallb] in Hn. apply andb_true_iff in Hn as [Ha Hr].
    destruct (real_some (chop (a_major a))) as [k ->]; [destruct (chop (a_major a)); [discriminate|discriminate]|].
    apply IH. exact Hr.
Qed.
Lemma tandem_step_total ta tb st : str_eqb ta tb = false -> exists r, tandem_step (ta, tb) st = Ok r.
Proof.
  intros Hne. destruct st as [[md d] p]. unfold tandem_step. destruct (mget ta (ensure ta md)).
  - eexists. reflexivity.
  - rewrite Hne. destruct (pair_up _ _ d p) as [[[la lb] d''] p'']. eexists. reflexivity.
Qed.
Lemma tandem_loop_total ts : forallb (fun t => negb (str_eqb (fst t) (snd t))) ts = true ->
  forall st, exists r, tandem_loop ts st = Ok r.
Proof.
  induction ts as [|[ta tb] ts IH]; intros Hok st; cbn [tandem_loop].
  - eexists. reflexivity.
  - cbn [forallb fst snd] in Hok. apply andb_true_iff in Hok as [Hne Hok]. apply negb_true_iff in Hne.
    destruct (tandem_step_total ta tb st Hne) as [r ->]. cbn [bind]. apply IH. exact Hok.
Qed.
Definition short (md : mdict) : Prop := Forall (fun e => (length (snd e) <= 1)%nat) md.
Lemma dups_short md : forall d p md' d' p', dups md d p = (md', d', p') -> short md'.
Proof.
  induction md as [|[k items] rest IH]; intros d p md' d' p' H; cbn [dups] in H.
  - injection H as <- <- <-. constructor.
  - destruct (1 <? Z.of_nat (length items)) eqn:El.
    + destruct (dups rest _ _) as [[rest' d''] p''] eqn:E. injection H as <- <- <-.
      constructor; [cbn; lia|eapply IH; exact E].
    + destruct (dups rest d p) as [[rest' d''] p''] eqn:E. injection H as <- <- <-.
      constructor; [cbn [snd]; lia|eapply IH; exact E].
Qed.
Lemma singles_total md : short md -> forall d p, exists r, singles md d p = Ok r.
Proof.
  induction md as [|[k items] rest IH]; intros Hs d p; cbn [singles].
  - eexists. reflexivity.
  - inversion Hs as [|? ? Hk Hr]; subst. cbn [snd] in Hk. destruct items as [|i [|j items]]; [apply IH, Hr|apply IH, Hr|cbn in Hk; lia].
Qed.

(* without the tandem loop, every unit is a single copy *)
Definition allU1 (d : dip) : Prop := Forall isU1 (fst d) /\ Forall isU1 (snd d).
Lemma Forall_isU1_map l : Forall isU1 (map U1 l).
Proof. induction l; constructor; [exact I|assumption]. Qed.
Lemma place_allU1 p l d : allU1 d -> allU1 (place p (map U1 l) d).
Proof.
  intros [H0 H1]. unfold place, allU1. destruct p; cbn [fst snd]; split; auto; apply Forall_app; split; auto using Forall_isU1_map.
Qed.
Lemma split_single_allU1 md d p md' d' p' : allU1 d -> split_single (md, d, p) = (md', d', p') -> allU1 d'.
Proof.
  unfold split_single. intros HI. destruct md as [|[k items] [|e r]]; try (intros H; injection H as <- <- <-; exact HI).
  destruct (Nat.even (length items)); intros H; injection H as <- <- <-; [|exact HI].
  apply place_allU1. apply place_allU1. exact HI.
Qed.
Lemma dups_allU1 md : forall d p md' d' p', allU1 d -> dups md d p = (md', d', p') -> allU1 d'.
Proof.
  induction md as [|[k items] rest IH]; intros d p md' d' p' HI H; cbn [dups] in H.
  - injection H as <- <- <-. exact HI.
  - destruct (1 <? Z.of_nat (length items)).
    + destruct (dups rest _ _) as [[rest' d''] p''] eqn:E. injection H as <- <- <-.
      eapply IH; [|exact E]. apply place_allU1. exact HI.
    + destruct (dups rest d p) as [[rest' d''] p''] eqn:E. injection H as <- <- <-. eapply IH; eassumption.
Qed.
Lemma singles_allU1 md : forall d p d' p', allU1 d -> singles md d p = Ok (d', p') -> allU1 d'.
Proof.
  induction md as [|[k items] rest IH]; intros d p d' p' HI H; cbn [singles] in H.
  - injection H as <- <-. exact HI.
  - destruct items as [|i [|j items]]; [| |discriminate].
    + eapply IH; eassumption.
    + eapply IH; [|exact H]. apply (place_allU1 _ [i]). exact HI.
Qed.

Theorem arrange_units_total g sol : tandems_ok g = true -> names_ok sol = true -> exists d, arrange_units g sol = Ok d.
Proof.
  intros Hok Hn. unfold arrange_units.
  destruct (group_from_total sol Hn 0 []) as [md0 E0]. rewrite E0. cbn [bind].
  set (md1 := add_del g (length sol) md0).
  assert (E2 : exists md2 d2 p2, (if 2 <? Z.of_nat (length sol) then tandem_loop (g_tandems g) (md1, ([], []), false)
                                  else Ok (md1, ([], []), false)) = Ok (md2, d2, p2)).
  { destruct (2 <? Z.of_nat (length sol)).
    - destruct (tandem_loop_total (g_tandems g) Hok (md1, ([], []), false)) as [[[md2 d2] p2] E]. eauto.
    - eauto. }
  destruct E2 as (md2 & d2 & p2 & E2). rewrite E2. cbn [bind].
  destruct (split_single (md2, d2, p2)) as [[md3 d3] p3] eqn:E3.
  destruct (dups md3 d3 p3) as [[md4 d4] p4] eqn:E4.
  destruct (singles_total md4 (dups_short _ _ _ _ _ _ E4) d4 p4) as [[d5 p5] E5]. rewrite E5. cbn [bind fst].
  destruct (fixup d5) as [d|e] eqn:E6; [eauto|]. exfalso.
  (* fixup fails only on ([U2 x y], []) : two copies placed, so n + placeholders = 2, yet a tandem tuple needs n > 2 *)
  assert (Hd5 : exists x y, d5 = ([U2 x y], [])).
  { unfold fixup in E6. destruct d5 as [a b]. cbn [fst snd] in E6. destruct b; [|discriminate].
    destruct a as [|u [|u' r]]; try discriminate; [destruct u; try discriminate; eauto|destruct u; discriminate]. }
  destruct Hd5 as (x & y & ->).
  assert (HP : Permutation (uall ([U2 x y], [])) (zrange 0 (length sol) ++ repeat (-1) (ndel g (length sol)))).
  { pose proof (group_from_perm _ _ _ _ E0) as Q0. cbn [vals map concat app] in Q0.
    pose proof (add_del_perm g (length sol) md0) as Q1. fold md1 in Q1.
    assert (Q2 : Permutation (uall d2 ++ vals md2) (vals md1)).
    { destruct (2 <? Z.of_nat (length sol)).
      - apply tandem_loop_perm in E2; [exact E2|exact Hok].
      - injection E2 as <- <- <-. reflexivity. }
    apply split_single_perm in E3. apply dups_perm in E4. apply singles_perm in E5. perm_solve. }
  apply Permutation_length in HP. rewrite app_length, zrange_length, repeat_length in HP. cbn in HP.
  destruct (2 <? Z.of_nat (length sol)) eqn:El.
  - unfold ndel in HP. destruct (has_del g); lia.
  - injection E2 as <- <- <-.
    assert (HA : allU1 ([U2 x y], [])).
    { eapply singles_allU1; [|exact E5]. eapply dups_allU1; [|exact E4]. eapply split_single_allU1; [|exact E3].
      split; constructor. }
    destruct HA as [HA _]. inversion HA as [|? ? Hx _]. exact Hx.
Qed.
Theorem diplotype_total display g sol : tandems_ok g = true -> names_ok sol = true -> exists dipl, arrange display g sol = Ok dipl.
Proof.
  intros Hok Hn. destruct (arrange_units_total g sol Hok Hn) as [d E]. unfold arrange. rewrite E. cbn [bind]. eexists. reflexivity.
Qed.

(* ====================================================================== tandems *)
Definition keyed (sol : list allele) (md : mdict) : Prop :=
  forall k l, In (k, l) md -> forall i, In i l -> key_of sol i = Some k.
Definition nodupk (md : mdict) : Prop := NoDup (map fst md).
Definition units (d : dip) : list unit_ := fst d ++ snd d.

Lemma in_aset k (l : list Z) md k0 l0 : In (k0, l0) (aset str_eqb k l md) -> (k0 = k /\ l0 = l) \/ In (k0, l0) md.
Proof.
  induction md as [|[k' w] t IH]; cbn [aset In].
  - intros [H|[]]. injection H as <- <-. auto.
  - destruct (str_eqb k k') eqn:E; cbn [In].
    + apply seqb_eq in E. subst k'. intros [H|H]; [injection H as <- <-; auto|auto].
    + intros [H|H]; [auto|]. destruct (IH H); auto.
Qed.
Lemma amem_cons k k' (w : list Z) t : amem str_eqb k ((k', w) :: t) = str_eqb k k' || amem str_eqb k t.
Proof. unfold amem. cbn [alookup]. destruct (str_eqb k k'); reflexivity. Qed.
Lemma keys_aset k (l : list Z) md : map fst (aset str_eqb k l md) = if amem str_eqb k md then map fst md else map fst md ++ [k].
Proof.
  induction md as [|[k' w] t IH]; [reflexivity|]. cbn [aset]. rewrite amem_cons.
  destruct (str_eqb k k') eqn:E; cbn [orb map fst]; [reflexivity|]. rewrite IH. destruct (amem str_eqb k t); reflexivity.
Qed.
Lemma amem_false_notin k (md : mdict) : amem str_eqb k md = false -> ~ In k (map fst md).
Proof.
  induction md as [|[k' w] t IH]; [auto|]. rewrite amem_cons. intros H. apply orb_false_iff in H as [H1 H2].
  cbn [map fst In]. intros [->|H]; [rewrite seqb_refl in H1; discriminate|]. exact (IH H2 H).
Qed.
Lemma nodup_snoc (l : list str) k : NoDup l -> ~ In k l -> NoDup (l ++ [k]).
Proof. intros H1 H2. apply (Permutation_NoDup (Permutation_cons_append l k)). constructor; assumption. Qed.
Lemma nodupk_aset k l md : nodupk md -> nodupk (aset str_eqb k l md).
Proof.
  unfold nodupk. intros H. rewrite keys_aset. destruct (amem str_eqb k md) eqn:E; [exact H|].
  apply nodup_snoc; [exact H|apply amem_false_notin; exact E].
Qed.
Lemma nodupk_ensure k md : nodupk md -> nodupk (ensure k md).
Proof.
  unfold nodupk, ensure. intros H. destruct (amem str_eqb k md) eqn:E; [exact H|].
  rewrite map_app. cbn [map fst]. apply nodup_snoc; [exact H|apply amem_false_notin; exact E].
Qed.
Lemma nodup_lookup md : nodupk md -> forall k l, In (k, l) md -> alookup str_eqb k md = Some l.
Proof.
  unfold nodupk. induction md as [|[k' w] t IH]; intros Hn k l H; [contradiction|].
  cbn [map fst] in Hn. inversion Hn as [|? ? Hk Ht]; subst. cbn [alookup]. destruct H as [H|H].
  - injection H as -> ->. rewrite seqb_refl. reflexivity.
  - destruct (str_eqb k k') eqn:E.
    + apply seqb_eq in E. subst k'. exfalso. apply Hk. change k with (fst (k, l)). apply in_map. exact H.
    + apply IH; assumption.
Qed.
Lemma alookup_in k (md : mdict) l : alookup str_eqb k md = Some l -> In (k, l) md.
Proof.
  induction md as [|[k' w] t IH]; cbn [alookup]; [discriminate|]. destruct (str_eqb k k') eqn:E.
  - apply seqb_eq in E. subst k'. intros H; injection H as ->. left. reflexivity.
  - intros H. right. exact (IH H).
Qed.
Lemma mget_in k md i : In i (mget k md) -> In (k, mget k md) md.
Proof. unfold mget. destruct (alookup str_eqb k md) eqn:E; [intros _; apply alookup_in; exact E|contradiction]. Qed.
Lemma nodup_mget md k l : nodupk md -> In (k, l) md -> mget k md = l.
Proof. intros Hn H. unfold mget. rewrite (nodup_lookup md Hn k l H). reflexivity. Qed.
Lemma keyed_mget sol md k i : keyed sol md -> In i (mget k md) -> key_of sol i = Some k.
Proof. intros Hk H. eapply Hk; [apply (mget_in _ _ _ H)|exact H]. Qed.
Lemma keyed_aset sol k l md : keyed sol md -> (forall i, In i l -> key_of sol i = Some k) -> keyed sol (aset str_eqb k l md).
Proof. intros Hk Hl k0 l0 H i Hi. apply in_aset in H as [[-> ->]|H]; [apply Hl; exact Hi|eapply Hk; eassumption]. Qed.
Lemma keyed_ensure sol k md : keyed sol md -> keyed sol (ensure k md).
Proof.
  unfold ensure. intros Hk. destruct (amem str_eqb k md); [exact Hk|]. intros k0 l0 H i Hi.
  apply in_app_or in H as [H|[H|[]]]; [eapply Hk; eassumption|]. injection H as <- <-. contradiction.
Qed.
Lemma in_vals i md : In i (vals md) -> exists k l, In (k, l) md /\ In i l.
Proof.
  unfold vals. intros H. apply in_concat in H as (l & Hl & Hi). apply in_map_iff in Hl as ([k l'] & E & Hl). cbn in E. subst l'. eauto.
Qed.

Lemma group_from_keyed sol : forall r pre i md md', sol = pre ++ r -> i = Z.of_nat (length pre) ->
  keyed sol md -> nodupk md -> group_from i r md = Ok md' -> keyed sol md' /\ nodupk md'.
Proof.
  induction r as [|a r IH]; intros pre i md md' Hs Hi Hk Hn H; cbn [group_from] in H.
  - injection H as <-. auto.
  - destruct (real (chop (a_major a))) as [k|] eqn:Er; [|discriminate].
    assert (Hki : key_of sol i = Some k).
    { unfold key_of. subst i. destruct (Z.of_nat (length pre) <? 0) eqn:E; [apply Z.ltb_lt in E; lia|]. rewrite Nat2Z.id.
      subst sol. rewrite nth_error_app2 by lia. rewrite Nat.sub_diag. cbn. exact Er. }
    eapply (IH (pre ++ [a]) (i + 1)); [rewrite <- app_assoc; exact Hs|rewrite app_length; cbn; lia| | |exact H].
    + unfold mappend. apply keyed_aset; [exact Hk|]. intros j Hj. apply in_app_or in Hj as [Hj|[<-|[]]]; [|exact Hki].
      eapply keyed_mget; eassumption.
    + apply nodupk_aset. exact Hn.
Qed.

Lemma in_units_place u p us d : In u (units (place p us d)) <-> In u (units d) \/ In u us.
Proof.
  unfold units, place. destruct p; cbn [fst snd]; rewrite !in_app_iff; tauto.
Qed.

Lemma pair_up_facts la : forall lb d p la' lb' d' p', pair_up la lb d p = (la', lb', d', p') ->
  incl la' la /\ incl lb' lb /\ (la' = [] \/ lb' = []) /\
  (forall u, In u (units d') -> In u (units d) \/ exists x y, u = U2 x y /\ In x la /\ In y lb).
Proof.
  induction la as [|x la IH]; intros lb d p la' lb' d' p' H; cbn [pair_up] in H.
  - injection H as <- <- <- <-. repeat split; auto using incl_refl.
  - destruct lb as [|y lb].
    + injection H as <- <- <- <-. repeat split; auto using incl_refl.
    + apply IH in H. destruct H as (H1 & H2 & H3 & H4). repeat split; auto using incl_tl.
      intros u Hu. apply H4 in Hu as [Hu|(x' & y' & -> & Hx & Hy)].
      * apply in_units_place in Hu as [Hu|[<-|[]]]; [auto|]. right. exists x, y. cbn. auto.
      * right. exists x', y'. cbn. auto.
Qed.

Definition tandem_units (sol : list allele) (T : list (str * str)) (d : dip) : Prop :=
  forall u, In u (units d) -> exists x y ta tb, u = U2 x y /\ In (ta, tb) T /\ key_of sol x = Some ta /\ key_of sol y = Some tb.

Lemma incl_nil_eq {A} (l : list A) : incl l [] -> l = [].
Proof. destruct l; [reflexivity|]. intros H. destruct (H a). left. reflexivity. Qed.

Lemma tandem_step_facts sol T ta tb md d p md' d' p' : str_eqb ta tb = false -> In (ta, tb) T ->
  keyed sol md -> nodupk md -> tandem_units sol T d ->
  tandem_step (ta, tb) (md, d, p) = Ok (md', d', p') ->
  keyed sol md' /\ nodupk md' /\ tandem_units sol T d' /\ (mget ta md' = [] \/ mget tb md' = []) /\
  (forall k, mget k md = [] -> mget k md' = []).
Proof.
  intros Hne HT Hk Hn Hu H. unfold tandem_step in H.
  destruct (mget ta (ensure ta md)) as [|x0 l0] eqn:E.
  - injection H as <- <- <-. repeat split; auto using keyed_ensure, nodupk_ensure.
    intros k Hk0. rewrite mget_ensure. exact Hk0.
  - rewrite Hne in H. clear E. set (md2 := ensure tb (ensure ta md)) in *.
    destruct (pair_up (mget ta md2) (mget tb md2) d p) as [[[la lb] d''] p''] eqn:Ep. injection H as <- <- <-.
    apply pair_up_facts in Ep. destruct Ep as (I1 & I2 & I3 & I4).
    assert (Hk2 : keyed sol md2) by (unfold md2; auto using keyed_ensure).
    assert (Hn2 : nodupk md2) by (unfold md2; auto using nodupk_ensure).
    assert (Hab : ta <> tb) by (apply seqb_false; exact Hne).
    repeat split.
    + apply keyed_aset; [apply keyed_aset; [exact Hk2|]|].
      * intros i Hi. eapply keyed_mget; [exact Hk2|]. apply I1. exact Hi.
      * intros i Hi. eapply keyed_mget; [exact Hk2|]. apply I2. exact Hi.
    + apply nodupk_aset, nodupk_aset. exact Hn2.
    + intros u Hu'. apply I4 in Hu' as [Hu'|(x & y & -> & Hx & Hy)]; [apply Hu; exact Hu'|].
      exists x, y, ta, tb. repeat split; auto; eapply keyed_mget; eassumption.
    + rewrite mget_aset_other by congruence. rewrite !mget_aset_same. exact I3.
    + intros k Hk0. assert (Hk2' : mget k md2 = []) by (unfold md2; rewrite !mget_ensure; exact Hk0).
      destruct (str_eqb k tb) eqn:E1.
      * apply seqb_eq in E1. subst k. rewrite mget_aset_same. apply incl_nil_eq. rewrite <- Hk2'. exact I2.
      * apply seqb_false in E1. rewrite mget_aset_other by congruence.
        destruct (str_eqb k ta) eqn:E2.
        -- apply seqb_eq in E2. subst k. rewrite mget_aset_same. apply incl_nil_eq. rewrite <- Hk2'. exact I1.
        -- apply seqb_false in E2. rewrite mget_aset_other by congruence. exact Hk2'.
Qed.

Lemma tandem_loop_facts sol T ts : forall md d p md' d' p',
  forallb (fun t => negb (str_eqb (fst t) (snd t))) ts = true -> incl ts T ->
  keyed sol md -> nodupk md -> tandem_units sol T d ->
  tandem_loop ts (md, d, p) = Ok (md', d', p') ->
  keyed sol md' /\ nodupk md' /\ tandem_units sol T d' /\
  (forall ta tb, In (ta, tb) ts -> mget ta md' = [] \/ mget tb md' = []) /\
  (forall k, mget k md = [] -> mget k md' = []).
Proof.
  induction ts as [|[ta tb] ts IH]; intros md d p md' d' p' Hok Hi Hk Hn Hu H; cbn [tandem_loop] in H.
  - injection H as <- <- <-. repeat split; auto. intros ? ? [].
  - cbn [forallb fst snd] in Hok. apply andb_true_iff in Hok as [Hne Hok]. apply negb_true_iff in Hne.
    destruct (tandem_step (ta, tb) (md, d, p)) as [[[md1 d1] p1]|e] eqn:E; cbn [bind] in H; [|discriminate].
    eapply tandem_step_facts in E; [|exact Hne|apply Hi; left; reflexivity|exact Hk|exact Hn|exact Hu].
    destruct E as (K1 & N1 & U1' & D1 & S1).
    eapply IH in H; [|exact Hok|intros t Ht; apply Hi; right; exact Ht|exact K1|exact N1|exact U1'].
    destruct H as (K2 & N2 & U2' & D2 & S2). repeat split; auto.
    intros ta' tb' [Ht|Ht]; [|apply D2; exact Ht]. injection Ht as <- <-. destruct D1 as [D1|D1]; [left|right]; apply S2; exact D1.
Qed.

(* after the tandem loop only single copies are added, all of them taken from the dictionary *)
Definition later (md : mdict) (d d' : dip) : Prop :=
  forall u, In u (units d') -> In u (units d) \/ exists i, u = U1 i /\ In i (vals md).
Lemma in_firstn {A} n (l : list A) x : In x (firstn n l) -> In x l.
Proof. intros H. rewrite <- (firstn_skipn n l). apply in_or_app. auto. Qed.
Lemma in_skipn {A} n (l : list A) x : In x (skipn n l) -> In x l.
Proof. intros H. rewrite <- (firstn_skipn n l). apply in_or_app. auto. Qed.
Lemma later_refl md d : later md d d. Proof. intros u Hu. auto. Qed.
Lemma split_single_later md d p md' d' p' : split_single (md, d, p) = (md', d', p') -> later md d d' /\ incl (vals md') (vals md).
Proof.
  unfold split_single. destruct md as [|[k items] [|e r]];
    try (intros H; injection H as <- <- <-; split; [apply later_refl|apply incl_refl]).
  destruct (Nat.even (length items)); intros H; injection H as <- <- <-; [|split; [apply later_refl|apply incl_refl]].
  split; [|intros x []]. intros u Hu. cbn [vals map snd concat]. rewrite app_nil_r.
  apply in_units_place in Hu as [Hu|Hu]; [apply in_units_place in Hu as [Hu|Hu]; [auto|]|];
    apply in_map_iff in Hu as (i & <- & Hi); right; exists i; split; eauto using in_firstn, in_skipn.
Qed.
Lemma dups_later md : forall d p md' d' p', dups md d p = (md', d', p') -> later md d d' /\ incl (vals md') (vals md).
Proof.
  induction md as [|[k items] rest IH]; intros d p md' d' p' H; cbn [dups] in H.
  - injection H as <- <- <-. split; [apply later_refl|apply incl_refl].
  - destruct (1 <? Z.of_nat (length items)).
    + destruct (dups rest _ _) as [[rest' d''] p''] eqn:E. injection H as <- <- <-.
      apply IH in E as [L I]. split.
      * intros u Hu. apply L in Hu as [Hu|(i & -> & Hi)].
        -- apply in_units_place in Hu as [Hu|Hu]; [auto|]. apply in_map_iff in Hu as (i & <- & Hi).
           right. exists i. split; [reflexivity|]. rewrite vals_cons. apply in_or_app. auto.
        -- right. exists i. split; [reflexivity|]. rewrite vals_cons. apply in_or_app. auto.
      * rewrite !vals_cons. cbn [app]. apply incl_appr. exact I.
    + destruct (dups rest d p) as [[rest' d''] p''] eqn:E. injection H as <- <- <-.
      apply IH in E as [L I]. split.
      * intros u Hu. apply L in Hu as [Hu|(i & -> & Hi)]; [auto|].
        right. exists i. split; [reflexivity|]. rewrite vals_cons. apply in_or_app. auto.
      * rewrite !vals_cons. apply incl_app; [apply incl_appl, incl_refl|apply incl_appr; exact I].
Qed.
Lemma singles_later md : forall d p d' p', singles md d p = Ok (d', p') -> later md d d'.
Proof.
  induction md as [|[k items] rest IH]; intros d p d' p' H; cbn [singles] in H.
  - injection H as <- <-. apply later_refl.
  - destruct items as [|i [|j items]]; [| |discriminate].
    + apply IH in H. intros u Hu. apply H in Hu as [Hu|(i & -> & Hi)]; [auto|]. right. exists i. split; [reflexivity|]. exact Hi.
    + apply IH in H. intros u Hu. apply H in Hu as [Hu|(i' & -> & Hi)].
      * apply in_units_place in Hu as [Hu|[<-|[]]]; [auto|]. right. exists i. split; [reflexivity|]. rewrite vals_cons. left. reflexivity.
      * right. exists i'. split; [reflexivity|]. rewrite vals_cons. apply in_or_app. auto.
Qed.
Lemma fixup_units d d' : fixup d = Ok d' -> forall u, In u (units d') <-> In u (units d).
Proof.
  intros H. apply fixup_spec in H. destruct H as [[_ ->]|[(_ & _ & -> & _)|(Hs & Hl & ->)]]; try tauto.
  intros u. unfold units. cbn [fst snd]. rewrite Hs, app_nil_r.
  rewrite <- app_removelast_last by (destruct (fst d); [cbn in Hl; lia|discriminate]). tauto.
Qed.

Lemma add_del_big g n md : (2 <= n)%nat -> add_del g n md = md.
Proof. intros H. unfold add_del. destruct (has_del g); [|reflexivity]. destruct n as [|[|n]]; [lia|lia|reflexivity]. Qed.

(* the units of the arrangement: tuples are common tandems, and the copies left single contain no further pair *)
Theorem arrange_units_tandems g sol d : tandems_ok g = true -> (2 < length sol)%nat -> arrange_units g sol = Ok d ->
  (forall x y, In (U2 x y) (units d) ->
     exists ta tb, In (ta, tb) (g_tandems g) /\ key_of sol x = Some ta /\ key_of sol y = Some tb) /\
  (forall ta tb i j, In (ta, tb) (g_tandems g) -> In (U1 i) (units d) -> In (U1 j) (units d) ->
     key_of sol i = Some ta -> key_of sol j = Some tb -> False).
Proof.
  intros Hok Hn H. destruct (arrange_units_stages _ _ _ Hok H) as
    (md0 & md2 & d2 & p2 & md3 & d3 & p3 & md4 & d4 & p4 & d5 & p5 & E0 & E2 & E3 & E4 & E5 & E6).
  assert (Hb : 2 <? Z.of_nat (length sol) = true) by (apply Z.ltb_lt; lia). rewrite Hb in E2.
  rewrite add_del_big in E2 by lia.
  eapply (group_from_keyed sol sol [] 0 [] md0) in E0; [|reflexivity|reflexivity|intros ? ? []|constructor].
  destruct E0 as [K0 N0].
  eapply (tandem_loop_facts sol (g_tandems g)) in E2; [|exact Hok|apply incl_refl|exact K0|exact N0|intros ? []].
  destruct E2 as (K2 & N2 & U2' & D2 & _).
  apply split_single_later in E3 as [L3 I3]. apply dups_later in E4 as [L4 I4]. apply singles_later in E5.
  pose proof (fixup_units _ _ E6) as F.
  assert (L : forall u, In u (units d) -> In u (units d2) \/ exists i, u = U1 i /\ In i (vals md2)).
  { intros u Hu. apply F in Hu. apply E5 in Hu as [Hu|(i & -> & Hi)]; [|right; exists i; auto].
    apply L4 in Hu as [Hu|(i & -> & Hi)]; [|right; exists i; auto].
    apply L3 in Hu as [Hu|(i & -> & Hi)]; [auto|right; exists i; auto]. }
  split.
  - intros x y Hu. apply L in Hu as [Hu|(i & Hi & _)]; [|discriminate].
    apply U2' in Hu as (x' & y' & ta & tb & Eq & HT & Kx & Ky). injection Eq as -> ->. eauto.
  - intros ta tb i j HT Hi Hj Ki Kj.
    assert (S : forall i k, In (U1 i) (units d) -> key_of sol i = Some k -> mget k md2 <> []).
    { intros i' k Hi' Ki'. apply L in Hi' as [Hu|(i'' & Eq & Hv)].
      - apply U2' in Hu as (? & ? & ? & ? & Eq & _). discriminate.
      - injection Eq as <-. apply in_vals in Hv as (k' & l & Hl & Hil).
        pose proof (K2 _ _ Hl _ Hil) as Kk. rewrite Ki' in Kk. injection Kk as <-.
        rewrite (nodup_mget _ _ _ N2 Hl). intros ->. contradiction. }
    destruct (D2 ta tb HT) as [D|D]; [exact (S i ta Hi Ki D)|exact (S j tb Hj Kj D)].
Qed.

(* ====================================================================== natural order *)
Lemma Sorted_impl {A} (R S : A -> A -> Prop) l : (forall a b, R a b -> S a b) -> Sorted R l -> Sorted S l.
Proof.
  intros HRS. induction 1 as [|a l Hs IH Hh]; constructor; [exact IH|].
  destruct Hh; constructor. apply HRS. assumption.
Qed.
Lemma sort_units_sorted name us : StronglySorted (unit_le name) (sort_units name us).
Proof.
  apply Sorted_StronglySorted.
  - intros a b c. unfold unit_le. apply name_leb_trans.
  - unfold sort_units. eapply Sorted_impl; [|apply isort_sorted].
    + intros a b H. unfold sle in H. unfold unit_le. rewrite name_leb_ltb, H. reflexivity.
    + intros a b. apply name_ltb_asym.
Qed.
Lemma sort_units_in name us u : In u (sort_units name us) <-> In u us.
Proof. unfold sort_units. split; apply Permutation_in; [|symmetry]; apply isort_perm. Qed.

Lemma flatten_eq name us : flatten name us = uflats (sort_units name us).
Proof. reflexivity. Qed.
(* the shape of the result: two haplotypes made of sorted units, themselves in order *)
Theorem arrange_structure display g sol dipl : arrange display g sol = Ok dipl ->
  let name := major_name display g sol in
  exists d us0 us1, arrange_units g sol = Ok d /\
    ((us0 = sort_units name (fst d) /\ us1 = sort_units name (snd d)) \/
     (us0 = sort_units name (snd d) /\ us1 = sort_units name (fst d))) /\
    dipl = [uflats us0; uflats us1] /\
    StronglySorted (unit_le name) us0 /\ StronglySorted (unit_le name) us1 /\
    names_leb (map name (uflats us0)) (map name (uflats us1)) = true.
Proof.
  unfold arrange. destruct (arrange_units g sol) as [d|]; cbn [bind]; [|discriminate].
  intros H. cbv zeta in H. unfold sort_haps in H. rewrite isort_two in H. injection H as <-. cbv zeta. exists d.
  rewrite !flatten_eq.
  set (name := major_name display g sol).
  destruct (names_ltb (map name (uflats (sort_units name (snd d)))) (map name (uflats (sort_units name (fst d))))) eqn:E.
  - exists (sort_units name (snd d)), (sort_units name (fst d)). repeat split; auto using sort_units_sorted.
    rewrite names_leb_ltb. rewrite (names_ltb_asym _ _ E). reflexivity.
  - exists (sort_units name (fst d)), (sort_units name (snd d)). repeat split; auto using sort_units_sorted.
    rewrite names_leb_ltb, E. reflexivity.
Qed.

(* C11: tandems next to each other, natural order within and between the haplotypes, one segmentation for all of it *)
Theorem diplotype_units display g sol dipl : tandems_ok g = true -> arrange display g sol = Ok dipl ->
  let name := major_name display g sol in
  exists us0 us1,
    dipl = [uflats us0; uflats us1] /\
    StronglySorted (unit_le name) us0 /\ StronglySorted (unit_le name) us1 /\
    names_leb (map name (uflats us0)) (map name (uflats us1)) = true /\
    ((length sol <= 2)%nat -> Forall isU1 (us0 ++ us1)) /\
    ((2 < length sol)%nat ->
       (forall x y, In (U2 x y) (us0 ++ us1) ->
          exists ta tb, In (ta, tb) (g_tandems g) /\ key_of sol x = Some ta /\ key_of sol y = Some tb) /\
       (forall ta tb i j, In (ta, tb) (g_tandems g) -> In (U1 i) (us0 ++ us1) -> In (U1 j) (us0 ++ us1) ->
          key_of sol i = Some ta -> key_of sol j = Some tb -> False)).
Proof.
  intros Hok H. cbv zeta. destruct (arrange_structure _ _ _ _ H) as (d & us0 & us1 & Hu & Hs & Hd & S0 & S1 & Hl).
  exists us0, us1. repeat split; auto.
  - (* no tuple without the tandem loop *)
    intros Hn. destruct (arrange_units_stages _ _ _ Hok Hu) as
      (md0 & md2 & d2 & p2 & md3 & d3 & p3 & md4 & d4 & p4 & d5 & p5 & E0 & E2 & E3 & E4 & E5 & E6).
    assert (Hb : 2 <? Z.of_nat (length sol) = false) by (apply Z.ltb_ge; lia). rewrite Hb in E2. injection E2 as <- <- <-.
    assert (HA : allU1 d5).
    { eapply singles_allU1; [|exact E5]. eapply dups_allU1; [|exact E4]. eapply split_single_allU1; [|exact E3]. split; constructor. }
    assert (HU : forall u, In u (units d) -> isU1 u).
    { intros u Hu'. apply (fixup_units _ _ E6) in Hu'. destruct HA as [A0 A1]. unfold units in Hu'.
      apply in_app_or in Hu' as [Hu'|Hu']; [exact (proj1 (Forall_forall _ _) A0 _ Hu')|exact (proj1 (Forall_forall _ _) A1 _ Hu')]. }
    apply Forall_forall. intros u Hu'. apply HU. unfold units.
    destruct Hs as [[-> ->]|[-> ->]]; apply in_app_or in Hu' as [Hu'|Hu']; apply sort_units_in in Hu'; apply in_or_app; auto.
  - intros x y Hin. destruct (arrange_units_tandems _ _ _ Hok H0 Hu) as [T1 _]. apply T1. unfold units.
    destruct Hs as [[-> ->]|[-> ->]]; apply in_app_or in Hin as [Hin|Hin]; apply sort_units_in in Hin; apply in_or_app; auto.
  - intros ta tb i j HT Hi Hj Ki Kj. destruct (arrange_units_tandems _ _ _ Hok H0 Hu) as [_ T2].
    assert (M : forall u, In u (us0 ++ us1) -> In u (units d)).
    { intros u Hin. unfold units.
      destruct Hs as [[-> ->]|[-> ->]]; apply in_app_or in Hin as [Hin|Hin]; apply sort_units_in in Hin; apply in_or_app; auto. }
    exact (T2 ta tb i j HT (M _ Hi) (M _ Hj) Ki Kj).
Qed.

(* when all units are single copies the haplotype itself is sorted *)
Lemma uflats_allU1 us : Forall isU1 us -> uflats us = map uhead us.
Proof.
  unfold uflats. induction 1 as [|u us Hu _ IH]; [reflexivity|]. cbn [map concat]. rewrite IH. destruct u; [reflexivity|contradiction].
Qed.
Lemma StronglySorted_map {A B} (f : A -> B) (R : B -> B -> Prop) l :
  StronglySorted (fun a b => R (f a) (f b)) l -> StronglySorted R (map f l).
Proof.
  induction 1 as [|a l Hs IH Hf]; cbn [map]; constructor; [exact IH|]. apply Forall_map. exact Hf.
Qed.

(* ====================================================================== one or two copies: the order does not matter *)
Lemma arrange_units_two g a b d : arrange_units g [a; b] = Ok d -> d = ([U1 0], [U1 1]).
Proof.
  unfold arrange_units. cbn [group_from].
  destruct (real (chop (a_major a))) as [ka|]; [|discriminate].
  destruct (real (chop (a_major b))) as [kb|]; [|discriminate].
  cbn [bind length]. rewrite add_del_big by lia. change (2 <? Z.of_nat 2) with false. cbn [bind].
  unfold mappend at 2. cbn [mget alookup aset app].
  unfold mappend. rewrite mget_cons. cbn [aset].
  destruct (str_eqb kb ka) eqn:E.
  - cbn. intros H. injection H as <-. reflexivity.
  - rewrite mget_nil. cbn. intros H. injection H as <-. reflexivity.
Qed.

Definition rend2 (x y : str) : str := (s "*" ++ x ++ []) ++ s " / " ++ (s "*" ++ y ++ []).
Lemma names_ltb_single x y : names_ltb [x] [y] = name_ltb x y.
Proof. unfold names_ltb, name_ltb, keys_cmp. cbn [map lex_cmp]. fold key_cmp. destruct (key_cmp (nkey x) (nkey y)); reflexivity. Qed.

Lemma arrange_two display g a b dipl : arrange display g [a; b] = Ok dipl ->
  major_diplotype display g [a; b] dipl =
  let na := allele_major_name display a in let nb := allele_major_name display b in
  if name_ltb nb na then rend2 nb na else rend2 na nb.
Proof.
  unfold arrange. destruct (arrange_units g [a; b]) as [d|] eqn:E; cbn [bind]; [|discriminate].
  apply arrange_units_two in E. subst d. cbv zeta. intros H.
  change (flatten (major_name display g [a; b]) (fst ([U1 0], [U1 1]))) with [0] in H.
  change (flatten (major_name display g [a; b]) (snd ([U1 0], [U1 1]))) with [1] in H.
  unfold sort_haps in H. rewrite isort_two in H. cbn [map] in H.
  change (major_name display g [a; b] 0) with (allele_major_name display a) in H.
  change (major_name display g [a; b] 1) with (allele_major_name display b) in H.
  rewrite names_ltb_single in H. destruct (name_ltb _ _); injection H as <-; reflexivity.
Qed.

Theorem diplotype_order_free display g sol sol' dipl dipl' :
  Permutation sol sol' -> (length sol <= 2)%nat ->
  (forall a b, In a sol -> In b sol -> nkey (allele_major_name display a) = nkey (allele_major_name display b) ->
               allele_major_name display a = allele_major_name display b) ->
  arrange display g sol = Ok dipl -> arrange display g sol' = Ok dipl' ->
  major_diplotype display g sol dipl = major_diplotype display g sol' dipl'.
Proof.
  intros HP Hn Hinj H H'. destruct sol as [|a [|b [|c r]]]; [| | |cbn in Hn; lia].
  - apply Permutation_nil in HP. subst sol'. congruence.
  - apply Permutation_length_1_inv in HP. subst sol'. congruence.
  - apply Permutation_length_2_inv in HP. destruct HP as [-> | ->]; [congruence|].
    rewrite (arrange_two _ _ _ _ _ H), (arrange_two _ _ _ _ _ H'). cbv zeta.
    set (na := allele_major_name display a) in *. set (nb := allele_major_name display b) in *.
    destruct (name_ltb nb na) eqn:E1.
    + rewrite (name_ltb_asym _ _ E1). reflexivity.
    + destruct (name_ltb na nb) eqn:E2; [reflexivity|].
      assert (Hk : nkey na = nkey nb).
      { apply key_cmp_eq. unfold name_ltb in E1, E2. rewrite (key_cmp_antisym (nkey na) (nkey nb)) in E1.
        destruct (key_cmp (nkey na) (nkey nb)); [reflexivity|discriminate|discriminate]. }
      assert (Heq : na = nb) by (apply (Hinj a b); cbn; auto). rewrite Heq. reflexivity.
Qed.

(* ====================================================================== names *)
Lemma join_cons2 sep x y l : join sep (x :: y :: l) = x ++ sep ++ join sep (y :: l).
Proof. reflexivity. Qed.
Lemma join_plus sep x l : join sep (x :: l) = x ++ concat (map (fun y => sep ++ y) l).
Proof.
  revert x. induction l as [|y l IH]; intros x.
  - cbn. rewrite app_nil_r. reflexivity.
  - rewrite join_cons2, IH. cbn [map concat]. rewrite <- app_assoc. reflexivity.
Qed.
Lemma major_name_spec g sol i : major_name false g sol i = spec_name g sol i.
Proof.
  unfold major_name, spec_name. destruct (i =? -1); [reflexivity|]. destruct (nth_error sol (Z.to_nat i)) as [a|]; [|reflexivity].
  unfold allele_major_name. cbn [negb]. rewrite join_plus. rewrite map_map. reflexivity.
Qed.
Theorem diplotype_names g sol dipl :
  major_diplotype false g sol dipl =
  join (s " / ") (map (fun h => join (s " + ") (map (fun i => s "*" ++ spec_name g sol i) h))
                      (filter (fun h => match h with [] => false | _ => true end) dipl)).
Proof.
  unfold major_diplotype, render. f_equal. apply map_ext. intros h. f_equal. apply map_ext. intros i.
  rewrite major_name_spec, app_nil_r. reflexivity.
Qed.
Lemma take_while_spec p t : exists r, t = take_while p t ++ r /\ forallb p (take_while p t) = true /\
  match r with [] => True | c :: _ => p c = false end.
Proof.
  induction t as [|c t (r & E & F & R)]; cbn [take_while].
  - exists []. auto.
  - destruct (p c) eqn:Ec.
    + exists r. cbn [app forallb]. rewrite Ec, F. rewrite <- E. auto.
    + exists (c :: t). cbn. auto.
Qed.
(* the fusion suffix: everything from the first '#' on is cut off, nothing else *)
Theorem chop_spec n : exists r, n = chop n ++ r /\ ~ In 35 (chop n) /\ (r = [] \/ exists r', r = 35 :: r').
Proof.
  unfold chop. destruct (take_while_spec (fun c => negb (c =? 35)) n) as (r & E & F & R). exists r. repeat split; auto.
  - intros Hin. rewrite forallb_forall in F. apply F in Hin. cbn in Hin. discriminate.
  - destruct r as [|c r]; [auto|]. right. exists r. apply negb_false_iff, Z.eqb_eq in R. subst. reflexivity.
Qed.
Lemma sort_vars_perm l : Permutation (sort_vars l) l.
Proof. apply isort_perm. Qed.

Lemma name_leb_total a b : name_leb a b = true \/ name_leb b a = true.
Proof. rewrite (name_leb_ltb b a). unfold name_leb, name_ltb. destruct (key_cmp (nkey a) (nkey b)); cbn; auto. Qed.
Lemma nkey_well_typed a b : alternates true (nkey a) = true /\ key_typed (nkey a) (nkey b) = true.
Proof. split; [apply nkey_alternates|apply nkey_typed]. Qed.
