(* VcfMnpProofs.v — C16: the allele uses of a catalogued multi-substitution written as ONE record (REF = the replaced bases,
   ALT = the new bases), for every gene view and every catalogued multi-substitution: each component is used once per alternate
   copy.  With VcfInProofs.vcf_support_mnp this turns C16_vcf_support_mnp (which starts from the uses) into a statement about
   the file itself. *)
From Coq Require Import String.
From Coq Require Import ZifyBool.
From Aldy Require Import Base Consts Pileup PileupProofs VcfIn VcfInProofs.
Import List.
Open Scope Z_scope.

Lemma subs_of_ge g alt : forall p k, In k (subs_of g p alt) -> p <= fst k.
Proof.
  induction alt as [|a t IH]; intros p k; cbn [subs_of]; [intros []|]. intros H. apply in_app_or in H as [H|H].
  - destruct (_ || _); [destruct H|]. destruct H as [<-|[]]. cbn [fst]. lia.
  - apply IH in H. lia.
Qed.
Lemma subs_of_nodup g alt : forall p, NoDup (subs_of g p alt).
Proof.
  induction alt as [|a t IH]; intros p; cbn [subs_of]; [constructor|]. destruct (_ || _); cbn [app]; [apply IH|].
  constructor; [|apply IH]. intros H. apply subs_of_ge in H. cbn [fst] in H. lia.
Qed.
Lemma count_usub_nodup cs k : NoDup cs -> In k cs ->
  count (fun u => match u with USub k' | UDel k' => key_eqb k k' | UIns _ => false end) (map USub cs) = 1.
Proof.
  induction cs as [|x cs IH]; intros N H; [destruct H|]. apply NoDup_cons_iff in N as [N1 N2]. cbn [map].
  change (USub x :: map USub cs) with ([USub x] ++ map USub cs). rewrite count_app, count_single.
  destruct H as [->|H].
  - rewrite key_eqb_refl.
    assert (Z0 : count (fun u => match u with USub k' | UDel k' => key_eqb k k' | UIns _ => false end) (map USub cs) = 0).
    { clear IH N2. induction cs as [|y cs IH]; [reflexivity|]. change (map USub (y :: cs)) with ([USub y] ++ map USub cs).
      rewrite count_app, count_single. destruct (key_eqb_spec k y) as [->|_]; [exfalso; apply N1; left; reflexivity|].
      rewrite IH; [reflexivity|]. intros Hin. apply N1. right. exact Hin. }
    rewrite Z0. reflexivity.
  - destruct (key_eqb_spec k x) as [->|_]; [contradiction|]. rewrite (IH N2 H). reflexivity.
Qed.

(* one record: POS = p + 1, REF = ref, ALT = alt.  [filled]: a gapped multi-substitution ("A.C>T.T") is written with the gene's
   own base at the gap positions, the way a VCF writer spells it *)
Definition rec_mnp_at (p : Z) (ref alt : str) (gt : list (option Z)) : vrec := mk_vrec (p + 1) ref [alt] gt.
Fixpoint filled (g : gview) (p : Z) (t : str) : str :=
  match t with [] => [] | a :: t' => (if a =? 46 then base g p else a) :: filled g (p + 1) t' end.
Definition rec_mnp (g : gview) (m : Z * (str * str)) (gt : list (option Z)) : vrec :=
  rec_mnp_at (fst m) (filled g (fst m) (fst (snd m))) (filled g (fst m) (snd (snd m))) gt.
(* the decidable side condition: REF and ALT have the same length >= 2, read against the gene the ALT bases differ from it
   exactly at the components of the catalogued m, and the first base is not N *)
Definition mnp_record_ok_at (g : gview) (m : Z * (str * str)) (p : Z) (ref alt : str) : bool :=
  mnp_catalogued g (subs_of g p alt) &&
  same_keys (map (fun ck : nat * key => snd ck) (comps m)) (subs_of g p alt) &&
  (length ref =? length alt)%nat && (2 <=? length ref)%nat && negb (base g p =? 78).
Definition mnp_record_ok (g : gview) (m : Z * (str * str)) : bool :=
  mnp_record_ok_at g m (fst m) (filled g (fst m) (fst (snd m))) (filled g (fst m) (snd (snd m))).

Section One.
  Variables (g : gview) (m : Z * (str * str)) (p : Z) (ref alt : str).
  Hypothesis OK : mnp_record_ok_at g m p ref alt = true.

  Lemma ok_parts : mnp_catalogued g (subs_of g p alt) = true /\
    same_keys (map (fun ck : nat * key => snd ck) (comps m)) (subs_of g p alt) = true /\
    length ref = length alt /\ (2 <= length ref)%nat /\ base g p <> 78.
  Proof.
    pose proof OK as O. unfold mnp_record_ok_at in O.
    apply andb_true_iff in O as [O N]. apply andb_true_iff in O as [O L2]. apply andb_true_iff in O as [O L].
    apply andb_true_iff in O as [C S].
    split; [exact C|]. split; [exact S|]. split; [apply Nat.eqb_eq, L|]. split; [apply Nat.leb_le, L2|].
    apply negb_true_iff, Z.eqb_neq in N. exact N.
  Qed.

  Lemma rec_mnp_allele0 gt : allele_uses g (rec_mnp_at p ref alt gt) 0 = [].
  Proof.
    destruct ok_parts as (_ & _ & _ & L2 & _). unfold allele_uses, rec_mnp_at. cbn [v_ref mk_vrec]. change (0 =? 0) with true. cbv iota.
    destruct ref as [|x [|y t]]; cbn [length] in L2; try lia; reflexivity.
  Qed.
  Lemma rec_mnp_allele1 gt : allele_uses g (rec_mnp_at p ref alt gt) 1 = map USub (subs_of g p alt).
  Proof.
    destruct ok_parts as (C & _ & L & _ & _). unfold allele_uses, rec_mnp_at. cbn [v_pos v_ref v_alts mk_vrec]. change (1 =? 0) with false. cbv iota.
    change (Z.to_nat (1 - 1)) with O. cbn [nth_error]. replace (p + 1 - 1) with p by lia.
    unfold alt_uses. rewrite L, Nat.eqb_refl. rewrite C, !orb_true_r. reflexivity.
  Qed.

  Lemma comp_in_subs ck : In ck (comps m) -> In (snd ck) (subs_of g p alt).
  Proof.
    intros H. destruct ok_parts as (_ & S & _). unfold same_keys in S. apply andb_true_iff in S as [S _].
    rewrite forallb_forall in S. specialize (S (snd ck) (in_map _ _ _ H)). unfold memb in S. apply existsb_exists in S as (y & Hy & E).
    destruct (key_eqb_spec (snd ck) y) as [->|]; [exact Hy|discriminate].
  Qed.

  (* the uses of the record: one per alternate copy, for every component *)
  Theorem one_record_uses a1 a2 ck : (a1 = 0 \/ a1 = 1) -> (a2 = 0 \/ a2 = 1) -> In ck (comps m) ->
    n_sub (record_uses g (rec_mnp_at p ref alt (gt2 a1 a2))) (snd ck) = a1 + a2.
  Proof.
    intros H1 H2 Hc. destruct ok_parts as (_ & _ & _ & _ & HN).
    assert (HN' : base g (p + 1 - 1) <> 78) by (replace (p + 1 - 1) with p by lia; exact HN).
    destruct (record_uses_01 g (p + 1) ref alt a1 a2 H1 H2 HN' (rec_mnp_allele0 _)) as (u & Hu & Hr).
    pose proof (rec_mnp_allele1 (gt2 a1 a2)) as A1. unfold rec_mnp_at in A1. rewrite A1 in Hu. subst u. unfold rec_mnp_at, n_sub.
    destruct Hr as [Hr|Hr]; (eapply count_eq_list; [exact Hr|]); apply count_uses01; try assumption;
      apply count_usub_nodup; [apply subs_of_nodup|apply comp_in_subs, Hc|apply subs_of_nodup|apply comp_in_subs, Hc].
  Qed.

  (* ... hence, in any file that uses m's components nowhere else, the support of m, of its components and of the reference *)
  Theorem vcf_support_mnp_one_record_at c pre post a1 a2 : multi_key_ok g m -> (a1 = 0 \/ a1 = 1) -> (a2 = 0 \/ a2 = 1) ->
    (forall ck, In ck (comps m) -> n_sub (uses g (pre ++ post)) (snd ck) = 0) ->
    let rs := pre ++ rec_mnp_at p ref alt (gt2 a1 a2) :: post in
    fixed_coverage g c rs (multi_key m) = alt_n c * (a1 + a2) /\
    (forall ck, In ck (comps m) -> is_ins (snd (snd ck)) = false -> str_eqb (snd (snd ck)) ref_op = false ->
       find (fun m' => key_eqb (multi_key m') (snd ck)) (g_all_multi g) = None ->
       (exists i, comp_of g (snd ck) = Some (i, m)) -> fixed_coverage g c rs (snd ck) = 0) /\
    (forall q, in_range g q = true -> later_comp_at g q = Some m ->
       fixed_coverage g c rs (q, ref_op) = Z.max 0 (ref_n c - alt_n c * n_at (uses g rs) q) + alt_n c * (a1 + a2)).
  Proof.
    intros K H1 H2 Z0 rs. apply vcf_support_mnp; [exact K|]. intros ck Hc. unfold rs. rewrite uses_mid, !n_sub_app.
    rewrite (one_record_uses a1 a2 ck H1 H2 Hc). specialize (Z0 ck Hc). rewrite uses_app, n_sub_app in Z0. lia.
  Qed.
End One.

(* the standard writing of a catalogued multi-substitution (gaps filled with the gene's bases) *)
Theorem vcf_support_mnp_one_record g m : mnp_record_ok g m = true -> forall c pre post a1 a2, multi_key_ok g m ->
  (a1 = 0 \/ a1 = 1) -> (a2 = 0 \/ a2 = 1) ->
  (forall ck, In ck (comps m) -> n_sub (uses g (pre ++ post)) (snd ck) = 0) ->
  let rs := pre ++ rec_mnp g m (gt2 a1 a2) :: post in
  fixed_coverage g c rs (multi_key m) = alt_n c * (a1 + a2) /\
  (forall ck, In ck (comps m) -> is_ins (snd (snd ck)) = false -> str_eqb (snd (snd ck)) ref_op = false ->
     find (fun m' => key_eqb (multi_key m') (snd ck)) (g_all_multi g) = None ->
     (exists i, comp_of g (snd ck) = Some (i, m)) -> fixed_coverage g c rs (snd ck) = 0) /\
  (forall q, in_range g q = true -> later_comp_at g q = Some m ->
     fixed_coverage g c rs (q, ref_op) = Z.max 0 (ref_n c - alt_n c * n_at (uses g rs) q) + alt_n c * (a1 + a2)).
Proof. intros OK. exact (vcf_support_mnp_one_record_at g m _ _ _ OK). Qed.

(* ================================================================== the same variant written as ADJACENT substitution records *)
Lemma rec_sub_uses g p b a1 a2 k : (a1 = 0 \/ a1 = 1) -> (a2 = 0 \/ a2 = 1) -> base g p <> 78 -> b <> base g p ->
  n_sub (record_uses g (rec_sub g p b (gt2 a1 a2))) k = if key_eqb k (p, sub_op (base g p) b) then a1 + a2 else 0.
Proof.
  intros H1 H2 HN Hb.
  assert (HN' : base g (p + 1 - 1) <> 78) by (replace (p + 1 - 1) with p by lia; exact HN).
  destruct (record_uses_01 g (p + 1) [base g p] [b] a1 a2 H1 H2 HN' (rec_sub_allele0 g p b _)) as (u & Hu & Hr).
  pose proof (rec_sub_allele1 g p b (gt2 a1 a2) HN Hb) as A1. unfold rec_sub in A1.
  assert (Eu : u = [USub (p, sub_op (base g p) b)]) by (rewrite <- Hu; exact A1). clear Hu. subst u. unfold rec_sub, n_sub.
  destruct (key_eqb k (p, sub_op (base g p) b)) eqn:E.
  - destruct Hr as [Hr|Hr]; (eapply count_eq_list; [exact Hr|]); apply count_uses01; try assumption; rewrite count_single, E; reflexivity.
  - destruct Hr as [Hr|Hr]; (eapply count_eq_list; [exact Hr|]); rewrite count_app; destruct H1 as [-> | ->], H2 as [-> | ->]; cbn [uses01 Z.eqb Pos.eqb];
      rewrite ?count_single, ?E, ?count_nil; reflexivity.
Qed.

Lemma comps_from_pos pos l r : forall i ck, In ck (comps_from pos i l r) -> fst (snd ck) = pos + Z.of_nat (fst ck) /\ (i <= fst ck)%nat.
Proof.
  induction l as [|a l IH]; intros i ck; cbn [comps_from]; [intros []|]. intros H. apply in_app_or in H as [H|H].
  - destruct (a =? 46); [destruct H|]. destruct H as [<-|[]]. cbn [fst snd]. split; [reflexivity|lia].
  - apply IH in H as [E L]. split; [exact E|lia].
Qed.
Lemma comps_from_nodup_pos pos l r : forall i, NoDup (map (fun ck : nat * key => fst (snd ck)) (comps_from pos i l r)).
Proof.
  induction l as [|a l IH]; intros i; cbn [comps_from]; [constructor|]. destruct (a =? 46); cbn [app map]; [apply IH|].
  constructor; [|apply IH]. cbn [fst snd]. intros H. apply in_map_iff in H as (ck & E & H). apply comps_from_pos in H as [E2 L]. lia.
Qed.

Lemma NoDup_map_inj_v {A B} (f : A -> B) l x y : NoDup (map f l) -> In x l -> In y l -> f x = f y -> x = y.
Proof.
  induction l as [|z l IH]; cbn [map]; intros Hn Hx Hy E; [contradiction|]. apply NoDup_cons_iff in Hn as [Hz Hn].
  destruct Hx as [->|Hx], Hy as [->|Hy]; auto.
  - exfalso. apply Hz. rewrite E. apply in_map, Hy.
  - exfalso. apply Hz. rewrite <- E. apply in_map, Hx.
Qed.

Definition alt_base (m : Z * (str * str)) (ck : nat * key) : Z := nth (fst ck) (snd (snd m)) 0.
Definition adj_records (g : gview) (m : Z * (str * str)) (gt : list (option Z)) : list vrec :=
  map (fun ck : nat * key => rec_sub g (fst (snd ck)) (alt_base m ck) gt) (comps m).
(* decidable side condition: each component is a substitution of the gene's own (non-N) base *)
Definition adj_ok (g : gview) (m : Z * (str * str)) : bool :=
  forallb (fun ck : nat * key => let x := fst (snd ck) in
             key_eqb (snd ck) (x, sub_op (base g x) (alt_base m ck)) && negb (alt_base m ck =? base g x) && negb (base g x =? 78)) (comps m).

Section Adjacent.
  Variables (g : gview) (m : Z * (str * str)) (a1 a2 : Z).
  Hypothesis OK : adj_ok g m = true.
  Hypothesis H1 : a1 = 0 \/ a1 = 1.
  Hypothesis H2 : a2 = 0 \/ a2 = 1.

  Lemma adj_parts ck : In ck (comps m) -> snd ck = (fst (snd ck), sub_op (base g (fst (snd ck))) (alt_base m ck)) /\
    alt_base m ck <> base g (fst (snd ck)) /\ base g (fst (snd ck)) <> 78.
  Proof.
    intros H. pose proof OK as O. unfold adj_ok in O. rewrite forallb_forall in O. specialize (O ck H). cbv zeta in O.
    apply andb_true_iff in O as [O N]. apply andb_true_iff in O as [K B].
    destruct (key_eqb_spec (snd ck) (fst (snd ck), sub_op (base g (fst (snd ck))) (alt_base m ck))) as [E|]; [|discriminate].
    split; [exact E|]. split; [apply negb_true_iff, Z.eqb_neq in B; exact B|apply negb_true_iff, Z.eqb_neq in N; exact N].
  Qed.

  Lemma adj_uses_sub (cks : list (nat * key)) ck0 : (forall ck, In ck cks -> In ck (comps m)) ->
    NoDup (map (fun ck : nat * key => fst (snd ck)) cks) -> In ck0 (comps m) ->
    n_sub (uses g (map (fun ck : nat * key => rec_sub g (fst (snd ck)) (alt_base m ck) (gt2 a1 a2)) cks)) (snd ck0)
    = if existsb (fun ck : nat * key => fst (snd ck) =? fst (snd ck0)) cks then a1 + a2 else 0.
  Proof.
    intros Hs N H0. induction cks as [|ck cks IH]; [reflexivity|]. cbn [map] in *. apply NoDup_cons_iff in N as [N1 N2].
    rewrite uses_cons, n_sub_app. destruct (adj_parts ck (Hs ck (or_introl eq_refl))) as (K & B & NN).
    rewrite (rec_sub_uses g _ _ a1 a2 (snd ck0) H1 H2 NN B). rewrite IH; [|intros; apply Hs; right; assumption|exact N2].
    cbn [existsb]. destruct (fst (snd ck) =? fst (snd ck0)) eqn:E.
    - apply Z.eqb_eq in E. cbn [orb].
      assert (X : existsb (fun ck1 : nat * key => fst (snd ck1) =? fst (snd ck0)) cks = false).
      { destruct (existsb _ cks) eqn:X; [|reflexivity]. exfalso. apply existsb_exists in X as (y & Hy & Ey). apply Z.eqb_eq in Ey.
        apply N1. apply in_map_iff. exists y. split; [congruence|exact Hy]. }
      rewrite X.
      (* same position, both components of m: the same key *)
      assert (Ek : snd ck0 = snd ck).
      { destruct (adj_parts ck0 H0) as (K0 & _ & _).
        assert (Ec : ck0 = ck).
        { pose proof (comps_from_nodup_pos (fst m) (fst (snd m)) (snd (snd m)) O) as ND. fold (comps m) in ND.
          eapply (NoDup_map_inj_v _ _ _ _ ND); [exact H0|apply Hs; left; reflexivity|symmetry; exact E]. }
        rewrite Ec. reflexivity. }
      rewrite Ek, K, key_eqb_refl. lia.
    - cbn [orb]. destruct (key_eqb_spec (snd ck0) (fst (snd ck), sub_op (base g (fst (snd ck))) (alt_base m ck))) as [Ek|_]; [|lia].
      exfalso. rewrite Ek in E. cbn [fst] in E. rewrite Z.eqb_refl in E. discriminate.
  Qed.
End Adjacent.

Theorem adjacent_records_uses g m a1 a2 ck0 : adj_ok g m = true -> (a1 = 0 \/ a1 = 1) -> (a2 = 0 \/ a2 = 1) -> In ck0 (comps m) ->
  n_sub (uses g (adj_records g m (gt2 a1 a2))) (snd ck0) = a1 + a2.
Proof.
  intros OK H1 H2 H0. unfold adj_records.
  rewrite (adj_uses_sub g m a1 a2 OK H1 H2 (comps m) ck0 (fun _ H => H)); [| |exact H0].
  - assert (X : existsb (fun ck : nat * key => fst (snd ck) =? fst (snd ck0)) (comps m) = true).
    { apply existsb_exists. exists ck0. split; [exact H0|apply Z.eqb_refl]. }
    rewrite X. reflexivity.
  - apply (comps_from_nodup_pos (fst m) (fst (snd m)) (snd (snd m)) O).
Qed.

Theorem vcf_support_mnp_adjacent g c m pre post a1 a2 : multi_key_ok g m -> adj_ok g m = true ->
  (a1 = 0 \/ a1 = 1) -> (a2 = 0 \/ a2 = 1) ->
  (forall ck, In ck (comps m) -> n_sub (uses g (pre ++ post)) (snd ck) = 0) ->
  let rs := pre ++ adj_records g m (gt2 a1 a2) ++ post in
  fixed_coverage g c rs (multi_key m) = alt_n c * (a1 + a2) /\
  (forall ck, In ck (comps m) -> is_ins (snd (snd ck)) = false -> str_eqb (snd (snd ck)) ref_op = false ->
     find (fun m' => key_eqb (multi_key m') (snd ck)) (g_all_multi g) = None ->
     (exists i, comp_of g (snd ck) = Some (i, m)) -> fixed_coverage g c rs (snd ck) = 0) /\
  (forall p, in_range g p = true -> later_comp_at g p = Some m ->
     fixed_coverage g c rs (p, ref_op) = Z.max 0 (ref_n c - alt_n c * n_at (uses g rs) p) + alt_n c * (a1 + a2)).
Proof.
  intros K OK H1 H2 Z0 rs. apply vcf_support_mnp; [exact K|]. intros ck Hc. unfold rs. rewrite !uses_app, !n_sub_app.
  rewrite (adjacent_records_uses g m a1 a2 ck OK H1 H2 Hc). specialize (Z0 ck Hc). rewrite uses_app, n_sub_app in Z0. lia.
Qed.

(* both writings give the same evidence for m, its components and the reference cells - whatever else the file holds *)
Corollary mnp_writings_agree g c m pre post a1 a2 : multi_key_ok g m -> mnp_record_ok g m = true -> adj_ok g m = true ->
  (a1 = 0 \/ a1 = 1) -> (a2 = 0 \/ a2 = 1) ->
  (forall ck, In ck (comps m) -> n_sub (uses g (pre ++ post)) (snd ck) = 0) ->
  fixed_coverage g c (pre ++ rec_mnp g m (gt2 a1 a2) :: post) (multi_key m)
  = fixed_coverage g c (pre ++ adj_records g m (gt2 a1 a2) ++ post) (multi_key m).
Proof.
  intros K O1 O2 H1 H2 Z0.
  destruct (vcf_support_mnp_one_record g m O1 c pre post a1 a2 K H1 H2 Z0) as [E1 _].
  destruct (vcf_support_mnp_adjacent g c m pre post a1 a2 K O2 H1 H2 Z0) as [E2 _]. cbv zeta in E1, E2. rewrite E1, E2. reflexivity.
Qed.

(* non-vacuity: the side conditions hold for the catalogued AC>GT of the example gene view *)
Example mnp_side_conditions_met : mnp_record_ok ex_v (1004, (s "AC", s "GT")) = true /\ adj_ok ex_v (1004, (s "AC", s "GT")) = true.
Proof. vm_compute. split; reflexivity. Qed.
(* ... and for a gapped one (A.G>C.T at 1008..1010 of a view that catalogues it): written as ACG>CCT *)
Definition ex_vg : gview := {| g_lo := g_lo ex_v; g_seq := g_seq ex_v; g_mapped := g_mapped ex_v; g_wide := g_wide ex_v;
  g_phaseable := g_phaseable ex_v; g_multi := [(1008, (s "A.G", s "C.T"))]; g_all_multi := [(1008, (s "A.G", s "C.T"))]; g_has_indels := false |}.
Example mnp_gapped_side_conditions_met :
  rec_mnp ex_vg (1008, (s "A.G", s "C.T")) (gt2 0 1) = mk_vrec 1009 (s "ACG") [s "CCT"] (gt2 0 1) /\
  mnp_record_ok ex_vg (1008, (s "A.G", s "C.T")) = true /\ adj_ok ex_vg (1008, (s "A.G", s "C.T")) = true.
Proof. vm_compute. repeat split; reflexivity. Qed.
