(* CatalogueSplitProofs.v — C09, clause "core = the function-altering variants, minors = the others", for EVERY catalogue the
   loader returns (through naming, the partial alleles of every left fusion and duplicate removal), not just for one allele at
   the grouping step (CatalogueProofs.core_split_partial). *)
From Coq Require Import String.
From Aldy Require Import Base Consts NatSort Coord Catalogue CoordProofs CatalogueProofs.
From Coq Require Import Permutation.
Import List.
Open Scope Z_scope.

(* ------------------------------------------------------------------ dictionaries keyed by strings *)
Section Dict.
  Context {V : Type}.
  Implicit Types (l : list (str * V)).
  Lemma in_aset_val k v l kv : In kv (aset str_eqb k v l) -> snd kv = v \/ In kv l.
  Proof.
    induction l as [|[k' v'] r IH]; cbn [aset].
    - intros [<-|[]]. left. reflexivity.
    - destruct (str_eqb k k') eqn:E.
      + intros [<-|H]; cbn [snd]; [left; reflexivity|right; right; exact H].
      + intros [<-|H]; [right; left; reflexivity|]. destruct (IH H) as [G|G]; [left; exact G|right; right; exact G].
  Qed.
  Lemma aset_keys_in k v l x : In x (map fst (aset str_eqb k v l)) -> x = k \/ In x (map fst l).
  Proof.
    induction l as [|[k' v'] r IH]; cbn [aset map fst].
    - intros [<-|[]]. auto.
    - destruct (str_eqb k k'); cbn [map fst].
      + intros [<-|H]; [right; left; reflexivity|right; right; exact H].
      + intros [<-|H]; [right; left; reflexivity|]. destruct (IH H) as [G|G]; [left; exact G|right; right; exact G].
  Qed.
  Lemma aset_keys_nodup k v l : NoDup (map fst l) -> NoDup (map fst (aset str_eqb k v l)).
  Proof.
    induction l as [|[k' v'] r IH]; cbn [aset map fst]; intros H.
    - constructor; [intros []|constructor].
    - apply NoDup_cons_iff in H as [Hn Hr]. destruct (str_eqb k k') eqn:E; cbn [map fst].
      + constructor; assumption.
      + constructor; [|apply IH, Hr]. intros Hin. apply aset_keys_in in Hin as [->|Hin]; [|contradiction].
        assert (str_eqb k k = true) by (apply str_eqb_eq'; reflexivity). congruence.
  Qed.
  Lemma alookup_nodup_in k v l : NoDup (map fst l) -> In (k, v) l -> alookup str_eqb k l = Some v.
  Proof.
    induction l as [|[k' v'] r IH]; cbn [alookup map fst]; intros Hn Hin; [destruct Hin|]. destruct Hin as [E|Hin].
    - injection E as -> ->. assert (R : str_eqb k k = true) by (apply str_eqb_eq'; reflexivity). rewrite R. reflexivity.
    - apply NoDup_cons_iff in Hn as [Hn Hr]. destruct (str_eqb k k') eqn:E.
      + apply str_eqb_eq' in E. subst k'. exfalso. apply Hn. apply in_map_iff. exists (k, v). auto.
      + apply IH; assumption.
  Qed.
  Lemma in_adel k l kv : In kv (adel k l) -> In kv l.
  Proof.
    induction l as [|[k' v'] r IH]; cbn [adel]; [auto|]. destruct (str_eqb k k'); [intros H; right; exact H|].
    intros [<-|H]; [left; reflexivity|right; apply IH, H].
  Qed.
End Dict.

Lemma fold_left_map {A B C} (f : A -> B -> A) (g : C -> B) l : forall a, fold_left f (map g l) a = fold_left (fun a x => f a (g x)) l a.
Proof. induction l as [|x l IH]; intros a; cbn [map fold_left]; [reflexivity|apply IH]. Qed.

Lemma insert_in {A} (ltb : A -> A -> bool) x l y : In y (insert ltb x l) -> y = x \/ In y l.
Proof.
  induction l as [|z l IH]; cbn [insert]; [intros [<-|[]]; auto|].
  destruct (ltb z x).
  - intros [<-|H]; [right; left; reflexivity|]. destruct (IH H) as [G|G]; [left; exact G|right; right; exact G].
  - intros [<-|H]; [left; reflexivity|right; exact H].
Qed.
Lemma isort_in {A} (ltb : A -> A -> bool) l y : In y (isort ltb l) -> In y l.
Proof.
  induction l as [|x l IH]; cbn [isort fold_right]; [auto|]. intros H. apply insert_in in H as [->|H]; [left; reflexivity|right; apply IH, H].
Qed.

(* group keys come from the keyed elements *)
Lemma gfold_keys_from {K V X} (eqb : K -> K -> bool) (key : X -> K) (val : X -> V) l : forall g k,
  In k (map fst (gfold eqb key val l g)) -> In k (map fst g) \/ exists x, In x l /\ key x = k.
Proof.
  induction l as [|x l IH]; intros g k; cbn [gfold fold_left]; [auto|]. intros H. apply IH in H as [H|(y & Hy & E)].
  - apply gadd_keys_in in H as [->|H]; [right; exists x; split; [left|]; reflexivity|left; exact H].
  - right. exists y. split; [right; exact Hy|exact E].
Qed.

(* ------------------------------------------------------------------ the clause as an invariant of a major allele *)
Section Split.
  Variable muts : list (mkey * minfo9).
  Definition CS (a : majorA) : Prop :=
    (forall x, In x (ma_core a) -> is_functional muts x = true) /\
    (forall m x, In m (ma_minors a) -> In x (mi_muts m) -> is_functional muts x = false).
  Definition CSd (d : list (str * majorA)) : Prop := forall kv, In kv d -> CS (snd kv).

  (* --- allele dictionary: unique names *)
  Lemma allele_loop_nodup t al db regs groups ras : forall st del acc st' del' alleles,
    NoDup (map fst acc) -> allele_loop t al db regs groups ras st del acc = Some (st', del', alleles) -> NoDup (map fst alleles).
  Proof.
    induction ras as [|ra r IH]; intros st del acc st' del' alleles Hn H; cbn [allele_loop] in H.
    - injection H as <- <- <-. exact Hn.
    - destruct (ra_ignored ra); [eapply IH; eassumption|].
      destruct (existsb _ (ra_entries ra)).
      + eapply IH; [|exact H]. apply aset_keys_nodup, Hn.
      + destruct (process_list _ _ _ _ _ _ _ _ _) as [[st1 ms]|]; [|discriminate]. eapply IH; [|exact H]. apply aset_keys_nodup, Hn.
  Qed.

  (* --- grouping and make_major *)
  Variables (alleles : list (str * premin)) (cfgs : list (str * cnconf)).
  Hypothesis Hnd : NoDup (map fst alleles).
  Definition gk (ap : str * premin) : gkey :=
    (match config_of cfgs (fst ap) with Some c => c | None => [] end, filter (is_functional muts) (pm_muts (snd ap))).
  Definition gk_of (n : str) : gkey :=
    match alookup str_eqb n alleles with Some pm => gk (n, pm) | None => ([], []) end.
  Definition the_groups : list (gkey * list str) := gfold gkey_eqb gk fst alleles [].

  Lemma gk_of_val ap : In ap alleles -> gk_of (fst ap) = gk ap.
  Proof. intros H. unfold gk_of. destruct ap as [n pm]. cbn [fst]. rewrite (alookup_nodup_in n pm alleles Hnd H). reflexivity. Qed.

  Lemma make_major_CS changed name g : In g the_groups -> CS (make_major alleles changed name g).
  Proof.
    intros Hg. split; cbn [make_major ma_core ma_minors].
    - intros x Hx.
      assert (Hk : In (fst g) (map fst the_groups)) by (apply in_map, Hg).
      apply gfold_keys_from in Hk as [[]|(ap & _ & E)]. rewrite <- E in Hx. unfold gk in Hx. cbn [snd] in Hx.
      apply filter_In in Hx. apply Hx.
    - intros m x Hm Hx. apply in_flat_map in Hm as (sa & Hsa & Hm). apply isort_in in Hsa.
      destruct (alookup str_eqb sa alleles) as [pm|] eqn:El; [|destruct Hm]. destruct Hm as [<-|[]]. cbn [mi_muts] in Hx.
      assert (Ek : gk_of sa = fst g).
      { destruct g as [k ns]. cbn [fst snd] in *.
        eapply (gfold_key_consistent gkey_eqb gkey_eqb_eq gk fst gk_of alleles); [intros ap Hap; apply gk_of_val, Hap| |exact Hg|exact Hsa].
        intros ? ? ? []. }
      unfold gk_of in Ek. rewrite El in Ek. rewrite <- Ek in Hx. unfold gk in Hx. cbn [snd] in Hx.
      apply (core_split_partial muts (pm_muts pm)) in Hx. apply Hx.
  Qed.
End Split.

(* ------------------------------------------------------------------ partial alleles and duplicate removal keep the clause *)
Section Steps.
  Variable muts : list (mkey * minfo9).
  Notation CS := (CS muts).
  Notation CSd := (CSd muts).

  Lemma minor_upd_in m l y : In y (minor_upd m l) -> y = m \/ In y l.
  Proof.
    unfold minor_upd. destruct (existsb _ l).
    - intros H. apply in_map_iff in H as (x & E & Hx). destruct (str_eqb (mi_name x) (mi_name m)); [left; symmetry; exact E|right; rewrite <- E; exact Hx].
    - intros H. apply in_app_or in H as [H|[<-|[]]]; [right; exact H|left; reflexivity].
  Qed.
  Lemma fold_minor_upd_in pms : forall l y, In y (fold_left (fun l m => minor_upd m l) pms l) -> In y pms \/ In y l.
  Proof.
    induction pms as [|m pms IH]; intros l y; cbn [fold_left]; [auto|]. intros H. apply IH in H as [H|H]; [left; right; exact H|].
    apply minor_upd_in in H as [->|H]; [left; left; reflexivity|right; exact H].
  Qed.
  Lemma partial_minors_nf regs cfgs f a : CS a -> forall m x, In m (partial_minors regs cfgs f a) -> In x (mi_muts m) -> is_functional muts x = false.
  Proof.
    intros [_ C] m x Hm Hx. unfold partial_minors in Hm. apply in_map_iff in Hm as (sa & <- & Hsa). cbn [mi_muts] in Hx.
    apply preserved_spec in Hx as [Hx _]. eapply C; eassumption.
  Qed.
  Lemma add_partial_CS regs cfgs f add a : (forall kv, In kv add -> CS (snd kv)) -> CS a ->
    forall kv, In kv (add_partial regs cfgs f add a) -> CS (snd kv).
  Proof.
    intros Hadd Ha kv. unfold add_partial. destruct (amem mset_eqb _ add).
    - intros H. apply in_map_iff in H as (kv0 & E & H0). specialize (Hadd kv0 H0). destruct (mset_eqb _ (fst kv0)); [|rewrite <- E; exact Hadd].
      rewrite <- E. cbn [snd]. destruct Hadd as [C1 C2]. split; cbn [ma_core ma_minors]; [exact C1|].
      intros m x Hm Hx. apply fold_minor_upd_in in Hm as [Hm|Hm]; [eapply partial_minors_nf; eassumption|eapply C2; eassumption].
    - intros H. apply in_app_or in H as [H|[<-|[]]]; [apply Hadd, H|]. cbn [snd]. split; cbn [ma_core ma_minors].
      + intros x Hx. apply preserved_spec in Hx as [Hx _]. apply Ha, Hx.
      + intros m x Hm Hx. apply fold_minor_upd_in in Hm as [Hm|[]]. eapply partial_minors_nf; eassumption.
  Qed.
  Lemma partial_step_CS regs cfgs als f als' : CSd als -> partial_step regs cfgs (Some als) f = Some als' -> CSd als'.
  Proof.
    intros Hals H. unfold partial_step in H. destruct (alookup str_eqb f als) as [fa|]; [|discriminate].
    destruct (negb _); [injection H as <-; exact Hals|]. injection H as <-.
    set (step := fun add (kv : str * majorA) => if str_eqb (ma_cfg (snd kv)) [49] then add_partial regs cfgs f add (snd kv) else add).
    assert (Hadd : forall l add, (forall kv, In kv l -> CS (snd kv)) -> (forall kv, In kv add -> CS (snd kv)) ->
                                 forall kv, In kv (fold_left step l add) -> CS (snd kv)).
    { induction l as [|kv0 l IH]; intros add Hl Ha; cbn [fold_left]; [exact Ha|]. apply IH; [intros; apply Hl; right; assumption|].
      unfold step. destruct (str_eqb _ _); [|exact Ha]. apply add_partial_CS; [exact Ha|apply Hl; left; reflexivity]. }
    specialize (Hadd als [] Hals (fun _ F => match F with end)).
    generalize dependent (fold_left step als []). intros add Hadd.
    assert (G : forall d, CSd d -> CSd (fold_left (fun l (kv : list mut * majorA) => aset str_eqb (ma_name (snd kv)) (snd kv) l) add d)).
    { induction add as [|kv0 add IH]; intros d Hd; cbn [fold_left]; [exact Hd|]. apply IH; [intros; apply Hadd; right; assumption|].
      intros kv Hkv. apply in_aset_val in Hkv as [E|Hkv]; [rewrite E; apply Hadd; left; reflexivity|apply Hd, Hkv]. }
    apply G. intros kv Hkv. apply in_adel in Hkv. apply Hals, Hkv.
  Qed.
  Lemma partial_steps_none regs cfgs lefts : fold_left (partial_step regs cfgs) lefts None = None.
  Proof. induction lefts as [|f l IH]; cbn [fold_left]; [reflexivity|exact IH]. Qed.
  Lemma partial_steps_CS regs cfgs lefts : forall als als', CSd als -> fold_left (partial_step regs cfgs) lefts (Some als) = Some als' -> CSd als'.
  Proof.
    induction lefts as [|f l IH]; intros als als' Hals H; cbn [fold_left] in H; [injection H as <-; exact Hals|].
    destruct (partial_step regs cfgs (Some als) f) as [als1|] eqn:E; [|rewrite partial_steps_none in H; discriminate].
    eapply IH; [|exact H]. eapply partial_step_CS; eassumption.
  Qed.

  Lemma dedup_major_CS a : CS a -> CS (fst (dedup_major a)).
  Proof.
    intros [C1 C2]. unfold dedup_major. cbn [fst]. split; cbn [ma_core ma_minors]; [exact C1|].
    intros m x Hm Hx. apply in_flat_map in Hm as (g & Hg & Hm).
    destruct (str_min _) as [mn|]; [|destruct Hm]. destruct (find _ (snd g)) as [y|]; [|destruct Hm]. destruct Hm as [<-|[]]. cbn [mi_muts] in Hx.
    assert (Hk : In (fst g) (map fst (group_by mset_eqb mi_muts (ma_minors a)))) by (apply in_map, Hg).
    change (group_by mset_eqb mi_muts (ma_minors a)) with (gfold mset_eqb mi_muts (fun m : minorA => m) (ma_minors a) []) in Hk.
    apply gfold_keys_from in Hk as [[]|(v & Hv & E)]. rewrite <- E in Hx. eapply C2; eassumption.
  Qed.
  Lemma final_of_CS withp : CSd withp -> CSd (final_of withp).
  Proof.
    intros H [k a] Hin. apply final_of_in in Hin as (a0 & Hin & ->). cbn [snd]. apply dedup_major_CS. apply (H _ Hin).
  Qed.
End Steps.

(* ------------------------------------------------------------------ every catalogue the loader returns *)
Lemma majors_CS muts alleles cfgs changed (Hnd : NoDup (map fst alleles)) : forall (l : list ((gkey * list str) * (gkey * str))) d,
  (forall gn, In gn l -> In (fst gn) (the_groups muts alleles cfgs)) -> CSd muts d ->
  CSd muts (fold_left (fun l (gn : (gkey * list str) * (gkey * str)) =>
                         aset str_eqb (snd (snd gn)) (make_major alleles changed (snd (snd gn)) (fst gn)) l) l d).
Proof.
  induction l as [|gn l IH]; intros d Hl Hd; cbn [fold_left]; [exact Hd|]. apply IH; [intros; apply Hl; right; assumption|].
  intros kv Hkv. apply in_aset_val in Hkv as [E|Hkv]; [|apply Hd, Hkv]. rewrite E.
  apply (make_major_CS muts alleles cfgs Hnd). apply Hl. left. reflexivity.
Qed.

Theorem load_core_split t al db c : load t al db = Some c -> CSd (cat_muts c) (cat_alleles c).
Proof.
  intros H. unfold load in H. repeat inv_match H. injection H as <-. cbn [cat_alleles cat_muts].
  match goal with Ha : allele_loop _ _ _ _ _ _ _ _ _ = Some (?st3, _, ?alleles) |- _ =>
    assert (Hnd : NoDup (map fst alleles)) by (eapply allele_loop_nodup; [|exact Ha]; constructor) end.
  apply final_of_CS.
  match goal with Hp : fold_left (partial_step _ _) _ (Some _) = Some _ |- _ => eapply partial_steps_CS; [|exact Hp] end.
  rewrite fold_left_map.
  eapply majors_CS; [exact Hnd| |intros ? []].
  intros gn Hgn. destruct gn as [g nm]. apply in_combine_l in Hgn. cbn [fst]. exact Hgn.
Qed.

Theorem load_p_core_split t al db c : load t al db = Some c -> p_core_split c = true.
Proof.
  intros H. pose proof (load_core_split _ _ _ _ H) as C. unfold p_core_split, majors. apply forallb_forall. intros a Ha.
  apply in_map_iff in Ha as (kv & <- & Hkv). destruct (C kv Hkv) as [C1 C2]. apply andb_true_iff. split.
  - apply forallb_forall. exact C1.
  - apply forallb_forall. intros m Hm. apply forallb_forall. intros x Hx. rewrite (C2 m x Hm Hx). reflexivity.
Qed.

(* ------------------------------------------------------------------ the dictionary of major alleles: keys are the names, no name twice *)
Definition KN (d : list (str * majorA)) : Prop := NoDup (map fst d) /\ forall kv, In kv d -> fst kv = ma_name (snd kv).

Lemma in_aset_kv {V} k (v : V) l kv : In kv (aset str_eqb k v l) -> kv = (k, v) \/ In kv l \/ (snd kv = v /\ In (fst kv) (map fst l) /\ str_eqb k (fst kv) = true).
Proof.
  induction l as [|[k' v'] r IH]; cbn [aset].
  - intros [<-|[]]. left. reflexivity.
  - destruct (str_eqb k k') eqn:E.
    + intros [<-|H]; [right; right; cbn [fst snd map]; repeat split; [left; reflexivity|exact E]|right; left; right; exact H].
    + intros [<-|H]; [right; left; left; reflexivity|]. destruct (IH H) as [G|[G|(G1 & G2 & G3)]]; [left; exact G|right; left; right; exact G|].
      right. right. cbn [map fst]. repeat split; [exact G1|right; exact G2|exact G3].
Qed.
Lemma aset_KN k a d : KN d -> k = ma_name a -> KN (aset str_eqb k a d).
Proof.
  intros [N E] Hk. split; [apply aset_keys_nodup, N|]. intros kv H. apply in_aset_kv in H as [->|[H|(H1 & _ & H3)]].
  - exact Hk.
  - apply E, H.
  - apply str_eqb_eq' in H3. rewrite <- H3, H1. exact Hk.
Qed.
Lemma adel_keys_sub {V} k (l : list (str * V)) x : In x (map fst (adel k l)) -> In x (map fst l).
Proof.
  induction l as [|[k' v'] r IH]; cbn [adel map fst]; [auto|]. destruct (str_eqb k k'); [intros H; right; exact H|].
  cbn [map fst]. intros [<-|H]; [left; reflexivity|right; apply IH, H].
Qed.
Lemma adel_KN k d : KN d -> KN (adel k d).
Proof.
  intros [N E]. split; [|intros kv H; apply E; eapply in_adel; exact H].
  clear E. induction d as [|[k' v'] r IH]; cbn [adel]; [constructor|]. cbn [map fst] in N. apply NoDup_cons_iff in N as [N1 N2].
  destruct (str_eqb k k'); [exact N2|]. cbn [map fst]. constructor; [|apply IH, N2]. intros H. apply N1. eapply adel_keys_sub. exact H.
Qed.
Lemma partial_step_KN regs cfgs als f als' : KN als -> partial_step regs cfgs (Some als) f = Some als' -> KN als'.
Proof.
  intros Hals H. unfold partial_step in H. destruct (alookup str_eqb f als) as [fa|]; [|discriminate].
  destruct (negb _); [injection H as <-; exact Hals|]. injection H as <-.
  generalize (fold_left (fun add (kv : str * majorA) => if str_eqb (ma_cfg (snd kv)) [49] then add_partial regs cfgs f add (snd kv) else add) als []).
  intros add. generalize (adel_KN f als Hals). generalize (adel f als). induction add as [|kv0 add IH]; intros d Hd; cbn [fold_left]; [exact Hd|].
  apply IH. apply aset_KN; [exact Hd|reflexivity].
Qed.
Lemma partial_steps_KN regs cfgs lefts : forall als als', KN als -> fold_left (partial_step regs cfgs) lefts (Some als) = Some als' -> KN als'.
Proof.
  induction lefts as [|f l IH]; intros als als' Hals H; cbn [fold_left] in H; [injection H as <-; exact Hals|].
  destruct (partial_step regs cfgs (Some als) f) as [als1|] eqn:E; [|rewrite partial_steps_none in H; discriminate].
  eapply IH; [|exact H]. eapply partial_step_KN; eassumption.
Qed.
Lemma final_of_KN withp : KN withp -> KN (final_of withp).
Proof.
  intros [N E]. unfold final_of. rewrite map_map. cbn [fst snd]. split.
  - rewrite map_map. cbn [fst]. exact N.
  - intros kv H. apply in_map_iff in H as (kv0 & <- & H0). cbn [fst snd]. rewrite (E _ H0). unfold dedup_major. reflexivity.
Qed.
Lemma majors_KN alleles changed : forall (l : list ((gkey * list str) * (gkey * str))) d, KN d ->
  KN (fold_left (fun l (gn : (gkey * list str) * (gkey * str)) =>
                   aset str_eqb (snd (snd gn)) (make_major alleles changed (snd (snd gn)) (fst gn)) l) l d).
Proof. induction l as [|gn l IH]; intros d Hd; cbn [fold_left]; [exact Hd|]. apply IH. apply aset_KN; [exact Hd|reflexivity]. Qed.

Theorem load_names_unique t al db c : load t al db = Some c ->
  NoDup (map fst (cat_alleles c)) /\ forall kv, In kv (cat_alleles c) -> fst kv = ma_name (snd kv).
Proof.
  intros H. unfold load in H. repeat inv_match H. injection H as <-. cbn [cat_alleles].
  apply final_of_KN.
  match goal with Hp : fold_left (partial_step _ _) _ (Some _) = Some _ |- _ => eapply partial_steps_KN; [|exact Hp] end.
  apply majors_KN. split; [constructor|intros ? []].
Qed.

(* ------------------------------------------------------------------ partial alleles carry only variants in regions their fusion retains
   Every major allele of every catalogue the loader returns is either made of database alleles (none of its minor alleles has '#'
   in its name) or - the partial alleles built for the left fusions - all its variants, core and minor, lie in regions in which
   its own structural configuration has a positive copy number.  Side condition on the database: no allele name contains '#'. *)
Definition hash_free (db : rawdb) : bool := forallb (fun ra => negb (has_char 35 (allele_name (ra_key ra)))) (rd_alleles db).

Lemma aset_keys_from {V} k (v : V) l x : In x (map fst (aset str_eqb k v l)) -> x = k \/ In x (map fst l).
Proof. apply aset_keys_in. Qed.
Lemma allele_loop_keys t al db regs groups ras : forall st del acc st' del' alleles,
  allele_loop t al db regs groups ras st del acc = Some (st', del', alleles) ->
  forall n, In n (map fst alleles) -> In n (map fst acc) \/ In n (map (fun ra => allele_name (ra_key ra)) ras).
Proof.
  induction ras as [|ra r IH]; intros st del acc st' del' alleles H n Hn; cbn [allele_loop] in H.
  - injection H as <- <- <-. left. exact Hn.
  - destruct (ra_ignored ra).
    + destruct (IH _ _ _ _ _ _ H n Hn) as [G|G]; [left; exact G|right; right; exact G].
    + destruct (existsb _ (ra_entries ra)).
      * destruct (IH _ _ _ _ _ _ H n Hn) as [G|G]; [|right; right; exact G].
        apply aset_keys_from in G as [->|G]; [right; left; reflexivity|left; exact G].
      * destruct (process_list _ _ _ _ _ _ _ _ _) as [[st1 ms]|]; [|discriminate].
        destruct (IH _ _ _ _ _ _ H n Hn) as [G|G]; [|right; right; exact G].
        apply aset_keys_from in G as [->|G]; [right; left; reflexivity|left; exact G].
Qed.

Section Retained.
  Variables (regs : list (list region)) (cfgs : list (str * cnconf)).
  Definition nohash (a : majorA) : Prop := forall m, In m (ma_minors a) -> has_char 35 (mi_name m) = false.
  Definition PRT (a : majorA) : Prop :=
    (forall x, In x (ma_core a) -> retained regs cfgs (ma_cfg a) x = true) /\
    (forall m x, In m (ma_minors a) -> In x (mi_muts m) -> retained regs cfgs (ma_cfg a) x = true).
  Definition RP (d : list (str * majorA)) : Prop := forall kv, In kv d -> nohash (snd kv) \/ PRT (snd kv).

  Lemma partial_minors_ret f a m x : In m (partial_minors regs cfgs f a) -> In x (mi_muts m) -> retained regs cfgs f x = true.
  Proof. unfold partial_minors. intros Hm Hx. apply in_map_iff in Hm as (sa & <- & _). cbn [mi_muts] in Hx. apply preserved_spec in Hx. apply Hx. Qed.

  Lemma add_partial_PRT f add a : (forall kv, In kv add -> ma_cfg (snd kv) = f /\ PRT (snd kv)) ->
    forall kv, In kv (add_partial regs cfgs f add a) -> ma_cfg (snd kv) = f /\ PRT (snd kv).
  Proof.
    intros Hadd kv. unfold add_partial. destruct (amem mset_eqb _ add).
    - intros H. apply in_map_iff in H as (kv0 & E & H0). destruct (Hadd kv0 H0) as [Ef [P1 P2]].
      destruct (mset_eqb _ (fst kv0)); [|rewrite <- E; split; [exact Ef|split; assumption]].
      rewrite <- E. cbn [snd ma_cfg]. split; [exact Ef|]. split; cbn [ma_core ma_minors ma_cfg]; [exact P1|].
      intros m x Hm Hx. apply fold_minor_upd_in in Hm as [Hm|Hm]; [|eapply P2; eassumption].
      rewrite Ef. eapply partial_minors_ret; eassumption.
    - intros H. apply in_app_or in H as [H|[<-|[]]]; [apply Hadd, H|]. cbn [snd ma_cfg]. split; [reflexivity|].
      split; cbn [ma_core ma_minors ma_cfg].
      + intros x Hx. apply preserved_spec in Hx. apply Hx.
      + intros m x Hm Hx. apply fold_minor_upd_in in Hm as [Hm|[]]. eapply partial_minors_ret; eassumption.
  Qed.
  Lemma partial_step_RP als f als' : RP als -> partial_step regs cfgs (Some als) f = Some als' -> RP als'.
  Proof.
    intros Hals H. unfold partial_step in H. destruct (alookup str_eqb f als) as [fa|]; [|discriminate].
    destruct (negb _); [injection H as <-; exact Hals|]. injection H as <-.
    set (step := fun add (kv : str * majorA) => if str_eqb (ma_cfg (snd kv)) [49] then add_partial regs cfgs f add (snd kv) else add).
    assert (Hadd : forall l add, (forall kv, In kv add -> ma_cfg (snd kv) = f /\ PRT (snd kv)) ->
                                 forall kv, In kv (fold_left step l add) -> ma_cfg (snd kv) = f /\ PRT (snd kv)).
    { induction l as [|kv0 l IH]; intros add Ha; cbn [fold_left]; [exact Ha|]. apply IH.
      unfold step. destruct (str_eqb _ _); [|exact Ha]. apply add_partial_PRT. exact Ha. }
    specialize (Hadd als [] (fun _ F => match F with end)).
    generalize dependent (fold_left step als []). intros add Hadd.
    assert (G : forall d, RP d -> RP (fold_left (fun l (kv : list mut * majorA) => aset str_eqb (ma_name (snd kv)) (snd kv) l) add d)).
    { induction add as [|kv0 add IH]; intros d Hd; cbn [fold_left]; [exact Hd|]. apply IH; [intros; apply Hadd; right; assumption|].
      intros kv Hkv. apply in_aset_val in Hkv as [E|Hkv]; [rewrite E; right; apply (Hadd kv0 (or_introl eq_refl))|apply Hd, Hkv]. }
    apply G. intros kv Hkv. apply in_adel in Hkv. apply Hals, Hkv.
  Qed.
  Lemma partial_steps_RP lefts : forall als als', RP als -> fold_left (partial_step regs cfgs) lefts (Some als) = Some als' -> RP als'.
  Proof.
    induction lefts as [|f l IH]; intros als als' Hals H; cbn [fold_left] in H; [injection H as <-; exact Hals|].
    destruct (partial_step regs cfgs (Some als) f) as [als1|] eqn:E; [|rewrite partial_steps_none in H; discriminate].
    eapply IH; [|exact H]. eapply partial_step_RP; eassumption.
  Qed.
  Lemma dedup_major_RP a : nohash a \/ PRT a -> nohash (fst (dedup_major a)) \/ PRT (fst (dedup_major a)).
  Proof.
    assert (S : forall m, In m (ma_minors (fst (dedup_major a))) -> exists m0, In m0 (ma_minors a) /\ mi_name m = mi_name m0 /\
                  exists m1, In m1 (ma_minors a) /\ mi_muts m = mi_muts m1).
    { unfold dedup_major. cbn [fst ma_minors]. intros m Hm. apply in_flat_map in Hm as (g & Hg & Hm).
      (* members of a group are minors of a with the group's key *)
      assert (Hcons : forall v, In v (snd g) -> mi_muts v = fst g /\ In v (ma_minors a)).
      { intros v Hv. destruct g as [k0 vs]. cbn [fst snd] in *. split.
        - eapply (gfold_key_consistent mset_eqb mset_eqb_eq mi_muts (fun m : minorA => m) mi_muts (ma_minors a)); eauto. intros ? ? ? [].
        - pose proof (gfold_members mset_eqb mi_muts (fun m : minorA => m) (ma_minors a) []) as P. cbn [members map concat app] in P.
          rewrite map_id in P. eapply Permutation_in; [exact P|]. unfold members. apply in_concat. exists vs. split; [|exact Hv].
          apply in_map_iff. exists (k0, vs). auto. }
      destruct (str_min (map mi_name (snd g))) as [mn|] eqn:Emin; [|destruct Hm].
      destruct (find (fun x => str_eqb (mi_name x) mn) (snd g)) as [y|] eqn:Ef; [|destruct Hm]. destruct Hm as [<-|[]].
      apply find_some in Ef as [Hy Ey]. apply str_eqb_eq' in Ey. destruct (Hcons y Hy) as [Ky Iy].
      exists y. split; [exact Iy|]. split; [cbn [mi_name]; symmetry; exact Ey|]. exists y. split; [exact Iy|]. cbn [mi_muts]. symmetry. exact Ky. }
    intros [N|[P1 P2]].
    - left. intros m Hm. destruct (S m Hm) as (m0 & H0 & E & _). rewrite E. apply N, H0.
    - right. split; [exact P1|]. intros m x Hm Hx. destruct (S m Hm) as (_ & _ & _ & m1 & H1 & E). rewrite E in Hx.
      change (ma_cfg (fst (dedup_major a))) with (ma_cfg a). eapply P2; eassumption.
  Qed.
  Lemma final_of_RP withp : RP withp -> RP (final_of withp).
  Proof. intros H [k a] Hin. apply final_of_in in Hin as (a0 & Hin & ->). cbn [snd]. apply dedup_major_RP. apply (H _ Hin). Qed.
End Retained.

Lemma cn_at_map cfgs (h : str * cnconf -> cnconf) f gr : (forall kc, cc_cn (h kc) = cc_cn (snd kc)) ->
  cn_at (map (fun kc => (fst kc, h kc)) cfgs) f gr = cn_at cfgs f gr.
Proof.
  intros Hh. unfold cn_at. induction cfgs as [|[k0 c0] r IH]; [reflexivity|]. cbn [map alookup fst snd].
  destruct (str_eqb f k0); [rewrite Hh; reflexivity|exact IH].
Qed.
Lemma retained_map regs cfgs (h : str * cnconf -> cnconf) f x : (forall kc, cc_cn (h kc) = cc_cn (snd kc)) ->
  retained regs (map (fun kc => (fst kc, h kc)) cfgs) f x = retained regs cfgs f x.
Proof. intros Hh. unfold retained. destruct (region_at regs (fst x)) as [gr|]; [|reflexivity]. rewrite cn_at_map by exact Hh. reflexivity. Qed.

Lemma group_members_from {K V X} (eqb : K -> K -> bool) (key : X -> K) (val : X -> V) l g k vs v :
  g = gfold eqb key val l [] -> In (k, vs) g -> In v vs -> In v (map val l).
Proof.
  intros -> Hg Hv. pose proof (gfold_members eqb key val l []) as P. cbn [members map concat app] in P.
  eapply Permutation_in; [exact P|]. unfold members. apply in_concat. exists vs. split; [|exact Hv]. apply in_map_iff. exists (k, vs). auto.
Qed.

Lemma majors_RP regs cfgs alleles changed : (forall n, In n (map fst alleles) -> has_char 35 n = false) ->
  forall (l : list ((gkey * list str) * (gkey * str))) d, RP regs cfgs d ->
  RP regs cfgs (fold_left (fun l (gn : (gkey * list str) * (gkey * str)) =>
                             aset str_eqb (snd (snd gn)) (make_major alleles changed (snd (snd gn)) (fst gn)) l) l d).
Proof.
  intros NH. induction l as [|gn l IH]; intros d Hd; cbn [fold_left]; [exact Hd|]. apply IH.
  intros kv Hkv. apply in_aset_val in Hkv as [E|Hkv]; [|apply Hd, Hkv]. rewrite E. left.
  intros m Hm. cbn [make_major ma_minors] in Hm. apply in_flat_map in Hm as (sa & _ & Hm).
  destruct (alookup str_eqb sa alleles) as [pm|] eqn:El; [|destruct Hm]. destruct Hm as [<-|[]]. cbn [mi_name].
  apply NH. apply in_map_iff. exists (sa, pm). split; [reflexivity|].
  clear - El. induction alleles as [|[k v] r IH]; [discriminate|]. cbn [alookup] in El. destruct (str_eqb sa k) eqn:E.
  - apply str_eqb_eq' in E. subst k. injection El as ->. left. reflexivity.
  - right. apply IH. exact El.
Qed.

Theorem load_partials_retained t al db c : load t al db = Some c -> hash_free db = true ->
  forall kv, In kv (cat_alleles c) ->
    (forall m, In m (ma_minors (snd kv)) -> has_char 35 (mi_name m) = false) \/
    ((forall x, In x (ma_core (snd kv)) -> retained (cat_regions c) (cat_cfgs c) (ma_cfg (snd kv)) x = true) /\
     (forall m x, In m (ma_minors (snd kv)) -> In x (mi_muts m) -> retained (cat_regions c) (cat_cfgs c) (ma_cfg (snd kv)) x = true)).
Proof.
  intros H HF. unfold load in H. repeat inv_match H. injection H as <-. cbn [cat_alleles cat_regions cat_cfgs].
  match goal with Ha : allele_loop _ _ _ _ _ _ _ _ _ = Some (_, _, ?alleles) |- _ =>
    assert (NH : forall nm, In nm (map fst alleles) -> has_char 35 nm = false);
    [intros nm Hnm; destruct (allele_loop_keys _ _ _ _ _ _ _ _ _ _ _ _ Ha nm Hnm) as [[]|G];
     apply in_map_iff in G as (ra & <- & Hra); unfold hash_free in HF; rewrite forallb_forall in HF; specialize (HF ra Hra);
     apply negb_true_iff in HF; exact HF|] end.
  match goal with Hp : fold_left (partial_step ?regs ?cfgs) _ (Some _) = Some ?withp |- _ =>
    assert (R : RP regs cfgs (final_of withp));
    [apply final_of_RP; eapply partial_steps_RP; [|exact Hp]; apply majors_RP; [exact NH|intros ? []]|] end.
  intros kv Hkv. destruct (R kv Hkv) as [N|[P1 P2]]; [left; exact N|right].
  split.
  - intros x Hx. rewrite retained_map by (intros; reflexivity). apply P1, Hx.
  - intros m x Hm Hx. rewrite retained_map by (intros; reflexivity). eapply P2; eassumption.
Qed.
