(* DumpProofs.v — the debug dump round trip (C17): decode (encode s) is equal to s on every observable, and any pipeline that
   reads a sample only through its observables gives the same result on the decoded dump whenever the parameters the reader
   resets had their reset values. *)
From Coq Require Import String Permutation.
From Aldy Require Import Base Consts Params ParamsProofs Dump.
Import List.
Open Scope Z_scope.

(* ---------- Counter / expansion ---------- *)
Lemma qual_eqb_eq : forall a b, qual_eqb a b = true -> a = b.
Proof.
  intros [a1 a2] [b1 b2]. unfold qual_eqb. cbn. intros H. apply andb_true_iff in H. destruct H as [H1 H2].
  apply Z.eqb_eq in H1. apply Z.eqb_eq in H2. subst. reflexivity.
Qed.

Definition nonneg (c : list (qual * Z)) : Prop := Forall (fun qn => 0 <= snd qn) c.

Lemma cnt_add_nonneg : forall q c, nonneg c -> nonneg (cnt_add q c).
Proof.
  unfold nonneg. induction c as [|[q' n] t IH]; cbn; intros H.
  - constructor; [cbn; lia|constructor].
  - inversion H as [|? ? Hn Ht]; subst. cbn in Hn. destruct (qual_eqb q q').
    + constructor; [cbn; lia|exact Ht].
    + constructor; [exact Hn|]. apply IH. exact Ht.
Qed.

Lemma expand_cnt_add : forall q c, nonneg c -> Permutation (expand (cnt_add q c)) (q :: expand c).
Proof.
  unfold nonneg. induction c as [|[q' n] t IH]; intros H.
  - cbn. constructor. constructor.
  - inversion H as [|? ? Hn Ht]; subst. cbn in Hn. cbn [cnt_add]. destruct (qual_eqb q q') eqn:E.
    + apply qual_eqb_eq in E. subst q'. unfold expand. cbn [flat_map fst snd].
      replace (Z.to_nat (n + 1)) with (S (Z.to_nat n)) by lia. cbn [repeat]. reflexivity.
    + unfold expand in *. cbn [flat_map fst snd]. rewrite (IH Ht). symmetry. apply Permutation_middle.
Qed.

Lemma fold_counter : forall l c, nonneg c ->
  nonneg (fold_left (fun c q => cnt_add q c) l c) /\
  Permutation (expand (fold_left (fun c q => cnt_add q c) l c)) (expand c ++ l).
Proof.
  induction l as [|q l IH]; intros c H; cbn [fold_left].
  - split; [exact H|]. rewrite app_nil_r. reflexivity.
  - destruct (IH (cnt_add q c) (cnt_add_nonneg q c H)) as [N P]. split; [exact N|].
    rewrite P. rewrite (expand_cnt_add q c H). cbn. apply Permutation_middle.
Qed.

Theorem expand_counter : forall l, Permutation (expand (counter l)) l.
Proof.
  intros l. unfold counter. destruct (fold_counter l [] (Forall_nil _)) as [_ P]. rewrite P. reflexivity.
Qed.

Lemma cells_roundtrip : forall (K : Type) (l : list (K * list qual)),
  cells_equiv (map (fun pc => (fst pc, expand (snd pc))) (map (fun pc => (fst pc, counter (snd pc))) l)) l.
Proof.
  intros K. unfold cells_equiv. induction l as [|[k c] l IH]; cbn; constructor; auto.
  cbn. split; [reflexivity|apply expand_counter].
Qed.

(* ---------- phase records ---------- *)
Lemma map_snd_number_from : forall l i, map snd (number_from i l) = l.
Proof. induction l as [|r t IH]; intros i; cbn; [reflexivity|]. f_equal. apply IH. Qed.

Lemma filter_idem : forall (A : Type) (f : A -> bool) l, filter f (filter f l) = filter f l.
Proof.
  intros A f. induction l as [|x t IH]; cbn; [reflexivity|].
  destruct (f x) eqn:E; cbn; [rewrite E; f_equal|]; exact IH.
Qed.

Lemma filter_len_le : forall (A : Type) (f : A -> bool) l, (length (filter f l) <= length l)%nat.
Proof. intros A f. induction l as [|x t IH]; cbn; [lia|]. destruct (f x); cbn; lia. Qed.

Lemma multi_filter : forall (f : site -> bool) r, multi (filter f r) = true -> multi r = true.
Proof.
  intros f r. unfold multi. intros H. apply Z.ltb_lt in H. apply Z.ltb_lt.
  pose proof (filter_len_le _ f r). lia.
Qed.

Lemma restrict_multi : forall positions r, multi (restrict positions r) = true -> multi r = true.
Proof. intros positions r. unfold restrict. apply multi_filter. Qed.

Lemma modes_of_multi : forall positions (l : list (list site)),
  filter multi (map (restrict positions) (filter multi l)) = filter multi (map (restrict positions) l).
Proof.
  intros positions. induction l as [|r t IH]; cbn; [reflexivity|].
  destruct (multi r) eqn:E; cbn.
  - destruct (multi (restrict positions r)); [f_equal|]; exact IH.
  - destruct (multi (restrict positions r)) eqn:E2; [|exact IH].
    apply restrict_multi in E2. congruence.
Qed.

Lemma phase_modes_records : forall positions ph,
  phase_modes positions ph = filter multi (map (restrict positions) (filter multi (map snd ph))).
Proof.
  intros positions ph. unfold phase_modes. rewrite modes_of_multi. rewrite map_map. reflexivity.
Qed.

(* ---------- parameters ---------- *)
Lemma str_dec : forall a b : str, {a = b} + {a <> b}.
Proof. apply list_eq_dec. apply Z.eq_dec. Qed.

Lemma apply_resets_other : forall c d n, ~ In n (reset_names c) ->
  alookup str_eqb n (apply_resets c d) = alookup str_eqb n d.
Proof.
  intros c d n H. unfold apply_resets, reset_names, resets in *. cbn in *.
  repeat (rewrite alookup_aset_other; [|intro E; apply H; subst; tauto]). reflexivity.
Qed.

Lemma apply_resets_value : forall c d n v, In (n, v) (resets c) -> alookup str_eqb n (apply_resets c d) = Some v.
Proof.
  intros c d n v H. unfold apply_resets, resets in *. cbn in H. cbn [fold_left fst snd].
  destruct H as [H|[H|[H|[H|[]]]]]; injection H as <- <-.
  - rewrite alookup_aset_other; [|discriminate]. rewrite alookup_aset_other; [|discriminate].
    rewrite alookup_aset_other; [|discriminate]. apply alookup_aset_same.
  - rewrite alookup_aset_other; [|discriminate]. rewrite alookup_aset_other; [|discriminate]. apply alookup_aset_same.
  - rewrite alookup_aset_other; [|discriminate]. apply alookup_aset_same.
  - apply alookup_aset_same.
Qed.

(* ---------- the round trip ---------- *)
Theorem dump_roundtrip : forall c lo hi genome x,
  sample_equiv (reset_names c) (decode c (encode Fixed lo hi genome x)) x /\
  (forall n v, In (n, v) (resets c) -> alookup str_eqb n (s_profile (decode c (encode Fixed lo hi genome x))) = Some v) /\
  dump_genome (encode Fixed lo hi genome x) = genome /\
  (forall r, In r (map snd (s_phases (decode c (encode Fixed lo hi genome x)))) -> multi r = true).
Proof.
  intros c lo hi genome x. split; [|split; [|split]].
  - unfold sample_equiv. cbn [decode encode s_name s_payload s_neutral s_fusion s_indel s_norm s_muts s_profile
                              d_name d_payload d_neutral d_fusion d_indel d_norm d_muts d_profile written_norm].
    do 5 (split; [reflexivity|]).
    split; [apply cells_roundtrip|]. split; [apply cells_roundtrip|].
    split.
    + unfold multi_records. cbn [decode encode s_phases d_phases]. rewrite map_snd_number_from. apply filter_idem.
    + intros n H. apply apply_resets_other. exact H.
  - intros n v H. cbn [decode encode s_profile d_profile]. apply apply_resets_value. exact H.
  - reflexivity.
  - intros r H. cbn [decode encode s_phases d_phases] in H. rewrite map_snd_number_from in H.
    apply filter_In in H. tauto.
Qed.

(* ---------- observables depend on the equivalence class only ---------- *)
Lemma perm_filter : forall (A : Type) (f : A -> bool) l l', Permutation l l' -> Permutation (filter f l) (filter f l').
Proof.
  intros A f l l' P. induction P; cbn.
  - constructor.
  - destruct (f x); [constructor|]; assumption.
  - destruct (f x); destruct (f y); try apply perm_swap; reflexivity.
  - eapply Permutation_trans; eassumption.
Qed.

Theorem equiv_observables : forall except a b, sample_equiv except a b ->
  (forall positions, phase_modes positions (s_phases a) = phase_modes positions (s_phases b)) /\
  Forall2 (fun x y => fst x = fst y /\ cell_count (snd x) = cell_count (snd y) /\
                      forall mm mq, cell_count_q mm mq (snd x) = cell_count_q mm mq (snd y)) (s_norm a) (s_norm b) /\
  Forall2 (fun x y => fst x = fst y /\ cell_count (snd x) = cell_count (snd y) /\
                      forall mm mq, cell_count_q mm mq (snd x) = cell_count_q mm mq (snd y)) (s_muts a) (s_muts b).
Proof.
  intros except a b [_ [_ [_ [_ [_ [Hn [Hm [Hp _]]]]]]]].
  assert (forall K (u v : list (K * list qual)), cells_equiv u v ->
          Forall2 (fun x y => fst x = fst y /\ cell_count (snd x) = cell_count (snd y) /\
                      forall mm mq, cell_count_q mm mq (snd x) = cell_count_q mm mq (snd y)) u v) as Cells.
  { intros K u v H. induction H as [|x y u v [E P] H IH]; constructor; auto.
    split; [exact E|]. split.
    - unfold cell_count. rewrite (Permutation_length P). reflexivity.
    - intros mm mq. unfold cell_count_q. rewrite (Permutation_length (perm_filter _ _ _ _ P)). reflexivity. }
  split; [|split; apply Cells; assumption].
  intros positions. rewrite !phase_modes_records. unfold multi_records in Hp. rewrite Hp. reflexivity.
Qed.

(* ---------- the reference cell of the coverage table ---------- *)
Lemma cells_lookup : forall (u v : list (Z * list qual)) pos, cells_equiv u v ->
  Permutation (match alookup Z.eqb pos u with Some l => l | None => [] end)
              (match alookup Z.eqb pos v with Some l => l | None => [] end).
Proof.
  intros u v pos H. induction H as [|[k1 c1] [k2 c2] u v [E P] H IH]; cbn; [constructor|].
  cbn in E, P. subst k2. destruct (pos =? k1); [exact P|exact IH].
Qed.

Lemma cells_folded : forall lo hi (u v : list (mkey * list qual)) pos, cells_equiv u v ->
  Permutation (folded lo hi u pos) (folded lo hi v pos).
Proof.
  intros lo hi u v pos H. unfold folded. induction H as [|[k1 c1] [k2 c2] u v [E P] H IH]; cbn; [constructor|].
  cbn in E, P. subst k2. apply Permutation_app; [|exact IH].
  destruct ((fst k1 =? pos) && outside lo hi k1); [exact P|constructor].
Qed.

Theorem equiv_ref_cell : forall except a b lo hi pos, sample_equiv except a b ->
  Permutation (ref_cell lo hi a pos) (ref_cell lo hi b pos).
Proof.
  intros except a b lo hi pos [_ [_ [_ [_ [_ [Hn [Hm _]]]]]]].
  unfold ref_cell, norm_at. apply Permutation_app; [apply cells_lookup; exact Hn|apply cells_folded; exact Hm].
Qed.

(* ---------- the shipped writer ---------- *)
(* it writes what the repaired writer writes exactly when no reference cell with observations receives folded ones *)
Theorem dump_shipped_harmless : forall lo hi genome x,
  (forall pc, In pc (s_norm x) -> snd pc <> [] -> folded lo hi (s_muts x) (fst pc) = []) ->
  encode AsShipped lo hi genome x = encode Fixed lo hi genome x.
Proof.
  intros lo hi genome x H. unfold encode. f_equal. f_equal. unfold written_norm, norm_after_coverage.
  rewrite <- (map_id (s_norm x)) at 2. apply map_ext_in. intros [k c] I. cbn [fst snd].
  destruct c as [|q c']; cbn [nonempty]; [reflexivity|].
  pose proof (H _ I) as F. cbn [fst snd] in F. rewrite F; [|discriminate]. rewrite app_nil_r. reflexivity.
Qed.

(* and it does NOT satisfy the round trip: one deleted base outside the RefSeq window, seen next to one reference
   observation, is counted once by the original sample and twice after the dump *)
Definition refute_sample : sample := {|
  s_name := [83]; s_profile := []; s_payload := OL []; s_neutral := [];
  s_norm := [(5, [(40, 40)])];
  s_muts := [((5, [45]), [(40, 40)])];
  s_phases := []; s_fusion := []; s_indel := [] |}.

Theorem dump_as_shipped_refuted : forall c genome,
  cell_count (ref_cell 10 20 refute_sample 5) = 2 /\
  cell_count (ref_cell 10 20 (decode c (encode AsShipped 10 20 genome refute_sample)) 5) = 3 /\
  cell_count (ref_cell 10 20 (decode c (encode Fixed 10 20 genome refute_sample)) 5) = 2 /\
  ~ sample_equiv (reset_names c) (decode c (encode AsShipped 10 20 genome refute_sample)) refute_sample.
Proof.
  intros c genome. split; [reflexivity|]. split; [reflexivity|]. split; [reflexivity|].
  intros H. pose proof (equiv_ref_cell _ _ _ 10 20 5 H) as P. apply Permutation_length in P. cbn in P. discriminate.
Qed.

(* ---------- replay ---------- *)
Section Replay.
  Variable R : Type.
  Variable genotype_model : sample -> R.
  (* the pipeline reads a sample only through its observables (all parameters included) *)
  Hypothesis model_respects : forall a b, sample_equiv [] a b -> genotype_model a = genotype_model b.

  Theorem dump_replay : forall c lo hi genome x,
    (forall n v, In (n, v) (resets c) -> alookup str_eqb n (s_profile x) = Some v) ->
    genotype_model (decode c (encode Fixed lo hi genome x)) = genotype_model x.
  Proof.
    intros c lo hi genome x Hreset. apply model_respects.
    destruct (dump_roundtrip c lo hi genome x) as [[H1 [H2 [H3 [H4 [H5 [H6 [H7 [H8 H9]]]]]]]] [Hv _]].
    unfold sample_equiv. repeat (split; [assumption|]).
    intros n _. destruct (in_dec str_dec n (reset_names c)) as [I|NI].
    - unfold reset_names in I. apply in_map_iff in I. destruct I as [[n' v] [E I]]. cbn in E. subst n'.
      rewrite (Hv _ _ I). symmetry. apply Hreset. exact I.
    - apply H9. exact NI.
  Qed.

  (* with parameter re-application (genotype.py:189-190): [reapply] stands for profile.update(params) with the run's parameters;
     if it overwrites every reset parameter that did not have its reset value, the replayed sample is again equivalent *)
  Variable reapply : dict -> dict.
  Definition with_profile (x : sample) (d : dict) : sample :=
    {| s_name := s_name x; s_profile := d; s_payload := s_payload x; s_neutral := s_neutral x; s_norm := s_norm x;
       s_muts := s_muts x; s_phases := s_phases x; s_fusion := s_fusion x; s_indel := s_indel x |}.

  Theorem dump_replay_reapplied : forall c lo hi genome x,
    (* re-applying the run's parameters to the original profile changes nothing (they are already in it) *)
    (forall n, alookup str_eqb n (reapply (s_profile x)) = alookup str_eqb n (s_profile x)) ->
    (* what re-application yields at a name depends on the old value at that name only through the reset ... *)
    (forall n, alookup str_eqb n (reapply (apply_resets c (s_profile x))) = alookup str_eqb n (reapply (s_profile x)) \/
               (In n (reset_names c) /\ alookup str_eqb n (reapply (apply_resets c (s_profile x))) =
                                          alookup str_eqb n (apply_resets c (s_profile x)))) ->
    (* ... and a reset parameter that is not re-applied had its reset value *)
    (forall n v, In (n, v) (resets c) ->
        alookup str_eqb n (reapply (apply_resets c (s_profile x))) = alookup str_eqb n (apply_resets c (s_profile x)) ->
        alookup str_eqb n (reapply (apply_resets c (s_profile x))) = alookup str_eqb n (reapply (s_profile x)) \/
        alookup str_eqb n (s_profile x) = Some v) ->
    genotype_model (with_profile (decode c (encode Fixed lo hi genome x)) (reapply (s_profile (decode c (encode Fixed lo hi genome x))))) =
    genotype_model x.
  Proof.
    intros c lo hi genome x Hidem Hdep Hres. apply model_respects.
    destruct (dump_roundtrip c lo hi genome x) as [[H1 [H2 [H3 [H4 [H5 [H6 [H7 [H8 H9]]]]]]]] [Hv _]].
    unfold sample_equiv, with_profile. cbn [s_name s_payload s_neutral s_fusion s_indel s_norm s_muts s_profile multi_records s_phases].
    repeat (split; [assumption|]).
    intros n _. cbn [decode encode s_profile d_profile].
    destruct (Hdep n) as [E|[I E]].
    - rewrite E. apply Hidem.
    - unfold reset_names in I. apply in_map_iff in I. destruct I as [[n' v] [En I]]. cbn in En. subst n'.
      destruct (Hres _ _ I E) as [E2|E2].
      + rewrite E2. apply Hidem.
      + rewrite E. rewrite (apply_resets_value _ _ _ _ I). symmetry. exact E2.
  Qed.
End Replay.
