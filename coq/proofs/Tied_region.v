(* Tied_region.v — the interval tests of the pileup, regenerated from /repo's Python AST on every run (gen/Exprs_region.v:
   sam._in_region and the RefSeq-window test of Sample._make_coverage), are the tests the hand-written model Pileup.v uses. *)
From Coq Require Import Lia ZifyBool.
From Aldy Require Import Base Consts Pileup Exprs_region.
Import List.
Open Scope Z_scope.

Lemma Qleb_inZ a b : Qleb (inZ a) (inZ b) = (a <=? b).
Proof.
  unfold Qleb, inZ. destruct (Z.leb_spec a b) as [L|L].
  - apply Qle_bool_iff. rewrite <- Zle_Qle. exact L.
  - destruct (Qle_bool (inject_Z a) (inject_Z b)) eqn:E; [|reflexivity].
    apply Qle_bool_iff in E. rewrite <- Zle_Qle in E. lia.
Qed.

(* sam._in_region: a = (reference_start, reference_end), b = (region.start, region.end) *)
Lemma region_overlap_tied : forall g r, in_region g r =
  negb (r_offtarget r) && negb (r_funmap r) &&
  region_overlap (inZ (r_start r)) (inZ (ref_end r)) (inZ (fst (g_wide g))) (inZ (snd (g_wide g))).
Proof. intros g r. unfold in_region, region_overlap. rewrite !Qleb_inZ. reflexivity. Qed.

(* Sample._make_coverage: bounds[0] <= pos <= bounds[1] with bounds = (min, max) of the mapped positions *)
Lemma window_inside_tied : forall g ab t p, g_mapped g = ab :: t ->
  in_bounds g p = window_inside (inZ (fold_left Z.min (map fst t) (fst ab))) (inZ p) (inZ (fold_left Z.max (map snd t) (snd ab) - 1)).
Proof. intros g ab t p H. unfold in_bounds, window_inside. rewrite H, !Qleb_inZ. reflexivity. Qed.
