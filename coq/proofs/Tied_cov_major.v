(* Tied_cov.v — the regenerated decision expressions of /repo (gen/Exprs_cov.v, written by harness/gen_exprs.py from the Python
   AST on every run) are the expressions the hand-written model uses.  Every lemma is an obligation of the tie: when an
   expression of the code changes, the generated file changes with it and the lemma stops compiling even if no sampled input
   tells old and new behaviour apart.  Statements: the model's definition equals the translated expression, for all arguments. *)
From Aldy Require Import Base Consts Filter MajorModel Exprs_cov TieTac.
Import List.
Open Scope Q_scope.

(* coverage.py single_copy as used by the major model *)
Lemma single_copy_major_tied : forall I cv m,
  single_copy_cv I cv m == if single_copy_zero (pcn I (fst m)) then 0 else single_copy_val (inZ (total cv m)) (pcn I (fst m)).
Proof. first [reflexivity | intros; unfold single_copy_cv, single_copy_zero, single_copy_val; tie_q]. Qed.

