(* EnumProofs.v — the solutions() loop (Enum.sols) relative to the solver contract.

   Contract ([solver_ok], contract 1 of DESIGN.md section 3), assumed of the solver on the model and on every model
   obtained from it by exclusion cuts over its binaries — nowhere else:
     - it answers Infeasible only if the model has no feasible point;
     - if it answers Optimal o p then p is feasible, o is the objective of p, and no feasible point has a smaller objective.
   Theorems: first yield optimal, every yield feasible for the ORIGINAL rows with its own objective and below
   (1+gap)*best + eps, no yielded active set contains an earlier one, objectives non-decreasing, completeness
   (superset rule), at most [limit] yields, and fuel 2^#binaries + 1 is never exhausted. *)
From Coq Require Import QArith Qabs Lqa Lia List Bool Arith.
From Aldy Require Import Base Consts Lp Enum LpProofs.
Import ListNotations.
Open Scope Q_scope.

(* ---------------------------------------------------------------- sets of keys *)
Lemma kmem_In : forall v l, kmem v l = true <-> In v l.
Proof. exact existsb_key. Qed.
Lemma ksubset_incl : forall a b, ksubset a b = true <-> incl a b.
Proof.
  intros a b. unfold ksubset, incl. rewrite forallb_forall. split; intros H v Hv; [apply kmem_In | apply kmem_In]; auto.
Qed.
Lemma ksubset_refl : forall a, ksubset a a = true.
Proof. intro a. apply ksubset_incl. apply incl_refl. Qed.

Fixpoint subseqs {A : Type} (l : list A) : list (list A) :=
  match l with [] => [[]] | x :: t => subseqs t ++ map (cons x) (subseqs t) end.

Lemma subseqs_length : forall (A : Type) (l : list A), length (subseqs l) = Nat.pow 2 (length l).
Proof.
  intros A l. induction l as [|x t IH]; [reflexivity|]. cbn [subseqs length Nat.pow].
  rewrite app_length, map_length, IH. lia.
Qed.
Lemma filter_in_subseqs : forall (A : Type) (f : A -> bool) l, In (filter f l) (subseqs l).
Proof.
  intros A f l. induction l as [|x t IH]; [left; reflexivity|]. cbn [filter subseqs]. apply in_or_app.
  destruct (f x); [right; apply in_map; exact IH | left; exact IH].
Qed.
Lemma subseqs_incl : forall (A : Type) (l c : list A), In c (subseqs l) -> incl c l.
Proof.
  intros A l. induction l as [|x t IH]; intros c H.
  - destruct H as [<-|[]]. apply incl_refl.
  - cbn [subseqs] in H. apply in_app_or in H. destruct H as [H|H].
    + apply incl_tl. apply IH. exact H.
    + apply in_map_iff in H. destruct H as [c' [<- H]]. apply incl_cons; [left; reflexivity | apply incl_tl; apply IH; exact H].
Qed.

(* ---------------------------------------------------------------- the exclusion cut *)
Lemma eval_ones : forall (a : asg) (vv : list vkey), eval_lin a (map (fun v => (1, v)) vv) == qsum (map a vv).
Proof. intros a vv. induction vv as [|v vv IH]; cbn [map eval_lin qsum]; [lra | rewrite IH; lra]. Qed.

Lemma forallb_one_iff : forall (a : asg) (vv : list vkey),
  forallb (fun t => Qeqb (a t) 1) vv = true <-> (forall v, In v vv -> a v == 1).
Proof. intros a vv. rewrite forallb_forall. split; intros H v Hv; [apply Qeqb_eq | apply Qeqb_eq]; auto. Qed.

(* sum_{v in vv} v <= |vv| - 1  holds exactly when not all of vv are 1 *)
Lemma cut_row_sat : forall a vv, (forall v, In v vv -> is_bin (a v)) ->
  (sat_row a (cut_row vv) <-> ~ (forall v, In v vv -> a v == 1)).
Proof.
  intros a vv Hb. unfold sat_row, cut_row. cbn [r_rel r_lin r_rhs]. rewrite eval_ones, inject_len_m1.
  destruct (bin_sum_bounds a vv Hb) as (_ & _ & I2 & I3). rewrite <- forallb_one_iff.
  destruct (forallb (fun t => Qeqb (a t) 1) vv).
  - specialize (I2 eq_refl). split; [intros H _; lra | intro H; exfalso; apply H; reflexivity].
  - specialize (I3 eq_refl). split; [intros _ H; discriminate | intros _; exact I3].
Qed.

Lemma cut_row_active : forall m a vv, feasible m a -> incl vv (binaries m) ->
  (sat_row a (cut_row vv) <-> ksubset vv (active m a) = false).
Proof.
  intros m a vv Hf Hi. rewrite cut_row_sat by (intros v Hv; apply (feasible_bin m a v Hf); apply Hi; exact Hv).
  rewrite <- not_true_iff_false, ksubset_incl. unfold incl. split; intros H G; apply H; intros v Hv.
  - apply (active_in m a v). apply G. exact Hv.
  - apply active_in. split; [apply Hi; exact Hv | apply G; exact Hv].
Qed.

Lemma feas_with_cuts : forall m cuts a,
  feasible (with_cuts m cuts) a <-> feasible m a /\ Forall (fun c => sat_row a (cut_row c)) cuts.
Proof.
  intros m cuts a. unfold with_cuts. rewrite feasible_add_rows, !Forall_forall. split; intros [H1 H2]; split; try exact H1.
  - intros c Hc. apply H2. apply in_map. apply in_rev in Hc. exact Hc.
  - intros r Hr. apply in_map_iff in Hr. destruct Hr as [c [<- Hc]]. apply H2. apply in_rev. exact Hc.
Qed.

Lemma feas_with_cuts_cons : forall m c cuts a,
  feasible (with_cuts m (c :: cuts)) a <-> feasible (with_cuts m cuts) a /\ sat_row a (cut_row c).
Proof. intros. rewrite !feas_with_cuts, Forall_cons_iff. tauto. Qed.

Lemma feas_with_cuts_nil : forall m a, feasible (with_cuts m []) a <-> feasible m a.
Proof. intros. rewrite feas_with_cuts. split; [tauto | intro; split; [assumption | constructor]]. Qed.

(* ---------------------------------------------------------------- the contract *)
Definition solver_ok (solve : Z -> lp -> sres) (m' : lp) : Prop :=
  forall it,
    (solve it m' = Infeasible -> forall a, ~ feasible m' a) /\
    (forall o p, solve it m' = Optimal o p ->
       feasible m' (asg_of p) /\ o == objective m' (asg_of p) /\ forall a, feasible m' a -> o <= objective m' a).

(* the cuts the loop can ever hold: active sets, i.e. subsequences of the list of binaries *)
Definition cuts_ok (m : lp) (cuts : list (list vkey)) : Prop := forall c, In c cuts -> In c (subseqs (binaries m)).

Lemma cuts_ok_nil : forall m, cuts_ok m [].
Proof. intros m c []. Qed.
Lemma cuts_ok_cons : forall m a cuts, cuts_ok m cuts -> cuts_ok m (active m a :: cuts).
Proof. intros m a cuts H c [<-|Hc]; [apply filter_in_subseqs | apply H; exact Hc]. Qed.
Lemma cuts_ok_incl : forall m cuts c, cuts_ok m cuts -> In c cuts -> incl c (binaries m).
Proof. intros m cuts c H Hc. apply subseqs_incl. apply H. exact Hc. Qed.

Lemma stop_false_iff : forall eps o ub, stop eps o ub = false <-> (o <= ub \/ Qabs (o - ub) < eps).
Proof.
  intros eps o ub. unfold stop. rewrite andb_false_iff, Qleb_gt, Qltb_ge, Qabs'_Qabs. tauto.
Qed.
Lemma stop_false_bound : forall eps o ub, 0 < eps -> stop eps o ub = false -> o < ub + eps.
Proof.
  intros eps o ub He H. apply stop_false_iff in H. destruct H as [H|H]; [lra|].
  assert (o - ub <= Qabs (o - ub)) by apply Qle_Qabs. set (x := Qabs (o - ub)) in *. clearbody x. lra.
Qed.

Section Loop.
  Variable solve : Z -> lp -> sres.
  Variables eps gap : Q.
  Variable limit : option Z.
  Variable m : lp.
  Hypothesis eps_pos : 0 < eps.
  Hypothesis contract : forall cuts, cuts_ok m cuts -> solver_ok solve (with_cuts m cuts).

  Notation sols := (sols solve eps gap limit m).
  Notation pt y := (asg_of (y_point y)).

  (* what is known of one yield: feasible for the model with the cuts present when it was found, true objective, read-out *)
  Definition good (cuts : list (list vkey)) (y : yield) : Prop :=
    feasible (with_cuts m cuts) (pt y) /\ y_obj y == objective m (pt y) /\ y_active y = active m (pt y).

  Lemma good_drop : forall c cuts y, good (c :: cuts) y -> good cuts y /\ sat_row (pt y) (cut_row c).
  Proof. intros c cuts y (H1 & H2 & H3). apply feas_with_cuts_cons in H1. unfold good. tauto. Qed.

  Lemma contract_opt : forall cuts it o p, cuts_ok m cuts -> solve it (with_cuts m cuts) = Optimal o p ->
    feasible (with_cuts m cuts) (asg_of p) /\ o == objective m (asg_of p) /\
    forall a, feasible (with_cuts m cuts) a -> o <= objective m a.
  Proof. intros cuts it o p Hc Hs. exact (proj2 (contract cuts Hc it) o p Hs). Qed.

  (* every yield is good w.r.t. the cuts in force at the start *)
  Lemma sols_good : forall fuel iter best cuts r, cuts_ok m cuts -> sols fuel iter best cuts = Some r -> Forall (good cuts) r.
  Proof.
    induction fuel as [|f IH]; intros iter best cuts r Hc H; [discriminate|].
    cbn [Enum.sols] in H. destruct (solve iter (with_cuts m cuts)) as [|o p|] eqn:Hs; try (injection H as <-; constructor).
    destruct (stop eps o _) eqn:Hst; [injection H as <-; constructor|].
    destruct (contract_opt cuts iter o p Hc Hs) as (Hf & Ho & _).
    assert (Hy : good cuts {| y_obj := o; y_active := active m (asg_of p); y_point := p |})
      by (unfold good; cbn [y_obj y_active y_point]; auto).
    destruct (more limit iter).
    - destruct (Enum.sols solve eps gap limit m f _ _ _) as [r'|] eqn:Hr; [|discriminate]. injection H as <-.
      constructor; [exact Hy|]. apply IH in Hr; [|apply cuts_ok_cons; exact Hc].
      eapply Forall_impl; [|exact Hr]. intros y Hg. apply (good_drop _ _ _ Hg).
    - injection H as <-. constructor; [exact Hy | constructor].
  Qed.

  (* soundness: feasible for the original rows, own objective, active set read from the point *)
  Theorem enum_sound : forall fuel r, sols fuel 0 None [] = Some r ->
    Forall (fun y => feasible m (pt y) /\ y_obj y == objective m (pt y) /\ y_active y = active m (pt y)) r.
  Proof.
    intros fuel r H. apply sols_good in H; [|apply cuts_ok_nil]. eapply Forall_impl; [|exact H].
    intros y (H1 & H2 & H3). apply (proj1 (feas_with_cuts_nil _ _)) in H1. split; [exact H1 | split; [exact H2 | exact H3]].
  Qed.

  (* the first yield is a global optimum of the original model *)
  Theorem enum_first_optimal : forall fuel y r, sols fuel 0 None [] = Some (y :: r) ->
    feasible m (pt y) /\ forall a, feasible m a -> y_obj y <= objective m a.
  Proof.
    intros fuel y r H. pose proof (enum_sound _ _ H) as Hs. inversion Hs as [|? ? (Hf & _) _]; subst. split; [exact Hf|].
    destruct fuel as [|f]; [discriminate|]. cbn [Enum.sols] in H.
    destruct (solve 0%Z (with_cuts m [])) as [|o p|] eqn:Hsv; try discriminate.
    destruct (contract_opt [] 0%Z o p (cuts_ok_nil m) Hsv) as (_ & _ & Hopt).
    destruct (stop eps o _); [discriminate|].
    assert (E : y_obj y = o).
    { destruct (more limit 0); [destruct (Enum.sols solve eps gap limit m f _ _ _); [|discriminate]|]; injection H as <- _; reflexivity. }
    rewrite E. intros a Ha. apply Hopt. apply (proj2 (feas_with_cuts_nil _ _)). exact Ha.
  Qed.

  (* within the gap: every yield is below (1+gap)*best + eps *)
  Lemma sols_bound : forall fuel iter b cuts r, sols fuel iter (Some b) cuts = Some r ->
    Forall (fun y => y_obj y < (1 + gap) * b + eps) r.
  Proof.
    induction fuel as [|f IH]; intros iter b cuts r H; [discriminate|].
    cbn [Enum.sols] in H. destruct (solve iter (with_cuts m cuts)) as [|o p|]; try (injection H as <-; constructor).
    destruct (stop eps o _) eqn:Hst; [injection H as <-; constructor|].
    apply (stop_false_bound _ _ _ eps_pos) in Hst.
    destruct (more limit iter).
    - destruct (Enum.sols solve eps gap limit m f _ _ _) as [r'|] eqn:Hr; [|discriminate]. injection H as <-.
      constructor; [exact Hst | eapply IH; exact Hr].
    - injection H as <-. constructor; [exact Hst | constructor].
  Qed.

  Theorem enum_within_gap : forall fuel y r, sols fuel 0 None [] = Some (y :: r) ->
    Forall (fun y' => y_obj y' < (1 + gap) * y_obj y + eps) (y :: r).
  Proof.
    intros fuel y r H. destruct fuel as [|f]; [discriminate|]. cbn [Enum.sols] in H.
    destruct (solve 0%Z (with_cuts m [])) as [|o p|]; try discriminate.
    destruct (stop eps o _) eqn:Hst; [discriminate|]. apply (stop_false_bound _ _ _ eps_pos) in Hst.
    destruct (more limit 0).
    - destruct (Enum.sols solve eps gap limit m f _ _ _) as [r'|] eqn:Hr; [|discriminate]. injection H as <- <-.
      cbn [y_obj]. constructor; [exact Hst | eapply sols_bound; exact Hr].
    - injection H as <- <-. cbn [y_obj]. constructor; [exact Hst | constructor].
  Qed.

  (* no yielded active set contains an earlier one *)
  Lemma sols_nosuper : forall fuel iter best cuts r, cuts_ok m cuts -> sols fuel iter best cuts = Some r ->
    ForallOrdPairs (fun x y => ksubset (y_active x) (y_active y) = false) r.
  Proof.
    induction fuel as [|f IH]; intros iter best cuts r Hc H; [discriminate|].
    cbn [Enum.sols] in H. destruct (solve iter (with_cuts m cuts)) as [|o p|] eqn:Hs; try (injection H as <-; constructor).
    destruct (stop eps o _); [injection H as <-; constructor|].
    destruct (more limit iter).
    - destruct (Enum.sols solve eps gap limit m f _ _ _) as [r'|] eqn:Hr; [|discriminate]. injection H as <-.
      pose proof (cuts_ok_cons m (asg_of p) cuts Hc) as Hc'.
      constructor; [|eapply IH; [exact Hc' | exact Hr]].
      apply sols_good in Hr; [|exact Hc']. eapply Forall_impl; [|exact Hr]. intros y Hg. cbn [y_active].
      destruct (good_drop _ _ _ Hg) as [(Hf & _ & Ha) Hcut]. rewrite Ha.
      apply feas_with_cuts in Hf. destruct Hf as [Hf _].
      apply (cut_row_active m (pt y) _ Hf); [|exact Hcut]. apply subseqs_incl. apply filter_in_subseqs.
    - injection H as <-. constructor; constructor.
  Qed.

  Theorem enum_nosuper : forall fuel r, sols fuel 0 None [] = Some r ->
    ForallOrdPairs (fun x y => ksubset (y_active x) (y_active y) = false) r.
  Proof. intros fuel r H. eapply sols_nosuper; [apply cuts_ok_nil | exact H]. Qed.

  (* in particular no active set is yielded twice *)
  Theorem enum_nodup : forall fuel r, sols fuel 0 None [] = Some r -> NoDup (map y_active r).
  Proof.
    intros fuel r H. apply enum_nosuper in H. induction H as [|x l Hx _ IH]; cbn [map]; constructor; [|exact IH].
    intro Hin. apply in_map_iff in Hin. destruct Hin as [y [E Hy]]. rewrite Forall_forall in Hx. specialize (Hx y Hy).
    rewrite E, ksubset_refl in Hx. discriminate.
  Qed.

  (* objectives are non-decreasing *)
  Lemma sols_monotone : forall fuel iter best cuts r, cuts_ok m cuts -> sols fuel iter best cuts = Some r ->
    ForallOrdPairs (fun x y => y_obj x <= y_obj y) r.
  Proof.
    induction fuel as [|f IH]; intros iter best cuts r Hc H; [discriminate|].
    cbn [Enum.sols] in H. destruct (solve iter (with_cuts m cuts)) as [|o p|] eqn:Hs; try (injection H as <-; constructor).
    destruct (stop eps o _); [injection H as <-; constructor|].
    destruct (contract_opt cuts iter o p Hc Hs) as (_ & _ & Hopt).
    destruct (more limit iter).
    - destruct (Enum.sols solve eps gap limit m f _ _ _) as [r'|] eqn:Hr; [|discriminate]. injection H as <-.
      pose proof (cuts_ok_cons m (asg_of p) cuts Hc) as Hc'.
      constructor; [|eapply IH; [exact Hc' | exact Hr]].
      apply sols_good in Hr; [|exact Hc']. eapply Forall_impl; [|exact Hr]. intros y Hg. cbn [y_obj].
      destruct (good_drop _ _ _ Hg) as [(Hf & Ho & _) _]. rewrite Ho. apply Hopt. exact Hf.
    - injection H as <-. constructor; constructor.
  Qed.

  Theorem enum_monotone : forall fuel r, sols fuel 0 None [] = Some r -> ForallOrdPairs (fun x y => y_obj x <= y_obj y) r.
  Proof. intros fuel r H. eapply sols_monotone; [apply cuts_ok_nil | exact H]. Qed.

  (* at most [limit] yields *)
  Lemma sols_limit : forall l fuel iter best cuts r, limit = Some l -> (0 < l)%Z -> (iter < l)%Z ->
    sols fuel iter best cuts = Some r -> (Z.of_nat (length r) <= l - iter)%Z.
  Proof.
    intros l. induction fuel as [|f IH]; intros iter best cuts r Hl Hpos Hit H; [discriminate|].
    cbn [Enum.sols] in H. destruct (solve iter (with_cuts m cuts)) as [|o p|]; try (injection H as <-; cbn [length]; lia).
    destruct (stop eps o _); [injection H as <-; cbn [length]; lia|].
    destruct (more limit iter) eqn:Hm.
    - rewrite Hl in Hm. cbn [more] in Hm. apply orb_true_iff in Hm. destruct Hm as [Hm|Hm]; [apply Z.eqb_eq in Hm; lia|].
      apply Z.ltb_lt in Hm.
      destruct (Enum.sols solve eps gap limit m f _ _ _) as [r'|] eqn:Hr; [|discriminate]. injection H as <-.
      apply IH in Hr; try assumption. cbn [length]. lia.
    - injection H as <-. cbn [length]. lia.
  Qed.

  Theorem enum_limit : forall l fuel r, limit = Some l -> (0 < l)%Z -> sols fuel 0 None [] = Some r -> (Z.of_nat (length r) <= l)%Z.
  Proof. intros l fuel r Hl Hp H. pose proof (sols_limit l fuel 0%Z None [] r Hl Hp Hp H). lia. Qed.

  (* completeness, no limit, a solver that always answers Infeasible or Optimal: every feasible point of the original
     model within the gap is yielded, or its active set contains that of a yield whose objective is no worse *)
  Section Complete.
    Hypothesis unlimited : forall it, more limit it = true.
    Hypothesis answers : forall cuts it, cuts_ok m cuts -> solve it (with_cuts m cuts) <> NotOptimal.

    Lemma sols_complete : forall fuel iter b cuts r, cuts_ok m cuts -> sols fuel iter (Some b) cuts = Some r ->
      forall a, feasible (with_cuts m cuts) a -> objective m a <= (1 + gap) * b ->
      exists y, In y r /\ ksubset (y_active y) (active m a) = true /\ y_obj y <= objective m a.
    Proof.
      induction fuel as [|f IH]; intros iter b cuts r Hc H a Ha Hle; [discriminate|].
      cbn [Enum.sols] in H. destruct (solve iter (with_cuts m cuts)) as [|o p|] eqn:Hs.
      - exfalso. exact (proj1 (contract cuts Hc iter) Hs a Ha).
      - destruct (contract_opt cuts iter o p Hc Hs) as (Hf & Ho & Hopt).
        destruct (stop eps o _) eqn:Hst.
        { exfalso. specialize (Hopt a Ha). assert (Hx : stop eps o ((1 + gap) * b) = false) by (apply stop_false_iff; left; lra). congruence. }
        rewrite unlimited in H.
        destruct (Enum.sols solve eps gap limit m f _ _ _) as [r'|] eqn:Hr; [|discriminate]. injection H as <-.
        destruct (ksubset (active m (asg_of p)) (active m a)) eqn:Hsub.
        + eexists. split; [left; reflexivity|]. cbn [y_active y_obj]. split; [exact Hsub | apply Hopt; exact Ha].
        + pose proof (cuts_ok_cons m (asg_of p) cuts Hc) as Hc'.
          destruct (IH _ _ _ _ Hc' Hr a) as [y (Hin & Hy1 & Hy2)]; [|exact Hle|].
          * apply feas_with_cuts_cons. split; [exact Ha|]. apply feas_with_cuts in Ha. destruct Ha as [Ha _].
            apply (cut_row_active m a _ Ha); [|exact Hsub]. apply subseqs_incl. apply filter_in_subseqs.
          * exists y. split; [right; exact Hin | split; assumption].
      - exfalso. exact (answers cuts iter Hc Hs).
    Qed.

    Theorem enum_complete : forall fuel r, sols fuel 0 None [] = Some r ->
      forall a, feasible m a -> (forall a', feasible m a' -> objective m a <= (1 + gap) * objective m a') ->
      exists y, In y r /\ ksubset (y_active y) (active m a) = true /\ y_obj y <= objective m a.
    Proof.
      intros fuel r H a Ha Hgap. destruct fuel as [|f]; [discriminate|]. cbn [Enum.sols] in H.
      pose proof (cuts_ok_nil m) as Hc. apply (proj2 (feas_with_cuts_nil _ _)) in Ha.
      destruct (solve 0%Z (with_cuts m [])) as [|o p|] eqn:Hs.
      - exfalso. exact (proj1 (contract [] Hc 0%Z) Hs a Ha).
      - destruct (contract_opt [] 0%Z o p Hc Hs) as (Hf & Ho & Hopt).
        assert (Hle : objective m a <= (1 + gap) * o).
        { rewrite Ho. apply Hgap. apply (proj1 (feas_with_cuts_nil _ _)). exact Hf. }
        destruct (stop eps o _) eqn:Hst.
        { exfalso. specialize (Hopt a Ha). assert (Hx : stop eps o ((1 + gap) * o) = false) by (apply stop_false_iff; left; lra). congruence. }
        rewrite unlimited in H.
        destruct (Enum.sols solve eps gap limit m f _ _ _) as [r'|] eqn:Hr; [|discriminate]. injection H as <-.
        destruct (ksubset (active m (asg_of p)) (active m a)) eqn:Hsub.
        + eexists. split; [left; reflexivity|]. cbn [y_active y_obj]. split; [exact Hsub | apply Hopt; exact Ha].
        + pose proof (cuts_ok_cons m (asg_of p) [] Hc) as Hc'.
          destruct (sols_complete _ _ _ _ _ Hc' Hr a) as [y (Hin & Hy1 & Hy2)]; [|exact Hle|].
          * apply feas_with_cuts_cons. split; [exact Ha|]. apply (proj1 (feas_with_cuts_nil _ _)) in Ha.
            apply (cut_row_active m a _ Ha); [|exact Hsub]. apply subseqs_incl. apply filter_in_subseqs.
          * exists y. split; [right; exact Hin | split; assumption].
      - exfalso. exact (answers [] 0%Z Hc Hs).
    Qed.
  End Complete.

  (* termination: the cuts are pairwise different subsequences of the binaries, so there are at most 2^n of them *)
  Lemma sols_fuel : forall fuel iter best cuts, cuts_ok m cuts -> NoDup cuts ->
    (Nat.pow 2 (length (binaries m)) < length cuts + fuel)%nat -> sols fuel iter best cuts <> None.
  Proof.
    induction fuel as [|f IH]; intros iter best cuts Hc Hnd Hlen.
    - exfalso. assert (length cuts <= length (subseqs (binaries m)))%nat by (apply NoDup_incl_length; [exact Hnd | exact Hc]).
      rewrite subseqs_length in H. lia.
    - cbn [Enum.sols]. destruct (solve iter (with_cuts m cuts)) as [|o p|] eqn:Hs; try discriminate.
      destruct (stop eps o _); [discriminate|]. destruct (more limit iter); [|discriminate].
      destruct (contract_opt cuts iter o p Hc Hs) as (Hf & _ & _).
      assert (Hnew : ~ In (active m (asg_of p)) cuts).
      { intro Hin. apply feas_with_cuts in Hf. destruct Hf as [Hf Hcuts]. rewrite Forall_forall in Hcuts. specialize (Hcuts _ Hin).
        apply (cut_row_active m _ _ Hf) in Hcuts; [|apply subseqs_incl; apply filter_in_subseqs].
        rewrite ksubset_refl in Hcuts. discriminate. }
      specialize (IH (iter + 1)%Z (Some (match best with Some b => b | None => o end)) (active m (asg_of p) :: cuts)
                     (cuts_ok_cons m _ cuts Hc) (NoDup_cons _ Hnew Hnd)).
      cbn [length] in IH. destruct (Enum.sols solve eps gap limit m f _ _ _); [discriminate|]. exfalso. apply IH; [lia | reflexivity].
  Qed.

  Theorem enum_terminates : forall best, sols (enough_fuel m) 0 best [] <> None.
  Proof. intro best. apply sols_fuel; [apply cuts_ok_nil | constructor | unfold enough_fuel; cbn [length]; lia]. Qed.
End Loop.

(* the loop as aldy calls it: SOLVER_PRECISON from the source tree *)
Lemma consts_eps_pos : forall c, consts_wf c = true -> 0 < c_solver_precision c.
Proof.
  intros c H. unfold consts_wf in H. repeat (apply andb_true_iff in H; destruct H as [H _]). apply Qltb_lt. exact H.
Qed.

(* ---------------------------------------------------------------- the same, for [solutions] = model.solutions(gap, limit=...) *)
Section Solutions.
  Variable c : consts.
  Hypothesis Hc : consts_wf c = true.
  Variable solve : Z -> lp -> sres.
  Variables (gap : Q) (limit : option Z) (m : lp).
  Hypothesis contract : forall cuts, cuts_ok m cuts -> solver_ok solve (with_cuts m cuts).
  Let eps := c_solver_precision c.

  Theorem solutions_terminates : solutions c solve gap limit m <> None.
  Proof. unfold solutions. apply (enum_terminates solve eps gap limit m contract). Qed.

  Theorem solutions_first_optimal : forall y r, solutions c solve gap limit m = Some (y :: r) ->
    feasible m (asg_of (y_point y)) /\ forall a, feasible m a -> y_obj y <= objective m a.
  Proof. intros y r H. exact (enum_first_optimal solve eps gap limit m contract _ y r H). Qed.

  Theorem solutions_sound : forall r, solutions c solve gap limit m = Some r ->
    Forall (fun y => feasible m (asg_of (y_point y)) /\ y_obj y == objective m (asg_of (y_point y)) /\
                     y_active y = active m (asg_of (y_point y))) r.
  Proof. intros r H. exact (enum_sound solve eps gap limit m contract _ r H). Qed.

  Theorem solutions_within_gap : forall y r, solutions c solve gap limit m = Some (y :: r) ->
    Forall (fun y' => y_obj y' < (1 + gap) * y_obj y + c_solver_precision c) (y :: r).
  Proof. intros y r H. exact (enum_within_gap solve eps gap limit m (consts_eps_pos c Hc) _ y r H). Qed.

  Theorem solutions_nosuper : forall r, solutions c solve gap limit m = Some r ->
    ForallOrdPairs (fun x y => ksubset (y_active x) (y_active y) = false) r.
  Proof. intros r H. exact (enum_nosuper solve eps gap limit m contract _ r H). Qed.

  Theorem solutions_nodup : forall r, solutions c solve gap limit m = Some r -> NoDup (map y_active r).
  Proof. intros r H. exact (enum_nodup solve eps gap limit m contract _ r H). Qed.

  Theorem solutions_monotone : forall r, solutions c solve gap limit m = Some r ->
    ForallOrdPairs (fun x y => y_obj x <= y_obj y) r.
  Proof. intros r H. exact (enum_monotone solve eps gap limit m contract _ r H). Qed.

  Theorem solutions_limit : forall l r, limit = Some l -> (0 < l)%Z -> solutions c solve gap limit m = Some r ->
    (Z.of_nat (length r) <= l)%Z.
  Proof. intros l r Hl Hp H. exact (enum_limit solve eps gap limit m l _ r Hl Hp H). Qed.

  Theorem solutions_complete :
    (limit = None \/ limit = Some 0%Z) ->
    (forall cuts it, cuts_ok m cuts -> solve it (with_cuts m cuts) <> NotOptimal) ->
    forall r, solutions c solve gap limit m = Some r ->
    forall a, feasible m a -> (forall a', feasible m a' -> objective m a <= (1 + gap) * objective m a') ->
    exists y, In y r /\ ksubset (y_active y) (active m a) = true /\ y_obj y <= objective m a.
  Proof.
    intros Hl Hans r H. apply (enum_complete solve eps gap limit m contract) with (fuel := enough_fuel m); [| exact Hans | exact H].
    intro it. destruct Hl as [-> | ->]; reflexivity.
  Qed.
End Solutions.
