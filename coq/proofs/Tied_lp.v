(* Tied_lp.v — the regenerated decision expressions of /repo (gen/Exprs_lp.v, written by harness/gen_exprs.py from the Python
   AST on every run) are the expressions the hand-written model uses.  Every lemma is an obligation of the tie: when an
   expression of the code changes, the generated file changes with it and the lemma stops compiling even if no sampled input
   tells old and new behaviour apart.  Statements: the model's definition equals the translated expression, for all arguments. *)
From Aldy Require Import Base Consts Lp Enum Exprs_lp TieTac LpReadbackProofs.
Import List.
Open Scope Q_scope.

(* ---- lpinterface.py: solutions() *)
(* ub = (1 + gap) * best_obj ;  stop test  abs(obj - ub) >= SOLVER_PRECISON and obj > ub *)
Lemma lp_stop_tied : forall eps sp gap o b, Enum.stop eps o ((1 + gap) * b) = lp_stop o (lp_ub gap b) eps sp.
Proof. first [reflexivity | intros; unfold Enum.stop, lp_stop, lp_ub; tie_sem]. Qed.

(* the stop test of the model loop IS the translated one, with the translated SOLVER_PRECISON *)
Lemma lp_loop_stop_tied : forall (c : consts) gap o b,
  Enum.stop (c_solver_precision c) o ((1 + gap) * b) = lp_stop o (lp_ub gap b) (c_solver_precision c) (c_solution_precision c).
Proof. first [reflexivity | intros; unfold Enum.stop, lp_stop, lp_ub; tie_sem]. Qed.

(* exclusion cut: quicksum(vv) <= len(vv) - 1 *)
Lemma lp_cut_tied : forall vv, r_rhs (cut_row vv) == lp_cut_rhs (inZ (Z.of_nat (length vv))).
Proof.
  intros vv. unfold cut_row, lp_cut_rhs, inZ. cbn [r_rhs]. unfold Z.sub. rewrite inject_Z_plus. reflexivity.
Qed.


(* ---- lpinterface.py: CBC.getValue / is_binary: an integral variable is read as a binary when
        abs(var.lb()) < SOLUTION_PRECISION and abs(1 - var.ub()) < SOLUTION_PRECISION  (translator also pins: the branch returns
        `x > 0`, the other two return x, and is_binary is `isinstance(getValue(v), bool)`) *)
Lemma lp_reads_binary_tied : forall prec lb ub, reads_binary prec lb ub = lp_reads_binary lb ub prec.
Proof. first [reflexivity | intros; unfold reads_binary, lp_reads_binary; tie_sem]. Qed.
