(* NormCanonProofs.v — C07, "consequently the reported gene structure of a sample does not depend on its sequencing depth".
   The structure stage reads nothing but the normalised region values (CnSpec.estimate_cn takes that vector; cn.py:solve_cn_model
   takes region_coverage).  Written in lowest terms ([canon]: Qred on every value; a rational in lowest terms is what the value IS),
   the normalised vector of a sample sequenced k times deeper is the same vector - an equality of data, not of values up to == -
   so EVERY function of it, the structure stage included, returns the same result. *)
From Aldy Require Import Base Consts Norm NormProofs.
From Coq Require Import QArith.
Import List.
Open Scope Z_scope.

Definition canon (r : nres) : nres :=
  match r with NOk l => NOk (map (fun e => (fst e, Qred (snd e))) l) | x => x end.

Lemma canon_eq a b : nres_eq a b -> canon a = canon b.
Proof.
  destruct a as [l1| |], b as [l2| |]; cbn [nres_eq canon]; try contradiction; try reflexivity.
  intros H. f_equal. induction H as [|x y l1 l2 [E1 E2] _ IH]; [reflexivity|]. cbn [map]. rewrite IH. f_equal.
  rewrite E1. f_equal. apply Qred_complete. exact E2.
Qed.
Lemma canon_sound r : nres_eq (canon r) r.
Proof.
  destruct r as [l| |]; cbn [canon nres_eq]; try exact I. unfold same_values. induction l as [|e l IH]; cbn [map]; constructor; [|exact IH].
  cbn [fst snd]. split; [reflexivity|apply Qred_correct].
Qed.

(* every read duplicated k times: any function of the normalised vector - the copy-number stage, whatever it computes - agrees *)
Theorem structure_depth_independent {T} (F : nres -> T) nv regions cn k rg rn : (0 < k)%nat ->
  F (canon (normalize nv regions cn (pileup (dup k rg)) (pileup (dup k rn)))) = F (canon (normalize nv regions cn (pileup rg) (pileup rn))).
Proof. intros Hk. f_equal. apply canon_eq. apply dup_invariant. exact Hk. Qed.
Theorem structure_scale_independent {T} (F : nres -> T) nv regions cn k dg dn : 0 < k ->
  F (canon (normalize nv regions cn (scale k dg) (scale k dn))) = F (canon (normalize nv regions cn dg dn)).
Proof. intros Hk. f_equal. apply canon_eq. apply scale_invariant. exact Hk. Qed.

(* ---- spelled out for the copy-number stage of the model (CnSpec.solve_cn = cn.py:solve_cn_model with its enumeration loop):
        region_coverage = for every unique region the pair (gene value, pseudogene value) of the normalised vector ---- *)
From Aldy Require Import Lp CnModel CnSpec.
Definition value_of (l : list ((Z * str) * Q)) (g : Z) (r : str) : Q :=
  match find (fun e : (Z * str) * Q => (fst (fst e) =? g) && str_eqb (snd (fst e)) r) l with Some e => snd e | None => 0%Q end.
Definition region_cov_of (names : list str) (r : nres) : list (str * (Q * Q)) :=
  match r with NOk l => map (fun n => (n, (value_of l 0 n, value_of l 1 n))) names | _ => [] end.
Definition with_cov (i : cn_inst) (cov : list (str * (Q * Q))) : cn_inst :=
  {| i_gene_configs := i_gene_configs i; i_ngenes := i_ngenes i; i_unique := i_unique i; i_configs := i_configs i; i_max_cn := i_max_cn i;
     i_cov := cov; i_fusion := i_fusion i; i_par := i_par i |}.

Theorem cn_stage_depth_independent c i names nv regions cn k rg rn : (0 < k)%nat ->
  solve_cn c (with_cov i (region_cov_of names (canon (normalize nv regions cn (pileup (dup k rg)) (pileup (dup k rn)))))) =
  solve_cn c (with_cov i (region_cov_of names (canon (normalize nv regions cn (pileup rg) (pileup rn))))).
Proof. intros Hk. apply (structure_depth_independent (fun r => solve_cn c (with_cov i (region_cov_of names r)))). exact Hk. Qed.
