(* Tied_frame.v — the aliasing programs regenerated from /repo (gen/Frame_here.v, written by harness/gen_frame.py from the Python AST of
   every operation that touches the loaded gene database or the sample evidence) are SAFE: every in-place write goes to a container the
   operation created itself, and the operation binds only its own locals.  By Frame's theorem no container of the database or of the
   evidence changes its content.  When an operation of the code starts to write through an alias of a database / evidence container,
   the generated program changes with it and [ops_here_safe] stops being provable (its proof is a computation). *)
From Coq Require Import String Lia.
From Aldy Require Import Base Consts Frame FrameProofs Frame_here.
Import List.
Open Scope Z_scope.

Lemma ops_here_safe : forallb (fun np : str * prog => is_safe (snd np) && locals_only (snd np)) ops_here = true.
Proof. vm_compute. reflexivity. Qed.

Theorem frame_ops_here name p st : In (name, p) ops_here ->
  (forall l, l < next st -> alookup Z.eqb l (heap (exec p st)) = alookup Z.eqb l (heap st)) /\
  (forall x l, x < 100 -> alookup Z.eqb x (env st) = Some l -> l < next st -> content (exec p st) x = content st x).
Proof.
  intros Hin. pose proof ops_here_safe as A. rewrite forallb_forall in A. specialize (A (name, p) Hin). cbn [snd] in A.
  apply andb_true_iff in A as [S L]. split.
  - apply frame. exact S.
  - intros x l X E N. apply (roots_unchanged p st x l S L X E N).
Qed.

(* the list is not empty and names the accessor that used to write into the catalogue *)
Lemma ops_here_nonempty : existsb (fun np : str * prog => str_eqb (fst np) (s "SolvedAllele.mutations")) ops_here = true /\ (10 <= length ops_here)%nat.
Proof. split; vm_compute; [reflexivity|lia]. Qed.
