(* Tied_cov.v — the regenerated decision expressions of /repo (gen/Exprs_cov.v, written by harness/gen_exprs.py from the Python
   AST on every run) are the expressions the hand-written model uses.  Every lemma is an obligation of the tie: when an
   expression of the code changes, the generated file changes with it and the lemma stops compiling even if no sampled input
   tells old and new behaviour apart.  Statements: the model's definition equals the translated expression, for all arguments. *)
From Aldy Require Import Base Consts Filter Exprs_cov TieTac.
Import List.
Open Scope Q_scope.

(* coverage.py: quality_filter, basic_filter *)
Lemma qual_keep_tied : forall p o, q_ok p o = qual_keep (inZ (fst o)) (inZ (snd o)) (p_min_quality p) (p_min_mapq p).
Proof. first [reflexivity | intros; unfold q_ok, qual_keep; tie_sem]. Qed.

Lemma basic_filter_tied : forall p c m cn,
  basic_filter p c m cn =
  basic_pass (inZ (coverage c m)) (basic_min_cov (p_min_coverage p) (inZ (total c m)) (basic_thres 0 cn (p_threshold p))).
Proof. first [reflexivity | intros; unfold basic_filter, basic_pass, basic_min_cov, basic_thres, q_or; tie_sem]. Qed.

