(* ParamsProofs.v — lemmas and theorems about the parameter model (C18). *)
From Coq Require Import String.
From Aldy Require Import Base Consts Params.
Import List.
Open Scope Z_scope.

(* ---------- strings ---------- *)
Lemma str_eqb_eq a : forall b, str_eqb a b = true <-> a = b.
Proof.
  induction a as [|x a IH]; intros [|y b]; cbn [str_eqb]; split; intros H; try reflexivity; try discriminate.
  - apply andb_true_iff in H as [H1 H2]. apply Z.eqb_eq in H1. apply IH in H2. subst. reflexivity.
  - injection H as -> ->. rewrite Z.eqb_refl. cbn. apply IH. reflexivity.
Qed.
Lemma str_eqb_refl a : str_eqb a a = true. Proof. apply str_eqb_eq. reflexivity. Qed.
Lemma str_eqb_neq a b : a <> b -> str_eqb a b = false.
Proof. intros H. destruct (str_eqb a b) eqn:E; [|reflexivity]. apply str_eqb_eq in E. contradiction. Qed.
Lemma str_eqb_sym a b : str_eqb a b = str_eqb b a.
Proof.
  destruct (str_eqb a b) eqn:E.
  - apply str_eqb_eq in E. subst. symmetry. apply str_eqb_refl.
  - destruct (str_eqb b a) eqn:E2; [|reflexivity]. apply str_eqb_eq in E2. subst. rewrite str_eqb_refl in E. discriminate.
Qed.

(* ---------- association lists ---------- *)
Section AL.
  Context {V : Type}.
  Implicit Types (d : list (str * V)).
  Lemma alookup_aset_same n v d : alookup str_eqb n (aset str_eqb n v d) = Some v.
  Proof.
    induction d as [|[k w] d IH]; cbn [aset alookup].
    - rewrite str_eqb_refl. reflexivity.
    - destruct (str_eqb n k) eqn:E; cbn [alookup]; rewrite E; [reflexivity|exact IH].
  Qed.
  Lemma alookup_aset_other n m v d : n <> m -> alookup str_eqb m (aset str_eqb n v d) = alookup str_eqb m d.
  Proof.
    intros Hn. induction d as [|[k w] d IH]; cbn [aset alookup].
    - rewrite (str_eqb_neq m n) by congruence. reflexivity.
    - destruct (str_eqb n k) eqn:E; cbn [alookup].
      + apply str_eqb_eq in E. subst k. rewrite (str_eqb_neq m n) by congruence. reflexivity.
      + destruct (str_eqb m k); [reflexivity|exact IH].
  Qed.
  Lemma aset_keys n v d : alookup str_eqb n d <> None -> map fst (aset str_eqb n v d) = map fst d.
  Proof.
    induction d as [|[k w] d IH]; cbn [aset alookup map fst]; intros H.
    - contradiction.
    - destruct (str_eqb n k) eqn:E; cbn [map fst]; [reflexivity|]. f_equal. apply IH. exact H.
  Qed.
End AL.

(* ---------- case-insensitive boolean spellings ---------- *)
Lemma is_ws_lower c : is_ws (lower_c c) = is_ws c.
Proof. unfold is_ws, lower_c. destruct ((65 <=? c) && (c <=? 90)) eqn:E; [|reflexivity]. lia. Qed.
Lemma lstrip_lower t : lstrip (lower t) = lower (lstrip t).
Proof.
  induction t as [|c t IH]; [reflexivity|]. cbn [lower map lstrip]. fold (lower t). rewrite is_ws_lower.
  destruct (is_ws c); [exact IH|reflexivity].
Qed.
Lemma rev_lower t : rev (lower t) = lower (rev t).
Proof. unfold lower. symmetry. apply map_rev. Qed.
Lemma strip_lower t : strip (lower t) = lower (strip t).
Proof. unfold strip. rewrite lstrip_lower, rev_lower, lstrip_lower, rev_lower. reflexivity. Qed.
Lemma lower_idem t : lower (lower t) = lower t.
Proof. unfold lower. rewrite map_map. apply map_ext. intros c. unfold lower_c.
  destruct ((65 <=? c) && (c <=? 90)) eqn:E; [|rewrite E; reflexivity].
  destruct ((65 <=? c + 32) && (c + 32 <=? 90)) eqn:E2; [lia|reflexivity]. Qed.

(* any two spellings that differ only in letter case are read alike *)
Theorem bool_case_insensitive t u : lower t = lower u -> parse_bool Fixed (IStr t) = parse_bool Fixed (IStr u).
Proof. intros H. cbn [parse_bool]. rewrite <- !strip_lower, H. reflexivity. Qed.

Theorem bool_true_spellings t : lower (strip t) = s "true" \/ strip t = s "1" -> parse_bool Fixed (IStr t) = Some true.
Proof.
  intros [H|H]; cbn [parse_bool].
  - rewrite H. reflexivity.
  - rewrite H. reflexivity.
Qed.
Theorem bool_false_spellings t : lower (strip t) = s "false" \/ strip t = s "0" -> parse_bool Fixed (IStr t) = Some false.
Proof.
  intros [H|H]; cbn [parse_bool].
  - rewrite H. reflexivity.
  - rewrite H. reflexivity.
Qed.
Theorem bool_native b : parse_bool Fixed (IBool b) = Some b. Proof. reflexivity. Qed.
Theorem bool_int01 : parse_bool Fixed (IInt 1) = Some true /\ parse_bool Fixed (IInt 0) = Some false.
Proof. split; reflexivity. Qed.
Theorem bool_other_rejected t :
  let l := lower (strip t) in l <> s "true" -> l <> s "1" -> l <> s "false" -> l <> s "0" -> parse_bool Fixed (IStr t) = None.
Proof. cbn zeta. intros H1 H2 H3 H4. cbn [parse_bool]. rewrite !str_eqb_neq by assumption. reflexivity. Qed.

(* ---------- one parameter ---------- *)
Definition same_type (a b : pval) : bool :=
  match a, b with VBool _, VBool _ | VInt _, VInt _ | VFloat _, VFloat _ | VStr _, VStr _ | VNone, VNone => true | _, _ => false end.

Lemma convert_type bv cur v pv : convert bv cur v = Ok pv -> same_type cur pv = true.
Proof.
  destruct cur; cbn [convert]; intros H.
  - destruct (parse_bool bv v); inversion H; reflexivity.
  - destruct v; try (inversion H; reflexivity). destruct (parse_int t); inversion H; reflexivity.
  - destruct v; try (inversion H; reflexivity). destruct (parse_float t); inversion H; reflexivity.
  - destruct v; inversion H; reflexivity.
  - discriminate.
Qed.

(* a value already of the documented type is taken as it is (what the YAML options route relies on) *)
Lemma convert_native cur pv : same_type cur pv = true -> pv <> VNone -> convert Fixed cur (native pv) = Ok pv.
Proof. destruct cur, pv; cbn; intros H Hn; try discriminate; try reflexivity. contradiction. Qed.

Lemma is_cn_solution_dec n : {n = s "cn_solution"} + {n <> s "cn_solution"}.
Proof. destruct (str_eqb n (s "cn_solution")) eqn:E; [left; apply str_eqb_eq; exact E|right; intros ->; rewrite str_eqb_refl in E; discriminate]. Qed.

(* param_exact: the stored value is the value the spelling denotes, at the documented type; the rest is untouched *)
Theorem update_one_exact d ps n cur v pv :
  alookup str_eqb n d = Some cur -> n <> s "cn_solution" -> v <> INone -> denotes cur v = Ok pv ->
  update Fixed d ps [(n, v)] = Ok (aset str_eqb n pv d, aset str_eqb n pv ps)
  /\ alookup str_eqb n (aset str_eqb n pv d) = Some pv
  /\ same_type cur pv = true
  /\ forall m, m <> n -> alookup str_eqb m (aset str_eqb n pv d) = alookup str_eqb m d.
Proof.
  intros Hl Hn Hv Hd. unfold denotes in Hd. repeat split.
  - cbn [update]. rewrite Hl. rewrite (str_eqb_neq _ _ Hn). rewrite Hd.
    destruct v; try reflexivity. contradiction.
  - apply alookup_aset_same.
  - eapply convert_type; eassumption.
  - intros m Hm. apply alookup_aset_other. congruence.
Qed.

Theorem update_unknown_ignored bv d ps n v rest :
  alookup str_eqb n d = None -> update bv d ps ((n, v) :: rest) = update bv d ps rest.
Proof. intros H. cbn [update]. rewrite H. destruct v; reflexivity. Qed.

Theorem update_none_ignored bv d ps n rest : update bv d ps ((n, INone) :: rest) = update bv d ps rest.
Proof. reflexivity. Qed.

Theorem update_malformed_rejected d ps n cur v rest e :
  alookup str_eqb n d = Some cur -> n <> s "cn_solution" -> v <> INone -> denotes cur v = Err e ->
  update Fixed d ps ((n, v) :: rest) = Err n.
Proof.
  intros Hl Hn Hv Hd. unfold denotes in Hd. cbn [update]. rewrite Hl, (str_eqb_neq _ _ Hn), Hd.
  destruct v; try reflexivity. contradiction.
Qed.

(* every key the caller did not name keeps its value: whole-dictionary frame property, any number of parameters *)
Theorem update_frame bv : forall kw d ps d' ps', update bv d ps kw = Ok (d', ps') ->
  forall m, (forall v, ~ In (m, v) kw) -> alookup str_eqb m d' = alookup str_eqb m d.
Proof.
  induction kw as [|[n v] kw IH]; intros d ps d' ps' H m Hm; cbn [update] in H.
  - inversion H. reflexivity.
  - assert (Hm' : forall v0, ~ In (m, v0) kw) by (intros v0 Hi; apply (Hm v0); right; exact Hi).
    assert (Hnm : n <> m) by (intros ->; apply (Hm v); left; reflexivity).
    destruct v; try (eapply IH; eassumption);
    (destruct (alookup str_eqb n d) as [cur|] eqn:Hl; [|eapply IH; eassumption];
     destruct (str_eqb n (s "cn_solution")); [discriminate|];
     match type of H with context [convert ?a ?b ?c] => destruct (convert a b c) as [pv| |] eqn:Hc end; try discriminate;
     rewrite (IH _ _ _ _ H m Hm'); apply alookup_aset_other; exact Hnm).
Qed.

(* the dictionary keeps its keys and the type of every value *)
Definition types_of (d : dict) := map (fun kv => (fst kv, same_type (snd kv))) d.
Theorem update_keys bv : forall kw d ps d' ps', update bv d ps kw = Ok (d', ps') -> map fst d' = map fst d.
Proof.
  induction kw as [|[n v] kw IH]; intros d ps d' ps' H; cbn [update] in H.
  - inversion H. reflexivity.
  - destruct v; try (eapply IH; eassumption);
    (destruct (alookup str_eqb n d) as [cur|] eqn:Hl; [|eapply IH; eassumption];
     destruct (str_eqb n (s "cn_solution")); [discriminate|];
     match type of H with context [convert ?a ?b ?c] => destruct (convert a b c) as [pv| |] eqn:Hc end; try discriminate;
     rewrite (IH _ _ _ _ H); apply aset_keys; rewrite Hl; discriminate).
Qed.

(* ---------- write-then-load round trip ---------- *)
(* what a sequence of typed assignments does to a dictionary *)
Definition assign (d : dict) (ps : dict) : dict := fold_left (fun acc kv => aset str_eqb (fst kv) (snd kv) acc) ps d.

(* [ps] is "typed for d": every entry names a key of d with a value of that key's type, not None, not cn_solution *)
Fixpoint typed_for (d : dict) (ps : dict) : Prop :=
  match ps with
  | [] => True
  | (n, pv) :: r => n <> s "cn_solution" /\ pv <> VNone /\
                    (exists cur, alookup str_eqb n d = Some cur /\ same_type cur pv = true) /\ typed_for (aset str_eqb n pv d) r
  end.

Lemma native_not_none pv : pv <> VNone -> native pv <> INone.
Proof. destruct pv; cbn; congruence. Qed.

(* loading natively typed values stores exactly those values *)
Lemma update_typed : forall ps d acc, typed_for d ps ->
  exists acc', update Fixed d acc (map (fun kv => (fst kv, native (snd kv))) ps) = Ok (assign d ps, acc').
Proof.
  induction ps as [|[n pv] ps IH]; intros d acc H; cbn [map update assign fold_left fst snd].
  - eexists. reflexivity.
  - destruct H as (Hn & Hv & (cur & Hl & Ht) & Hr).
    rewrite Hl, (str_eqb_neq _ _ Hn), (convert_native _ _ Ht Hv).
    destruct (IH _ (aset str_eqb n pv acc) Hr) as [acc' Hacc'].
    exists acc'. destruct (native pv) eqn:En; try exact Hacc'. exfalso. exact (native_not_none _ Hv En).
Qed.

(* write-then-load, one parameter: the value written for spelling v is read back as the same value, and for a whole
   typed list [update_typed] above says the loaded dictionary is exactly the sequence of typed assignments *)
Theorem write_load_one d n cur v pv :
  alookup str_eqb n d = Some cur -> n <> s "cn_solution" -> v <> INone -> denotes cur v = Ok pv ->
  exists ps', update Fixed d [] [(n, native pv)] = Ok (aset str_eqb n pv d, ps').
Proof.
  intros Hl Hn Hv Hd.
  assert (Ht : same_type cur pv = true) by (eapply convert_type; exact Hd).
  assert (Hnn : pv <> VNone) by (intros ->; destruct cur; discriminate).
  destruct (update_typed [(n, pv)] d []) as [acc' H].
  - cbn [typed_for]. repeat split; try assumption. exists cur. split; assumption.
  - exists acc'. exact H.
Qed.

(* ---------- the command-line split ---------- *)
Lemma break_app p k v c : forallb (fun x => negb (p x)) k = true -> p c = true -> break p (k ++ c :: v) = (k, Some v).
Proof.
  intros Hk Hc. induction k as [|x k IH]; cbn [app break].
  - rewrite Hc. reflexivity.
  - cbn [forallb] in Hk. apply andb_true_iff in Hk as [Hx Hk]. apply negb_true_iff in Hx. rewrite Hx, (IH Hk). reflexivity.
Qed.
Theorem split_param_exact k v : forallb (fun x => negb (x =? 61)) k = true ->
  split_param (k ++ 61 :: v) = Some (map (fun ch => if ch =? 45 then 95 else ch) k, v).
Proof. intros H. unfold split_param. rewrite (break_app _ k v 61 H eq_refl). reflexivity. Qed.
Lemma break_none p t : forallb (fun x => negb (p x)) t = true -> snd (break p t) = None.
Proof.
  induction t as [|x t IH]; cbn [break forallb]; intros H; [reflexivity|].
  apply andb_true_iff in H as [Hx Ht]. apply negb_true_iff in Hx. rewrite Hx. specialize (IH Ht).
  destruct (break p t) as [a b]. cbn [snd] in *. exact IH.
Qed.
Theorem split_param_rejects t : forallb (fun x => negb (x =? 61)) t = true -> split_param t = None.
Proof. intros H. unfold split_param. pose proof (break_none _ t H) as Hb. destruct (break _ t) as [a b]. cbn [snd] in Hb. subst b. reflexivity. Qed.

(* ---------- the shipped boolean reading violates the statement (refutation witnesses, by computation) ---------- *)
Theorem as_shipped_refuted :
  parse_bool AsShipped (IStr (s "false")) = Some true /\
  parse_bool AsShipped (IStr (s "FALSE")) = Some true /\
  parse_bool AsShipped (IBool false) = Some true /\
  parse_bool AsShipped (IInt 0) = Some true /\
  parse_bool AsShipped (IStr (s "abc")) = Some true.
Proof. vm_compute. repeat split. Qed.

(* non-vacuity: a concrete dictionary and spellings meet the hypotheses of update_one_exact *)
Definition ex_d : dict := [(s "phase", VBool true); (s "gap", VFloat 0); (s "cn_max", VInt 20)].
Definition ex_d' : dict := [(s "phase", VBool false); (s "gap", VFloat (1 # 10)); (s "cn_max", VInt 7)].
Example exact_nonvacuous :
  update Fixed ex_d [] [(s "phase", IStr (s "FALSE")); (s "gap", IStr (s "1e-1")); (s "cn_max", IStr (s " 7 ")); (s "zzz", IInt 3)]
  = Ok (ex_d', ex_d').
Proof. vm_compute. reflexivity. Qed.

(* ---------- write-then-load, any number of parameters ---------- *)
Lemma convert_not_none bv cur v pv : convert bv cur v = Ok pv -> pv <> VNone.
Proof. intros H ->. destruct cur; try (apply convert_type in H; cbn in H; discriminate). cbn in H. discriminate. Qed.

Lemma aset_fresh {V} n (v : V) d : ~ In n (map fst d) -> aset str_eqb n v d = d ++ [(n, v)].
Proof.
  induction d as [|[k w] d IH]; cbn [aset map fst app In]; intros H; [reflexivity|].
  rewrite str_eqb_neq by (intros ->; apply H; left; reflexivity).
  f_equal. apply IH. intros Hi. apply H. right. exact Hi.
Qed.

(* with pairwise distinct names (what a keyword dictionary guarantees), the returned parameter list is the
   sequence of typed assignments that produced the final dictionary *)
Lemma update_trace : forall kw d ps d' ps',
  update Fixed d ps kw = Ok (d', ps') -> NoDup (map fst kw) -> (forall n, In n (map fst kw) -> ~ In n (map fst ps)) ->
  exists tr, ps' = ps ++ tr /\ typed_for d tr /\ d' = assign d tr.
Proof.
  induction kw as [|[n v] kw IH]; intros d ps d' ps' H Hnd Hdis; cbn [update] in H.
  - inversion H; subst. exists []. rewrite app_nil_r. repeat split.
  - cbn [map fst] in Hnd. inversion Hnd as [|? ? Hn Hnd']; subst.
    assert (Hdis' : forall m, In m (map fst kw) -> ~ In m (map fst ps)) by (intros m Hm; apply Hdis; right; exact Hm).
    assert (Hskip : update Fixed d ps kw = Ok (d', ps') -> exists tr, ps' = ps ++ tr /\ typed_for d tr /\ d' = assign d tr)
      by (intros H'; eapply IH; eassumption).
    destruct v; try (apply Hskip; exact H);
    (destruct (alookup str_eqb n d) as [cur|] eqn:Hl; [|apply Hskip; exact H];
     destruct (str_eqb n (s "cn_solution")) eqn:Hcn; [discriminate|];
     match type of H with context [convert ?a ?b ?c] => destruct (convert a b c) as [pv| |] eqn:Hc end; try discriminate;
     rewrite (aset_fresh n pv ps) in H by (apply Hdis; left; reflexivity);
     destruct (IH _ _ _ _ H Hnd') as (tr & Hps & Hty & Hd);
     [ intros m Hm Hin; rewrite map_app in Hin; apply in_app_or in Hin as [Hin|Hin];
       [exact (Hdis' m Hm Hin)|cbn in Hin; destruct Hin as [<-|[]]; exact (Hn Hm)]
     | exists ((n, pv) :: tr); rewrite Hps, <- app_assoc; cbn [app typed_for assign fold_left fst snd]; repeat split;
       [ intros ->; rewrite str_eqb_refl in Hcn; discriminate
       | eapply convert_not_none; exact Hc
       | exists cur; split; [exact Hl|eapply convert_type; exact Hc]
       | exact Hty
       | exact Hd ] ]).
Qed.

(* The options a profile file holds are the natively typed values returned by update; loading them into a fresh
   dictionary gives exactly the dictionary the writer's run ended with. *)
Theorem write_then_load : forall kw d0 d ps,
  NoDup (map fst kw) -> update Fixed d0 [] kw = Ok (d, ps) ->
  exists acc, update Fixed d0 [] (map (fun kv => (fst kv, native (snd kv))) ps) = Ok (d, acc).
Proof.
  intros kw d0 d ps Hnd H.
  destruct (update_trace kw d0 [] d ps H Hnd) as (tr & Hps & Hty & Hd); [intros n _ []|].
  cbn [app] in Hps. subst ps d. apply update_typed. exact Hty.
Qed.

(* keyword dictionaries have pairwise distinct names *)
Lemma aset_keys_in {V} n (v : V) d m : In m (map fst (aset str_eqb n v d)) -> m = n \/ In m (map fst d).
Proof.
  induction d as [|[k w] d IH]; cbn [aset map fst In]; intros H.
  - destruct H as [<-|[]]. left. reflexivity.
  - destruct (str_eqb n k) eqn:E; cbn [map fst In] in H.
    + right. exact H.
    + destruct H as [<-|H]; [right; left; reflexivity|]. destruct (IH H) as [->|Hi]; [left; reflexivity|right; right; exact Hi].
Qed.
Lemma aset_nodup {V} n (v : V) d : NoDup (map fst d) -> NoDup (map fst (aset str_eqb n v d)).
Proof.
  induction d as [|[k w] d IH]; cbn [aset map fst]; intros H.
  - constructor; [intros []|constructor].
  - inversion H as [|? ? Hk Hd]; subst. destruct (str_eqb n k) eqn:E; cbn [map fst].
    + constructor; assumption.
    + constructor; [|apply IH; exact Hd]. intros Hi. apply aset_keys_in in Hi as [->|Hi]; [rewrite str_eqb_refl in E; discriminate|exact (Hk Hi)].
Qed.
Lemma mkdict_nodup {V} (kw : list (str * V)) : NoDup (map fst (mkdict kw)).
Proof.
  unfold mkdict. assert (H : forall acc, NoDup (map fst acc) ->
      NoDup (map fst (fold_left (fun acc kv => aset str_eqb (fst kv) (snd kv) acc) kw acc))).
  { induction kw as [|[k v] kw IH]; intros acc Ha; cbn [fold_left fst snd]; [exact Ha|]. apply IH. apply aset_nodup. exact Ha. }
  apply H. constructor.
Qed.

Theorem write_options_then_load : forall c kw opts,
  write_options Fixed c kw = Ok opts ->
  exists d ps acc, update Fixed (c_params c) [] (mkdict kw) = Ok (d, ps) /\ update Fixed (c_params c) [] opts = Ok (d, acc).
Proof.
  intros c kw opts H. unfold write_options in H.
  destruct (update Fixed (c_params c) [] (mkdict kw)) as [[d ps]| |] eqn:Hu; try discriminate.
  inversion H; subst opts. destruct (write_then_load _ _ _ _ (mkdict_nodup kw) Hu) as [acc Hacc].
  exists d, ps, acc. split; [reflexivity|exact Hacc].
Qed.

(* ---------- Python str(int) / int(str) round trip (used when an integer is given for a string parameter and
              when integers travel through the command line) ---------- *)
From Coq Require Import ZifyBool.
Lemma digits_of_S f n acc : digits_of (S f) n acc =
  if n <? 10 then (48 + n mod 10) :: acc else digits_of f (n / 10) ((48 + n mod 10) :: acc).
Proof. reflexivity. Qed.
Lemma digits_of_spec : forall f n acc, 0 <= n < 2 ^ Z.of_nat (S f) ->
  exists ds, digits_of (S f) n acc = ds ++ acc /\ ds <> [] /\ Forall (fun c => is_digit c = true) ds /\
             forall a rest, digits_val a (ds ++ rest) = digits_val (a * 10 ^ Z.of_nat (length ds) + n) rest.
Proof.
  induction f as [|f IH]; intros n acc Hn.
  - assert (Hlt : n < 10) by (change (2 ^ Z.of_nat 1) with 2 in Hn; lia).
    exists [48 + n mod 10]. rewrite digits_of_S. apply Z.ltb_lt in Hlt as Hb. rewrite Hb.
    rewrite Z.mod_small by lia. repeat split.
    + discriminate.
    + constructor; [unfold is_digit; lia|constructor].
    + intros a rest. cbn [app digits_val length]. unfold is_digit.
      replace ((48 <=? 48 + n) && (48 + n <=? 57)) with true by lia.
      f_equal. change (Z.of_nat 1) with 1. lia.
  - rewrite digits_of_S. destruct (n <? 10) eqn:Hb.
    + exists [48 + n mod 10]. rewrite Z.mod_small by lia. repeat split.
      * discriminate.
      * constructor; [unfold is_digit; lia|constructor].
      * intros a rest. cbn [app digits_val length]. unfold is_digit.
        replace ((48 <=? 48 + n) && (48 + n <=? 57)) with true by lia.
        f_equal. change (Z.of_nat 1) with 1. lia.
    + assert (Hq : 0 <= n / 10 < 2 ^ Z.of_nat (S f)).
      { rewrite Nat2Z.inj_succ, Z.pow_succ_r in Hn by lia. split; [apply Z.div_pos; lia|].
        apply Z.div_lt_upper_bound; lia. }
      destruct (IH (n / 10) ((48 + n mod 10) :: acc) Hq) as (ds & Hds & Hne & Hall & Hval).
      exists (ds ++ [48 + n mod 10]). repeat split.
      * rewrite Hds, <- app_assoc. reflexivity.
      * destruct ds; discriminate.
      * apply Forall_app. split; [exact Hall|]. constructor; [|constructor].
        unfold is_digit. pose proof (Z.mod_pos_bound n 10). lia.
      * intros a rest. rewrite <- app_assoc. rewrite Hval. cbn [app digits_val]. unfold is_digit.
        pose proof (Z.mod_pos_bound n 10 ltac:(lia)) as Hm.
        replace ((48 <=? 48 + n mod 10) && (48 + n mod 10 <=? 57)) with true by lia.
        f_equal. rewrite app_length. cbn [length]. rewrite Nat2Z.inj_add. change (Z.of_nat 1) with 1.
        rewrite Z.pow_add_r by lia. change (10 ^ 1) with 10.
        pose proof (Z.div_mod n 10 ltac:(lia)). lia.
Qed.

Lemma print_nat_spec n : 0 <= n -> exists ds, print_nat n = ds /\ ds <> [] /\ Forall (fun c => is_digit c = true) ds /\
  digits_val 0 ds = Some n.
Proof.
  intros Hn. unfold print_nat.
  assert (Hb : 0 <= n < 2 ^ Z.of_nat (S (Z.to_nat (Z.log2 n)))).
  { split; [exact Hn|]. rewrite Nat2Z.inj_succ, Z2Nat.id by apply Z.log2_nonneg.
    destruct (Z.eq_dec n 0) as [->|Hz]; [cbn; lia|]. apply Z.log2_spec. lia. }
  destruct (digits_of_spec _ n [] Hb) as (ds & Hds & Hne & Hall & Hval).
  exists ds. rewrite app_nil_r in Hds. repeat split; try assumption.
  specialize (Hval 0 []). rewrite app_nil_r in Hval. rewrite Hval. cbn [digits_val]. f_equal; lia.
Qed.

Lemma digit_not_ws c : is_digit c = true -> is_ws c = false.
Proof. unfold is_digit, is_ws. lia. Qed.
Lemma lstrip_nonws c t : is_ws c = false -> lstrip (c :: t) = c :: t.
Proof. intros H. cbn [lstrip]. rewrite H. reflexivity. Qed.
Lemma strip_id t : (forall c r, t = c :: r -> is_ws c = false) -> (forall l d, t = l ++ [d] -> is_ws d = false) -> strip t = t.
Proof.
  intros H1 H2. unfold strip.
  assert (Hl : lstrip t = t) by (destruct t as [|c r]; [reflexivity|apply lstrip_nonws; eapply H1; reflexivity]).
  rewrite Hl. destruct (rev t) as [|d r] eqn:E.
  - cbn. rewrite <- (rev_involutive t), E. reflexivity.
  - assert (Ht : t = rev r ++ [d]) by (rewrite <- (rev_involutive t), E; reflexivity).
    rewrite (lstrip_nonws d r (H2 _ _ Ht)). rewrite <- E. apply rev_involutive.
Qed.
Lemma strip_digits_like (c0 : Z) ds : is_ws c0 = false -> Forall (fun c => is_digit c = true) ds -> ds <> [] ->
  strip (c0 :: ds) = c0 :: ds /\ strip ds = ds.
Proof.
  intros Hc Hall Hne. split; apply strip_id.
  - intros c r E. injection E as <- _. exact Hc.
  - intros l d E. destruct (exists_last Hne) as (l' & d' & ->).
    change (c0 :: l' ++ [d']) with ((c0 :: l') ++ [d']) in E. apply app_inj_tail in E as [_ <-].
    apply digit_not_ws. apply Forall_app in Hall as [_ Hd]. inversion Hd; assumption.
  - intros c r E. subst ds. apply digit_not_ws. inversion Hall; assumption.
  - intros l d E. subst ds. apply digit_not_ws. apply Forall_app in Hall as [_ Hd]. inversion Hd; assumption.
Qed.

Theorem parse_print_int z : parse_int (print_int z) = Some z.
Proof.
  unfold print_int, parse_int. destruct (z <? 0) eqn:Hz.
  - destruct (print_nat_spec (- z) ltac:(lia)) as (ds & -> & Hne & Hall & Hval).
    destruct (strip_digits_like 45 ds eq_refl Hall Hne) as [-> _].
    cbn [split_sign]. change (45 =? 45) with true. cbv iota. unfold parse_nat.
    destruct ds as [|d ds]; [contradiction|]. rewrite Hval. f_equal. lia.
  - destruct (print_nat_spec z ltac:(lia)) as (ds & -> & Hne & Hall & Hval).
    destruct (strip_digits_like 45 ds eq_refl Hall Hne) as [_ ->].
    destruct ds as [|d ds]; [contradiction|]. cbn [split_sign].
    assert (Hd : is_digit d = true) by (inversion Hall; assumption). unfold is_digit in Hd.
    replace (d =? 45) with false by lia. replace (d =? 43) with false by lia.
    unfold parse_nat. rewrite Hval. reflexivity.
Qed.
