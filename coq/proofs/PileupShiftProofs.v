(* PileupShiftProofs.v — C13 at the level of the READS: the pileup is translation-equivariant.
   If every coordinate of the gene view (lookup range, RefSeq-mapped intervals, wide region, phaseable sites, catalogued
   multi-substitutions) and the start of every read is moved by the same offset d - another genome build on the same strand
   without alignment gaps inside the locus - then every read contributes the same observations, dump entries and phase writes
   moved by d, the same reads are eligible, and the coverage table is the same table moved by d.  So the evidence the stages
   read (C13_major_stage_same_strand, C13_minor_*_equivariant) IS the transported evidence, for every read set. *)
From Aldy Require Import Base Consts Pileup Consts_here.
Import List.
Open Scope Z_scope.

Section Shift.
  Variable d : Z.
  Definition shk (k : key) : key := (fst k + d, snd k).
  Definition sho (o : obs) : obs := (shk (fst o), snd o).
  Definition she (e : event) : event := match e with Ob o => Ob (sho o) | Du k => Du (shk k) | Ph k => Ph (shk k) end.
  Definition shm (m : Z * (str * str)) : Z * (str * str) := (fst m + d, snd m).
  Definition shg (g : gview) : gview :=
    {| g_lo := g_lo g + d; g_seq := g_seq g; g_mapped := map (fun ab => (fst ab + d, snd ab + d)) (g_mapped g);
       g_wide := (fst (g_wide g) + d, snd (g_wide g) + d); g_phaseable := map (fun p => p + d) (g_phaseable g);
       g_multi := map shm (g_multi g); g_all_multi := map shm (g_all_multi g); g_has_indels := g_has_indels g |}.
  Definition shr (r : read) : read :=
    {| r_name := r_name r; r_start := r_start r + d; r_cigar := r_cigar r; r_seq := r_seq r; r_qual := r_qual r; r_mapq := r_mapq r;
       r_offtarget := r_offtarget r; r_funmap := r_funmap r; r_supp := r_supp r |}.

  (* ---- the gene view ---- *)
  Lemma leb_sh a b : (a + d <=? b + d) = (a <=? b).
  Proof. destruct (Z.leb_spec a b), (Z.leb_spec (a + d) (b + d)); try reflexivity; lia. Qed.
  Lemma ltb_sh a b : (a + d <? b + d) = (a <? b).
  Proof. destruct (Z.ltb_spec a b), (Z.ltb_spec (a + d) (b + d)); try reflexivity; lia. Qed.
  Lemma eqb_sh a b : (a + d =? b + d) = (a =? b).
  Proof. destruct (Z.eqb_spec a b), (Z.eqb_spec (a + d) (b + d)); try reflexivity; lia. Qed.
  Lemma base_sh g p : base (shg g) (p + d) = base g p.
  Proof.
    unfold base. cbn [shg g_lo g_seq]. rewrite leb_sh.
    replace (g_lo g + d + Z.of_nat (length (g_seq g))) with (g_lo g + Z.of_nat (length (g_seq g)) + d) by lia. rewrite ltb_sh.
    replace (p + d - (g_lo g + d)) with (p - g_lo g) by lia. reflexivity.
  Qed.
  Lemma in_gene_sh g p : in_gene (shg g) (p + d) = in_gene g p.
  Proof.
    unfold in_gene. cbn [shg g_mapped]. induction (g_mapped g) as [|ab t IH]; [reflexivity|]. cbn [map existsb fst snd].
    rewrite IH, leb_sh, ltb_sh. reflexivity.
  Qed.
  Lemma fold_min_sh l : forall a, fold_left Z.min (map (fun x => x + d) l) (a + d) = fold_left Z.min l a + d.
  Proof. induction l as [|x l IH]; intros a; cbn [map fold_left]; [reflexivity|]. rewrite <- IH. f_equal. lia. Qed.
  Lemma fold_max_sh l : forall a, fold_left Z.max (map (fun x => x + d) l) (a + d) = fold_left Z.max l a + d.
  Proof. induction l as [|x l IH]; intros a; cbn [map fold_left]; [reflexivity|]. rewrite <- IH. f_equal. lia. Qed.
  Lemma in_bounds_sh g p : in_bounds (shg g) (p + d) = in_bounds g p.
  Proof.
    unfold in_bounds. cbn [shg g_mapped]. destruct (g_mapped g) as [|ab t]; [reflexivity|]. cbn [map fst snd].
    rewrite !map_map. cbn [fst snd].
    rewrite <- (map_map fst (fun x => x + d)), <- (map_map snd (fun x => x + d)), fold_min_sh, fold_max_sh, leb_sh.
    replace (fold_left Z.max (map snd t) (snd ab) + d - 1) with (fold_left Z.max (map snd t) (snd ab) - 1 + d) by lia. rewrite leb_sh. reflexivity.
  Qed.
  Lemma phaseable_sh g p : phaseable (shg g) (p + d) = phaseable g p.
  Proof.
    unfold phaseable, memb. cbn [shg g_phaseable]. induction (g_phaseable g) as [|x t IH]; [reflexivity|]. cbn [map existsb]. rewrite IH, eqb_sh. reflexivity.
  Qed.
  Lemma classify_sh g p b : classify (shg g) (p + d) b = classify g p b.
  Proof. unfold classify. rewrite in_gene_sh, base_sh. reflexivity. Qed.
  Lemma zseq_sh n : forall p, zseq (p + d) n = map (fun x => x + d) (zseq p n).
  Proof. induction n as [|n IH]; intros p; cbn [zseq map]; [reflexivity|]. f_equal. replace (p + d + 1) with (p + 1 + d) by lia. apply IH. Qed.
  Lemma gslice_sh g p n : gslice (shg g) (p + d) n = gslice g p n.
  Proof. unfold gslice. rewrite zseq_sh, map_map. apply map_ext. intros x. apply base_sh. Qed.

  (* ---- the CIGAR walk ---- *)
  Lemma m_run_sh g c mqb n : forall p sq ql pq,
    m_run (shg g) c mqb n (p + d) sq ql pq = (map she (fst (m_run g c mqb n p sq ql pq)), snd (m_run g c mqb n p sq ql pq)).
  Proof.
    induction n as [|n IH]; intros p sq ql pq; cbn [m_run]; [reflexivity|].
    replace (p + d + 1) with (p + 1 + d) by lia. rewrite IH, classify_sh, phaseable_sh.
    destruct (m_run g c mqb n (p + 1) (tl sq) (option_map (@tl Z) ql) _) as [ev st]. cbn [fst snd].
    f_equal. cbn [map she sho shk fst snd]. f_equal. rewrite !map_app.
    destruct (str_eqb (classify g p (hd 78 sq)) ref_op), (phaseable g p); reflexivity.
  Qed.
  Lemma walk_sh g c mqb cg : forall p sq ql pq, walk (shg g) c mqb cg (p + d) sq ql pq = map she (walk g c mqb cg p sq ql pq).
  Proof.
    induction cg as [|[o n] t IH]; intros p sq ql pq; cbn [walk]; [reflexivity|].
    destruct o.
    - rewrite m_run_sh. destruct (m_run g c mqb (len_of n) p sq ql pq) as [ev [[sq' ql'] pq']]. cbn [fst snd].
      rewrite map_app. f_equal. replace (p + d + Z.of_nat (len_of n)) with (p + Z.of_nat (len_of n) + d) by lia. apply IH.
    - rewrite phaseable_sh. cbv zeta. cbn [map she]. unfold sho, shk. cbn [fst snd]. rewrite map_app, IH. destruct (phaseable g p); reflexivity.
    - rewrite gslice_sh, phaseable_sh, zseq_sh. cbv zeta. rewrite !map_app, !map_map. cbn [map she]. unfold sho, shk. cbn [fst snd].
      replace (p + d + Z.of_nat (len_of n)) with (p + Z.of_nat (len_of n) + d) by lia. rewrite map_app, IH.
      destruct (phaseable g p); reflexivity.
    - apply IH.
    - apply IH.
    - apply IH.
    - apply IH.
    - rewrite m_run_sh. destruct (m_run g c mqb (len_of n) p sq ql pq) as [ev [[sq' ql'] pq']]. cbn [fst snd].
      rewrite map_app. f_equal. replace (p + d + Z.of_nat (len_of n)) with (p + Z.of_nat (len_of n) + d) by lia. apply IH.
    - rewrite m_run_sh. destruct (m_run g c mqb (len_of n) p sq ql pq) as [ev [[sq' ql'] pq']]. cbn [fst snd].
      rewrite map_app. f_equal. replace (p + d + Z.of_nat (len_of n)) with (p + Z.of_nat (len_of n) + d) by lia. apply IH.
  Qed.
  Lemma read_events_sh g c r : read_events (shg g) c (shr r) = map she (read_events g c r).
  Proof. unfold read_events. cbn [shr r_cigar r_start r_seq r_qual]. unfold mapq_bin. cbn [r_mapq]. apply walk_sh. Qed.
  Lemma obs_of_sh ev : obs_of (map she ev) = map sho (obs_of ev).
  Proof. unfold obs_of. induction ev as [|e ev IH]; [reflexivity|]. cbn [map flat_map]. rewrite IH, map_app. destruct e; reflexivity. Qed.
  Lemma dump_of_sh ev : dump_of (map she ev) = map shk (dump_of ev).
  Proof. unfold dump_of. induction ev as [|e ev IH]; [reflexivity|]. cbn [map flat_map]. rewrite IH, map_app. destruct e; reflexivity. Qed.
  Lemma phase_of_sh ev : phase_of (map she ev) = map shk (phase_of ev).
  Proof. unfold phase_of. induction ev as [|e ev IH]; [reflexivity|]. cbn [map flat_map]. rewrite IH, map_app. destruct e; reflexivity. Qed.

  (* ---- multi-substitution merge ---- *)
  Definition shck (ck : nat * key) : nat * key := (fst ck, shk (snd ck)).
  Lemma key_eqb_sh a b : key_eqb (shk a) (shk b) = key_eqb a b.
  Proof. unfold key_eqb, shk. cbn [fst snd]. rewrite eqb_sh. reflexivity. Qed.
  Lemma comps_from_sh l r : forall pos i, comps_from (pos + d) i l r = map shck (comps_from pos i l r).
  Proof.
    induction l as [|a l IH]; intros pos i; cbn [comps_from]; [reflexivity|]. rewrite map_app, IH. f_equal.
    destruct (a =? 46); [reflexivity|]. cbn [map shck shk fst snd]. replace (pos + d + Z.of_nat i) with (pos + Z.of_nat i + d) by lia. reflexivity.
  Qed.
  Lemma comps_sh m : comps (shm m) = map shck (comps m).
  Proof. unfold comps, shm. cbn [fst snd]. apply comps_from_sh. Qed.
  Lemma memb_key_sh k l : memb key_eqb (shk k) (map shk l) = memb key_eqb k l.
  Proof. unfold memb. induction l as [|x l IH]; [reflexivity|]. cbn [map existsb]. rewrite IH, key_eqb_sh. reflexivity. Qed.
  Lemma matched_sh dump m : matched (map shk dump) (shm m) = matched dump m.
  Proof.
    unfold matched. rewrite comps_sh. f_equal.
    - unfold memb, shm. cbn [fst]. induction dump as [|x l IH]; [reflexivity|]. cbn [map existsb fst shk]. rewrite IH, eqb_sh. reflexivity.
    - induction (comps m) as [|ck cs IH]; [reflexivity|]. cbn [map forallb shck snd]. rewrite IH, memb_key_sh. reflexivity.
  Qed.
  Lemma find_obs_sh k (os : list obs) :
    find (fun o : key * qual => key_eqb (fst o) (shk k)) (map sho os) = option_map sho (find (fun o : key * qual => key_eqb (fst o) k) os).
  Proof. induction os as [|o os IH]; [reflexivity|]. cbn [map find]. unfold sho at 1. cbn [fst]. rewrite key_eqb_sh, IH. destruct (key_eqb (fst o) k); reflexivity. Qed.
  Lemma comp_index_sh cs k : comp_index (map shck cs) (shk k) = comp_index cs k.
  Proof.
    unfold comp_index. induction cs as [|ck cs IH]; [reflexivity|]. cbn [map find shck snd fst]. rewrite key_eqb_sh.
    destruct (key_eqb (snd ck) k); [reflexivity|exact IH].
  Qed.
  Lemma items_sh (os : list obs) cs :
    flat_map (fun ck : nat * key => match find (fun o : key * qual => key_eqb (fst o) (snd ck)) (map sho os) with Some o => [snd o] | None => [] end) (map shck cs)
    = flat_map (fun ck : nat * key => match find (fun o : key * qual => key_eqb (fst o) (snd ck)) os with Some o => [snd o] | None => [] end) cs.
  Proof.
    induction cs as [|ck cs IH]; [reflexivity|]. cbn [map flat_map]. rewrite IH. f_equal. unfold shck at 1. cbn [snd]. rewrite find_obs_sh.
    destruct (find (fun o : key * qual => key_eqb (fst o) (snd ck)) os); reflexivity.
  Qed.
  Lemma merge_one_sh dump os m : merge_one (map shk dump) (map sho os) (shm m) = map sho (merge_one dump os m).
  Proof.
    unfold merge_one. rewrite matched_sh. destruct (matched dump m); [|reflexivity]. cbv zeta. rewrite comps_sh, !map_map, items_sh.
    apply map_ext. intros o. change (fst (sho o)) with (shk (fst o)). change (snd (sho o)) with (snd o). rewrite comp_index_sh.
    destruct (comp_index (comps m) (fst o)) as [[|j]|]; reflexivity.
  Qed.
  Lemma merge_sh g dump os : merge (shg g) (map shk dump) (map sho os) = map sho (merge g dump os).
  Proof.
    unfold merge. cbn [shg g_multi]. revert os. induction (g_multi g) as [|m ms IH]; intros os; cbn [map fold_left]; [reflexivity|].
    rewrite merge_one_sh. apply IH.
  Qed.
  Theorem read_obs_sh g c r : read_obs (shg g) c (shr r) = map sho (read_obs g c r).
  Proof. unfold read_obs. cbv zeta. rewrite read_events_sh, dump_of_sh, obs_of_sh. apply merge_sh. Qed.
  Theorem read_phase_sh g c r : read_phase (shg g) c (shr r) = map shk (read_phase g c r).
  Proof. unfold read_phase. rewrite read_events_sh. apply phase_of_sh. Qed.

  (* ---- eligibility and the pile ---- *)
  Lemma eligible_sh g r : eligible (shg g) (shr r) = eligible g r.
  Proof.
    unfold eligible, in_region, ref_end. cbn [shr shg r_cigar r_supp r_seq r_offtarget r_funmap r_start g_wide fst snd]. cbv zeta.
    replace (r_start r + d + Z.max 1 (ref_len (r_cigar r))) with (r_start r + Z.max 1 (ref_len (r_cigar r)) + d) by lia.
    rewrite !leb_sh. reflexivity.
  Qed.
  Theorem pile_sh g c rs : pile (shg g) c (map shr rs) = map sho (pile g c rs).
  Proof.
    unfold pile. induction rs as [|r rs IH]; [reflexivity|]. cbn [map flat_map]. rewrite IH, map_app, eligible_sh, read_obs_sh.
    destruct (eligible g r); reflexivity.
  Qed.

  (* ---- the table ---- *)
  Definition sht (t : table) : table := map (fun pc => (fst pc + d, snd pc)) t.
  Definition shent (e : entry) : entry := (shk (fst e), snd e).
  Lemma is_ref_sh o : is_ref (sho o) = is_ref o. Proof. reflexivity. Qed.
  Lemma norm_of_sh os : norm_of (map sho os) = map (fun pl => (fst pl + d, snd pl)) (norm_of os).
  Proof. unfold norm_of. induction os as [|o os IH]; [reflexivity|]. cbn [map filter]. rewrite is_ref_sh. destruct (is_ref o); cbn [map]; rewrite IH; reflexivity. Qed.
  Lemma muts_of_sh os : muts_of (map sho os) = map shent (muts_of os).
  Proof. unfold muts_of. induction os as [|o os IH]; [reflexivity|]. cbn [map filter]. rewrite is_ref_sh. destruct (is_ref o); cbn [negb map]; rewrite IH; reflexivity. Qed.
  Lemma fold_key_sh g k : fold_key (shg g) (shk k) = shk (fold_key g k).
  Proof. unfold fold_key, shk. cbn [fst snd]. rewrite in_bounds_sh. destruct (negb (in_bounds g (fst k)) && negb (is_ins (snd k))); reflexivity. Qed.
  Lemma table_add_sh e t : table_add (shent e) (sht t) = sht (table_add e t).
  Proof.
    induction t as [|[p cs] t IH]; cbn [sht map table_add shent shk fst snd]; [reflexivity|]. rewrite eqb_sh.
    destruct (fst (fst e) =? p); cbn [map fst snd]; [reflexivity|]. f_equal. exact IH.
  Qed.
  Lemma make_coverage_sh g it norm muts :
    make_coverage (shg g) it (map (fun pl => (fst pl + d, snd pl)) norm) (map shent muts) = sht (make_coverage g it norm muts).
  Proof.
    unfold make_coverage. cbv zeta.
    assert (F : forall l t, fold_left (fun t e => table_add e t) (map shent l) (sht t) = sht (fold_left (fun t e => table_add e t) l t)).
    { induction l as [|e l IH]; intros t; cbn [map fold_left]; [reflexivity|]. rewrite table_add_sh. apply IH. }
    match goal with |- map ?F1 (fold_left ?A ?ES []) = sht (map ?F2 (fold_left ?A2 ?ES2 [])) => assert (E : ES = map shent ES2) end.
    { rewrite map_app. f_equal.
      - induction norm as [|pl norm IH]; [reflexivity|]. cbn [map filter snd]. destruct (nonempty (snd pl)); cbn [map]; rewrite IH; reflexivity.
      - rewrite !map_map. apply map_ext. intros e. unfold shent. cbn [fst snd]. rewrite fold_key_sh. reflexivity. }
    rewrite E. change (@nil (Z * list cell)) with (sht []) at 1. rewrite F. unfold sht. rewrite !map_map. apply map_ext. intros pc. reflexivity.
  Qed.
  Theorem sample_table_sh g c rs : sample_table (shg g) c (map shr rs) = sht (sample_table g c rs).
  Proof. unfold sample_table. cbv zeta. rewrite pile_sh, norm_of_sh, muts_of_sh. cbn [shg g_has_indels]. apply make_coverage_sh. Qed.

  (* ---- the accessors the stages use ---- *)
  Lemma cells_at_sh t p : cells_at (sht t) (p + d) = cells_at t p.
  Proof. unfold cells_at. induction t as [|[q cs] t IH]; [reflexivity|]. cbn [sht map alookup fst snd]. rewrite eqb_sh. destruct (p =? q); [reflexivity|exact IH]. Qed.
  Lemma cell_at_sh t k : cell_at (sht t) (shk k) = cell_at t k.
  Proof. unfold cell_at, shk. cbn [fst snd]. rewrite cells_at_sh. reflexivity. Qed.
  Lemma depth_at_sh t p : depth_at (sht t) (p + d) = depth_at t p.
  Proof. unfold depth_at. rewrite cells_at_sh. reflexivity. Qed.
  Definition shi (indels : indel_tab) : indel_tab := map (fun kv => (shk (fst kv), snd kv)) indels.
  Lemma indel_lookup_sh indels k : alookup key_eqb (shk k) (shi indels) = alookup key_eqb k indels.
  Proof. induction indels as [|[k' v] l IH]; [reflexivity|]. cbn [shi map alookup fst snd]. rewrite key_eqb_sh. destruct (key_eqb k k'); [reflexivity|exact IH]. Qed.
  Theorem coverage_sh t indels k : cov_coverage (sht t) (shi indels) (shk k) = cov_coverage t indels k.
  Proof. unfold cov_coverage. rewrite indel_lookup_sh, cell_at_sh. reflexivity. Qed.
  Theorem total_sh t indels k : cov_total_mut (sht t) (shi indels) (shk k) = cov_total_mut t indels k.
  Proof. unfold cov_total_mut. rewrite indel_lookup_sh. change (fst (shk k)) with (fst k + d). rewrite depth_at_sh. reflexivity. Qed.

  (* what the stages read, straight from the reads *)
  Theorem evidence_of_reads_sh g c rs indels k :
    cov_coverage (sample_table (shg g) c (map shr rs)) (shi indels) (shk k) = cov_coverage (sample_table g c rs) indels k /\
    cov_total_mut (sample_table (shg g) c (map shr rs)) (shi indels) (shk k) = cov_total_mut (sample_table g c rs) indels k /\
    cov_total_pos (sample_table (shg g) c (map shr rs)) (fst k + d) = cov_total_pos (sample_table g c rs) (fst k).
  Proof. rewrite sample_table_sh. split; [apply coverage_sh|]. split; [apply total_sh|apply depth_at_sh]. Qed.

  (* ---- the per-fragment phase records ---- *)
  Definition shpd (pd : pdict) : pdict := map shk pd.
  Definition shph (ph : list (str * pdict)) : list (str * pdict) := map (fun fd => (fst fd, shpd (snd fd))) ph.
  Lemma phase_write_sh pd w : phase_write (shpd pd) (shk w) = shpd (phase_write pd w).
  Proof.
    unfold phase_write, shpd, shk. cbn [fst snd]. induction pd as [|[p o] pd IH]; cbn [map aset fst snd]; [reflexivity|].
    rewrite eqb_sh. destruct (fst w =? p); cbn [map fst snd]; [reflexivity|]. f_equal. exact IH.
  Qed.
  Lemma phase_writes_sh ws : forall pd, fold_left phase_write (map shk ws) (shpd pd) = shpd (fold_left phase_write ws pd).
  Proof. induction ws as [|w ws IH]; intros pd; cbn [map fold_left]; [reflexivity|]. rewrite phase_write_sh. apply IH. Qed.
  Lemma phases_add_sh ph frag ws : phases_add (shph ph) frag (map shk ws) = shph (phases_add ph frag ws).
  Proof.
    unfold phases_add. cbv zeta.
    assert (L : alookup str_eqb frag (shph ph) = option_map shpd (alookup str_eqb frag ph)).
    { induction ph as [|[f pd] ph IH]; [reflexivity|]. cbn [shph map alookup fst snd]. destruct (str_eqb frag f); [reflexivity|exact IH]. }
    rewrite L.
    assert (S : forall v ph0, aset str_eqb frag (shpd v) (shph ph0) = shph (aset str_eqb frag v ph0)).
    { intros v ph0. induction ph0 as [|[f pd] ph0 IH]; [reflexivity|]. cbn [shph map aset fst snd].
      destruct (str_eqb frag f); cbn [map fst snd]; [reflexivity|]. f_equal. exact IH. }
    destruct (alookup str_eqb frag ph) as [cur|]; cbn [option_map].
    - rewrite phase_writes_sh. apply S.
    - change (@nil (Z * str)) with (shpd []). rewrite phase_writes_sh. apply S.
  Qed.
  Theorem phases_sh g c rs : phases (shg g) c (map shr rs) = shph (phases g c rs).
  Proof.
    unfold phases. change (@nil (str * pdict)) with (shph []) at 1. generalize (@nil (str * pdict)).
    induction rs as [|r rs IH]; intros ph; cbn [map fold_left]; [reflexivity|].
    rewrite eligible_sh, read_phase_sh. cbn [shr r_name]. destruct (eligible g r); [rewrite phases_add_sh|]; apply IH.
  Qed.
End Shift.

(* non-vacuity / sanity: a concrete gene view, two reads, an offset of 1,000,000 *)
Example shift_example :
  let g := {| g_lo := 100; g_seq := map Z.of_nat [65; 67; 71; 84; 65; 67; 71; 84; 65; 67; 71; 84]%nat; g_mapped := [(100, 112)]; g_wide := (90, 120);
              g_phaseable := [103; 104; 105]; g_multi := [(104, (map Z.of_nat [65; 67]%nat, map Z.of_nat [71; 84]%nat))];
              g_all_multi := [(104, (map Z.of_nat [65; 67]%nat, map Z.of_nat [71; 84]%nat))]; g_has_indels := false |} in
  let r1 := mk_read [102] 102 [(0, 2); (1, 1); (0, 3); (2, 2); (0, 1)] (map Z.of_nat [71; 84; 65; 71; 84; 71; 71]%nat) None 60 false false false in
  sample_table (shg 1000000 g) Consts_here.here [shr 1000000 r1] = sht 1000000 (sample_table g Consts_here.here [r1]) /\
  sample_table g Consts_here.here [r1] <> [].
Proof. vm_compute. split; [reflexivity|discriminate]. Qed.
