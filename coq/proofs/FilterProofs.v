(* FilterProofs.v — lemmas about the evidence table and its filters (C15, used by C02). *)
From Aldy Require Import Base Filter.
From Coq Require Import Lqa.
Open Scope Z_scope.

(* ---------- decidable equalities ---------- *)
Lemma seqb_eq a : forall b, str_eqb a b = true <-> a = b.
Proof.
  induction a as [|x a IH]; intros [|y b]; cbn [str_eqb]; split; intros H; try reflexivity; try discriminate.
  - apply andb_true_iff in H as [H1 H2]. apply Z.eqb_eq in H1. apply IH in H2. subst. reflexivity.
  - injection H as -> ->. rewrite Z.eqb_refl. cbn. apply IH. reflexivity.
Qed.
Lemma seqb_refl a : str_eqb a a = true. Proof. apply seqb_eq. reflexivity. Qed.
Lemma seqb_neq a b : a <> b -> str_eqb a b = false.
Proof. intros H. destruct (str_eqb a b) eqn:E; [|reflexivity]. apply seqb_eq in E. contradiction. Qed.
Lemma mut_eqb_eq (a b : mut) : mut_eqb a b = true <-> a = b.
Proof.
  destruct a as [p o], b as [p' o']. unfold mut_eqb. cbn [fst snd]. rewrite andb_true_iff, Z.eqb_eq, seqb_eq.
  split; [intros [-> ->]; reflexivity | intros H; injection H as -> ->; split; reflexivity].
Qed.
Lemma mut_eqb_refl a : mut_eqb a a = true. Proof. apply mut_eqb_eq. reflexivity. Qed.
Lemma mut_eqb_neq a b : a <> b -> mut_eqb a b = false.
Proof. intros H. destruct (mut_eqb a b) eqn:E; [|reflexivity]. apply mut_eqb_eq in E. contradiction. Qed.

Lemma memb_In {A} (eqb : A -> A -> bool) (Heq : forall a b, eqb a b = true <-> a = b) x l :
  memb eqb x l = true <-> In x l.
Proof.
  unfold memb. rewrite existsb_exists. split.
  - intros (y & Hy & E). apply Heq in E. subst. exact Hy.
  - intros H. exists x. split; [exact H|]. apply Heq. reflexivity.
Qed.
Lemma nodupb_NoDup {A} (eqb : A -> A -> bool) (Heq : forall a b, eqb a b = true <-> a = b) l :
  nodupb eqb l = true -> NoDup l.
Proof.
  induction l as [|x l IH]; cbn [nodupb]; intros H; [constructor|].
  apply andb_true_iff in H as [H1 H2]. constructor; [|apply IH; exact H2].
  intros Hin. apply (memb_In eqb Heq) in Hin. rewrite Hin in H1. discriminate.
Qed.

(* ---------- association lists: a filter that looks at keys only ---------- *)
Section KeyFilter.
  Context {K V : Type} (eqb : K -> K -> bool) (Heq : forall a b, eqb a b = true <-> a = b).
  Lemma alookup_filter_key (f : K -> bool) k (l : list (K * V)) :
    alookup eqb k (filter (fun kv => f (fst kv)) l) = if f k then alookup eqb k l else None.
  Proof.
    induction l as [|[k' v] l IH]; cbn [filter alookup fst]; [destruct (f k); reflexivity|].
    destruct (f k') eqn:Fk'; cbn [alookup].
    - destruct (eqb k k') eqn:E.
      + apply Heq in E. subst. rewrite Fk'. reflexivity.
      + exact IH.
    - rewrite IH. destruct (eqb k k') eqn:E; [|reflexivity].
      apply Heq in E. subst. rewrite Fk'. reflexivity.
  Qed.
  Lemma alookup_In k v (l : list (K * V)) : alookup eqb k l = Some v -> In (k, v) l.
  Proof.
    induction l as [|[k' v'] l IH]; cbn [alookup]; [discriminate|].
    destruct (eqb k k') eqn:E; intros H.
    - apply Heq in E. injection H as ->. subst. left. reflexivity.
    - right. apply IH. exact H.
  Qed.
  Lemma alookup_None_notin k (l : list (K * V)) : alookup eqb k l = None -> ~ In k (map fst l).
  Proof.
    induction l as [|[k' v'] l IH]; cbn [alookup map fst]; intros H; [intros []|].
    destruct (eqb k k') eqn:E; [discriminate|].
    intros [H1 | H1]; [subst; rewrite (proj2 (Heq k k) eq_refl) in E; discriminate | exact (IH H H1)].
  Qed.
  (* a value transformer followed by dropping entries, on a list with unique keys *)
  Lemma alookup_map_filter (g : K -> V -> V) (keep : K * V -> bool) k (l : list (K * V)) :
    NoDup (map fst l) ->
    alookup eqb k (filter keep (map (fun kv => (fst kv, g (fst kv) (snd kv))) l)) =
    match alookup eqb k l with
    | Some v => if keep (k, g k v) then Some (g k v) else None
    | None => None
    end.
  Proof.
    induction l as [|[k' v] l IH]; cbn [map filter alookup fst snd]; intros Hn; [reflexivity|].
    inversion Hn as [|? ? Hnotin Hn']; subst.
    destruct (eqb k k') eqn:E.
    - apply Heq in E. subst k'. destruct (keep (k, g k v)) eqn:Kp; cbn [alookup].
      + rewrite (proj2 (Heq k k) eq_refl). reflexivity.
      + rewrite IH by exact Hn'. destruct (alookup eqb k l) eqn:L; [|reflexivity].
        apply alookup_In in L. exfalso. apply Hnotin. apply (in_map fst) in L. exact L.
    - destruct (keep (k', g k' v)); cbn [alookup]; [rewrite E|]; apply IH; exact Hn'.
  Qed.
End KeyFilter.

(* ---------- quality filter: observations below either threshold do not count ---------- *)
Definition lowq (p : fparams) (o : obs) : Prop :=
  (inZ (snd o) < p_min_quality p)%Q \/ (inZ (fst o) < p_min_mapq p)%Q.

Lemma lowq_not_ok p o : lowq p o -> q_ok p o = false.
Proof.
  unfold lowq, q_ok, Qleb. intros [H | H].
  - destruct (Qle_bool (p_min_quality p) (inZ (snd o))) eqn:E; [|reflexivity].
    apply Qle_bool_iff in E. exfalso. apply (Qlt_not_le _ _ H). exact E.
  - destruct (Qle_bool (p_min_mapq p) (inZ (fst o))) eqn:E; [|apply andb_false_r].
    apply Qle_bool_iff in E. exfalso. apply (Qlt_not_le _ _ H). exact E.
Qed.
Lemma ok_not_lowq p o : q_ok p o = false -> lowq p o.
Proof.
  unfold lowq, q_ok, Qleb. intros H. apply andb_false_iff in H as [H | H]; [left | right];
    apply Qnot_le_lt; intros Hle; apply Qle_bool_iff in Hle; rewrite Hle in H; discriminate.
Qed.

Theorem quality_filter_app p e low :
  Forall (lowq p) low -> quality_filter p (e ++ low) = quality_filter p e.
Proof.
  intros H. unfold quality_filter. rewrite filter_app.
  assert (E : filter (q_ok p) low = []).
  { induction H as [|o low Ho _ IH]; cbn [filter]; [reflexivity|]. rewrite (lowq_not_ok p o Ho). exact IH. }
  rewrite E. apply app_nil_r.
Qed.
Theorem quality_filter_insert p l1 low l2 :
  Forall (lowq p) low -> quality_filter p (l1 ++ low ++ l2) = quality_filter p (l1 ++ l2).
Proof.
  intros H. unfold quality_filter. rewrite !filter_app.
  assert (E : filter (q_ok p) low = []).
  { induction H as [|o low Ho _ IH]; cbn [filter]; [reflexivity|]. rewrite (lowq_not_ok p o Ho). exact IH. }
  rewrite E. reflexivity.
Qed.
Theorem quality_filter_only_good p l : Forall (fun o => q_ok p o = true) (quality_filter p l).
Proof. apply Forall_forall. intros o H. apply filter_In in H. apply H. Qed.

(* l' is l with sub-threshold observations inserted, removed or altered, anywhere, any number *)
Inductive obs_sim (p : fparams) : list obs -> list obs -> Prop :=
  | os_nil : obs_sim p [] []
  | os_keep o l l' : obs_sim p l l' -> obs_sim p (o :: l) (o :: l')
  | os_del o l l' : lowq p o -> obs_sim p l l' -> obs_sim p (o :: l) l'
  | os_ins o l l' : lowq p o -> obs_sim p l l' -> obs_sim p l (o :: l').

Lemma obs_sim_filter p l l' : obs_sim p l l' -> quality_filter p l = quality_filter p l'.
Proof.
  unfold quality_filter. induction 1 as [|o l l' _ IH|o l l' Ho _ IH|o l l' Ho _ IH]; cbn [filter].
  - reflexivity.
  - rewrite IH. reflexivity.
  - rewrite (lowq_not_ok p o Ho). exact IH.
  - rewrite (lowq_not_ok p o Ho). exact IH.
Qed.
Lemma obs_sim_refl p l : obs_sim p l l.
Proof. induction l; constructor; assumption. Qed.

(* the cells of one position: same ops with similar observation lists; cells holding only sub-threshold
   observations may appear or disappear anywhere *)
Inductive cells_sim (p : fparams) : list cell -> list cell -> Prop :=
  | cs_nil : cells_sim p [] []
  | cs_cell op l l' t t' : obs_sim p l l' -> cells_sim p t t' -> cells_sim p ((op, l) :: t) ((op, l') :: t')
  | cs_del op l t t' : Forall (lowq p) l -> cells_sim p t t' -> cells_sim p ((op, l) :: t) t'
  | cs_ins op l t t' : Forall (lowq p) l -> cells_sim p t t' -> cells_sim p t ((op, l) :: t').

Lemma all_low_filter p l : Forall (lowq p) l -> quality_filter p l = [].
Proof. intros H. exact (quality_filter_app p [] l H). Qed.

Lemma cells_sim_fq p t t' : cells_sim p t t' -> fq_ops p t = fq_ops p t'.
Proof.
  unfold fq_ops. induction 1 as [|op l l' t t' Ho _ IH|op l t t' Hl _ IH|op l t t' Hl _ IH]; cbn [map filter fst snd].
  - reflexivity.
  - rewrite (obs_sim_filter p l l' Ho), IH. reflexivity.
  - rewrite (all_low_filter p l Hl). cbn [nonempty_cell snd]. exact IH.
  - rewrite (all_low_filter p l Hl). cbn [nonempty_cell snd]. exact IH.
Qed.

(* whole tables: same positions with similar cells; positions all of whose cells vanish under the quality filter
   (only sub-threshold observations) may appear or disappear anywhere *)
Inductive tab_sim (p : fparams) : table -> table -> Prop :=
  | ts_nil : tab_sim p [] []
  | ts_pos pos o o' t t' : cells_sim p o o' -> tab_sim p t t' -> tab_sim p ((pos, o) :: t) ((pos, o') :: t')
  | ts_del pos o t t' : cells_sim p o [] -> tab_sim p t t' -> tab_sim p ((pos, o) :: t) t'
  | ts_ins pos o t t' : cells_sim p o [] -> tab_sim p t t' -> tab_sim p t ((pos, o) :: t').

Theorem tab_sim_fq p t t' : tab_sim p t t' -> fq_tab p t = fq_tab p t'.
Proof.
  unfold fq_tab, drop_empty.
  induction 1 as [|pos o o' t t' Ho _ IH|pos o t t' Ho _ IH|pos o t t' Ho _ IH]; cbn [map filter fst snd].
  - reflexivity.
  - rewrite (cells_sim_fq p o o' Ho), IH. reflexivity.
  - rewrite (cells_sim_fq p o [] Ho). cbn [fq_ops map filter nonempty_pos snd]. exact IH.
  - rewrite (cells_sim_fq p o [] Ho). cbn [fq_ops map filter nonempty_pos snd]. exact IH.
Qed.
Lemma tab_sim_refl p t : tab_sim p t t.
Proof.
  induction t as [|[pos o] t IH]; constructor; [|exact IH].
  induction o as [|[op l] o IHo]; constructor; [apply obs_sim_refl | exact IHo].
Qed.

(* the evidence with another per-base table; the indel table is not quality filtered by aldy and is left alone *)
Definition with_tab (c : cover) (t : table) : cover := {| cv_tab := t; cv_ind := cv_ind c |}.

Theorem filtered_q_lowq p c t' : tab_sim p (cv_tab c) t' -> filtered_q p (with_tab c t') = filtered_q p c.
Proof. intros H. unfold filtered_q, with_tab. cbn [cv_tab cv_ind]. rewrite (tab_sim_fq p _ _ H). reflexivity. Qed.
Theorem major_cov_lowq p pcn c t' : tab_sim p (cv_tab c) t' -> major_cov p pcn (with_tab c t') = major_cov p pcn c.
Proof. intros H. unfold major_cov. rewrite (filtered_q_lowq p c t' H). reflexivity. Qed.
Theorem minor_cov_lowq p pcn allowed c t' :
  tab_sim p (cv_tab c) t' -> minor_cov p pcn allowed (with_tab c t') = minor_cov p pcn allowed c.
Proof. intros H. unfold minor_cov. rewrite (filtered_q_lowq p c t' H). reflexivity. Qed.

(* ---------- what survives the filters ---------- *)
Lemma table_wf_pos t : table_wf t = true -> NoDup (map fst t).
Proof.
  unfold table_wf. intros H. apply andb_true_iff in H as [H _].
  apply (nodupb_NoDup Z.eqb); [intros a b; apply Z.eqb_eq | exact H].
Qed.
Lemma table_wf_ops t pos : table_wf t = true -> NoDup (map fst (tab_ops t pos)).
Proof.
  unfold table_wf, tab_ops. intros H. apply andb_true_iff in H as [_ H].
  destruct (alookup Z.eqb pos t) as [o|] eqn:L; [|constructor].
  apply (alookup_In Z.eqb) in L; [|intros a b; apply Z.eqb_eq].
  rewrite forallb_forall in H. specialize (H _ L). cbn [snd] in H.
  apply (nodupb_NoDup str_eqb seqb_eq). exact H.
Qed.

(* the cells of a position after a per-cell transformation and dropping of empty positions *)
Lemma tab_ops_map (g : Z -> list cell -> list cell) t pos :
  NoDup (map fst t) -> (forall q, g q [] = []) ->
  tab_ops (drop_empty (map (fun po : Z * list cell => (fst po, g (fst po) (snd po))) t)) pos = g pos (tab_ops t pos).
Proof.
  intros Hn Hg. unfold tab_ops, drop_empty.
  rewrite (alookup_map_filter Z.eqb (fun a b => Z.eqb_eq a b) g nonempty_pos pos t Hn).
  destruct (alookup Z.eqb pos t) as [o|]; [|symmetry; apply Hg].
  unfold nonempty_pos. cbn [snd]. destruct (g pos o); reflexivity.
Qed.

(* quality filter: a cell holds exactly its passing observations *)
Lemma fq_cell p t m : table_wf t = true -> tab_cell (fq_tab p t) m = quality_filter p (tab_cell t m).
Proof.
  intros W. unfold tab_cell, fq_tab.
  rewrite (tab_ops_map (fun _ => fq_ops p) t (fst m) (table_wf_pos t W)) by reflexivity.
  unfold fq_ops.
  pose proof (alookup_map_filter str_eqb seqb_eq (fun _ l => quality_filter p l) nonempty_cell (snd m) (tab_ops t (fst m))
             (table_wf_ops t (fst m) W)) as E. cbv beta in E. unfold cell in *. rewrite E. clear E.
  destruct (alookup str_eqb (snd m) (tab_ops t (fst m))) as [l|]; [|reflexivity].
  unfold nonempty_cell. cbn [snd]. destruct (quality_filter p l); reflexivity.
Qed.
Lemma fq_wf p t : table_wf t = true -> table_wf (fq_tab p t) = true.
Proof.
  intros W. unfold table_wf in *. apply andb_true_iff in W as [W1 W2].
  assert (Hsub : forall (A : Type) (eqb : A -> A -> bool) (f : A -> bool) (l : list A),
             nodupb eqb l = true -> nodupb eqb (filter f l) = true).
  { intros A eqb f l. induction l as [|x l IH]; cbn [nodupb filter]; [reflexivity|]. intros H.
    apply andb_true_iff in H as [H1 H2]. destruct (f x); cbn [nodupb]; [|apply IH; exact H2].
    rewrite (IH H2), andb_true_r. destruct (memb eqb x (filter f l)) eqn:M; [|reflexivity].
    unfold memb in *. apply existsb_exists in M as (y & Hy & E). apply filter_In in Hy as [Hy _].
    assert (existsb (eqb x) l = true) by (apply existsb_exists; exists y; split; assumption).
    rewrite H in H1. discriminate. }
  unfold fq_tab, drop_empty. apply andb_true_iff. split.
  - induction t as [|[pos o] t IH]; cbn [map filter fst snd nodupb] in *; [reflexivity|].
    apply andb_true_iff in W1 as [Wa Wb]. cbn [forallb] in W2. apply andb_true_iff in W2 as [_ W2].
    specialize (IH Wb W2).
    assert (Hm : forall l, memb Z.eqb pos (map fst l) = false ->
                           memb Z.eqb pos (map fst (filter nonempty_pos (map (fun po : Z * list cell => (fst po, fq_ops p (snd po))) l))) = false).
    { intros l. induction l as [|[q oq] l IHl]; cbn [map filter fst snd]; [reflexivity|].
      unfold memb. cbn [existsb]. intros H. apply orb_false_iff in H as [H1 H2].
      destruct (nonempty_pos (q, fq_ops p oq)); cbn [map fst existsb]; [rewrite H1; cbn [orb]|]; apply IHl; exact H2. }
    destruct (nonempty_pos (pos, fq_ops p o)); cbn [map fst nodupb]; [|exact IH].
    rewrite IH, andb_true_r. apply negb_true_iff in Wa. rewrite (Hm t Wa). reflexivity.
  - apply forallb_forall. intros [pos o] Hin. apply filter_In in Hin as [Hin _].
    apply in_map_iff in Hin as ([pos' o'] & E & Hin). cbn [fst snd] in E. injection E as <- <-.
    rewrite forallb_forall in W2. specialize (W2 _ Hin). cbn [snd] in *.
    unfold fq_ops.
    assert (Hk : forall l, nodupb str_eqb (map fst l) = true ->
                           nodupb str_eqb (map fst (filter nonempty_cell (map (fun cl : cell => (fst cl, quality_filter p (snd cl))) l))) = true).
    { intros l. induction l as [|[op lo] l IHl]; cbn [map filter fst snd nodupb]; [reflexivity|]. intros H.
      apply andb_true_iff in H as [H1 H2]. specialize (IHl H2).
      assert (Hm : forall l0, memb str_eqb op (map fst l0) = false ->
                  memb str_eqb op (map fst (filter nonempty_cell (map (fun cl : cell => (fst cl, quality_filter p (snd cl))) l0))) = false).
      { intros l0. induction l0 as [|[q oq] l0 IH0]; cbn [map filter fst snd]; [reflexivity|].
        unfold memb. cbn [existsb]. intros H0. apply orb_false_iff in H0 as [Ha Hb].
        destruct (nonempty_cell (q, quality_filter p oq)); cbn [map fst existsb]; [rewrite Ha; cbn [orb]|]; apply IH0; exact Hb. }
      destruct (nonempty_cell (op, quality_filter p lo)); cbn [map fst nodupb]; [|exact IHl].
      rewrite IHl, andb_true_r. apply negb_true_iff in H1. rewrite (Hm l H1). reflexivity. }
    apply Hk. exact W2.
Qed.

(* boolean filter: a cell or indel entry is kept whole or dropped *)
Lemma fb_cell f c m : table_wf (cv_tab c) = true ->
  tab_cell (cv_tab (filtered_b f c)) m = if f c m then tab_cell (cv_tab c) m else [].
Proof.
  intros W. unfold tab_cell, filtered_b. cbn [cv_tab].
  rewrite (tab_ops_map (fun pos ops => filter (fun cl : cell => f c (pos, fst cl)) ops) (cv_tab c) (fst m) (table_wf_pos _ W))
    by reflexivity.
  pose proof (alookup_filter_key str_eqb seqb_eq (fun op => f c (fst m, op)) (snd m) (tab_ops (cv_tab c) (fst m))) as E.
  cbv beta in E. unfold cell in *. rewrite E. clear E.
  destruct m as [pos op]. cbn [fst snd]. destruct (f c (pos, op)); reflexivity.
Qed.
Lemma fb_ind f c m : ind_get (filtered_b f c) m = if f c m then ind_get c m else None.
Proof.
  unfold ind_get, filtered_b. cbn [cv_ind].
  apply (alookup_filter_key mut_eqb mut_eqb_eq (fun k => f c k) m (cv_ind c)).
Qed.
Theorem fb_coverage f c m : table_wf (cv_tab c) = true ->
  coverage (filtered_b f c) m = if f c m then coverage c m else 0.
Proof.
  intros W. unfold coverage. rewrite fb_ind, (fb_cell f c m W). destruct (f c m); reflexivity.
Qed.

(* after the two steps of the major (and minor) stage: a variant with any coverage left passed both thresholds
   on the quality-filtered evidence, and its count is the number of qualifying observations *)
Theorem major_cov_supported p pcn c m : table_wf (cv_tab c) = true ->
  0 < coverage (major_cov p pcn c) m -> supported p pcn c m = true /\ coverage (major_cov p pcn c) m = coverage (filtered_q p c) m.
Proof.
  intros W H. unfold major_cov in *.
  assert (W' : table_wf (cv_tab (filtered_q p c)) = true) by (apply fq_wf; exact W).
  rewrite (fb_coverage _ _ m W') in *. unfold supported.
  destruct (major_filter p pcn (filtered_q p c) m); [|lia].
  split; [|reflexivity]. apply Z.ltb_lt in H. rewrite H. reflexivity.
Qed.
Theorem minor_cov_supported p pcn allowed c m : table_wf (cv_tab c) = true ->
  0 < coverage (minor_cov p pcn allowed c) m -> supported p pcn c m = true /\ coverage (minor_cov p pcn allowed c) m = coverage (filtered_q p c) m.
Proof.
  intros W H. unfold minor_cov in *.
  assert (W' : table_wf (cv_tab (filtered_q p c)) = true) by (apply fq_wf; exact W).
  rewrite (fb_coverage _ _ m W') in *. unfold supported. unfold minor_filter in *.
  destruct (negb (is_ref (snd m)) && negb (allowed m)); [lia|].
  destruct (major_filter p pcn (filtered_q p c) m); [|lia].
  split; [|reflexivity]. apply Z.ltb_lt in H. rewrite H. reflexivity.
Qed.
Theorem major_cov_le p pcn c m : table_wf (cv_tab c) = true -> 0 <= coverage (filtered_q p c) m ->
  coverage (major_cov p pcn c) m <= coverage (filtered_q p c) m.
Proof.
  intros W H. unfold major_cov. rewrite (fb_coverage _ (filtered_q p c) m (fq_wf p _ W)).
  destruct (major_filter p pcn (filtered_q p c) m); lia.
Qed.
(* no qualifying support: nothing left after the two steps *)
Theorem no_support_no_coverage p pcn c m : table_wf (cv_tab c) = true ->
  coverage (filtered_q p c) m <= 0 -> coverage (major_cov p pcn c) m <= 0.
Proof.
  intros W H. unfold major_cov. rewrite (fb_coverage _ (filtered_q p c) m (fq_wf p _ W)).
  destruct (major_filter p pcn (filtered_q p c) m); lia.
Qed.

(* the count after the quality filter is the number of observations meeting both thresholds
   (for a variant outside the indel table, whose counts come from the realigner) *)
Theorem filtered_q_count p c m : table_wf (cv_tab c) = true -> ind_get c m = None ->
  coverage (filtered_q p c) m = Z.of_nat (length (quality_filter p (tab_cell (cv_tab c) m))).
Proof.
  intros W Hi. unfold coverage. unfold ind_get, filtered_q in *. cbn [cv_ind cv_tab]. rewrite Hi.
  rewrite (fq_cell p _ m W). reflexivity.
Qed.

(* what [supported] says, in numbers *)
Definition cn_or1 (cn : Q) : Q := if Qeqb cn 0 then 1%Q else cn.
Lemma Qmax'_le a b x : (Qmax' a b <= x)%Q -> (a <= x /\ b <= x)%Q.
Proof.
  unfold Qmax'. destruct (Qle_bool a b) eqn:E; intros H.
  - apply Qle_bool_iff in E. split; [eapply Qle_trans; eassumption | exact H].
  - split; [exact H|]. assert (~ (a <= b)%Q) by (intros Hle; apply Qle_bool_iff in Hle; rewrite Hle in E; discriminate).
    apply Qnot_le_lt in H0. apply Qlt_le_weak. eapply Qlt_le_trans; eassumption.
Qed.
Lemma basic_filter_spec p c m cn : basic_filter p c m cn = true ->
  (p_min_coverage p <= inZ (coverage c m))%Q /\ (inZ (total c m) * (p_threshold p / cn_or1 cn) <= inZ (coverage c m))%Q.
Proof.
  unfold basic_filter, Qleb, cn_or1. intros H. apply Qle_bool_iff in H. apply Qmax'_le in H. exact H.
Qed.
Theorem supported_spec p pcn c m : supported p pcn c m = true ->
  let q := filtered_q p c in
  0 < coverage q m /\
  (p_min_coverage p <= inZ (coverage q m))%Q /\
  (inZ (total q m) * (p_threshold p / cn_or1 (p_cn_max p)) <= inZ (coverage q m))%Q /\
  (is_ref (snd m) = false -> (inZ (total q m) * (p_threshold p / cn_or1 (pcn (fst m) + (1 # 2))) <= inZ (coverage q m))%Q).
Proof.
  unfold supported, major_filter. cbv zeta. intros H.
  apply andb_true_iff in H as [H1 H2]. apply andb_true_iff in H2 as [H2 H3].
  apply Z.ltb_lt in H1. apply basic_filter_spec in H2 as [Ha Hb].
  repeat split; try assumption. intros Hr. rewrite Hr in H3. apply basic_filter_spec in H3 as [_ Hc]. exact Hc.
Qed.
