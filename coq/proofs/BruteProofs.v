(* BruteProofs.v — the reference solver Brute satisfies the solver contract of EnumProofs.v on its syntactic class:

     brute_sound       (no side condition)  an Optimal answer is a feasible point and carries its own objective
     brute_optimal     (shaped m)           ... and no feasible point has a smaller objective
     brute_infeasible  (shaped m)           an Infeasible answer means there is no feasible point at all
     shaped_with_cuts                       the class is closed under the exclusion cuts of Enum.sols
     brute_contract                         hence [solver_ok] on every model the loop can reach, for any tie-break,
   and therefore every Enum theorem holds unconditionally for Brute on shaped models (brute_enum_* at the end).

   Key step (candidate_dominates): for a feasible point [a] of a shaped model, the completion of the 0/1 pattern of [a]
   agrees with [a] on binaries and error terms (the defining equality forces the value), puts each helper at |e| <= a(h)
   (the two abssum rows), hence is feasible and has an objective no larger than that of [a]. *)
From Coq Require Import QArith Qabs Lqa Lia List Bool Arith.
From Aldy Require Import Base Consts Lp Enum Brute LpProofs EnumProofs.
Import ListNotations.
Open Scope Q_scope.

(* ---------------------------------------------------------------- association lists *)
Lemma knodup_NoDup : forall l, knodup l = true -> NoDup l.
Proof.
  induction l as [|x t IH]; intro H; [constructor|]. cbn [knodup] in H. apply andb_true_iff in H. destruct H as [H1 H2].
  constructor; [|apply IH; exact H2]. intro Hin. apply kmem_In in Hin. rewrite Hin in H1. discriminate.
Qed.

Lemma alookup_Some_In : forall (V : Type) k (l : list (vkey * V)) v, alookup vkey_eqb k l = Some v -> In (k, v) l.
Proof.
  intros V k l v. induction l as [|[k' v'] t IH]; cbn [alookup]; intro H; [discriminate|].
  destruct (vkey_eqb k k') eqn:E.
  - apply vkey_eqb_eq in E. injection H as <-. subst. left. reflexivity.
  - right. apply IH. exact H.
Qed.

Lemma alookup_In : forall (V : Type) k (l : list (vkey * V)) v, NoDup (map fst l) -> In (k, v) l -> alookup vkey_eqb k l = Some v.
Proof.
  intros V k l v. induction l as [|[k' v'] t IH]; cbn [alookup map fst]; intros Hnd Hin; [destruct Hin|].
  inversion Hnd as [|? ? Hnot Hnd']; subst. destruct Hin as [E|Hin].
  - injection E as -> ->. rewrite vkey_eqb_refl. reflexivity.
  - destruct (vkey_eqb k k') eqn:E.
    + apply vkey_eqb_eq in E. subst. exfalso. apply Hnot. apply (in_map fst) in Hin. exact Hin.
    + apply IH; assumption.
Qed.

Lemma alookup_None_notin : forall (V : Type) k (l : list (vkey * V)), ~ In k (map fst l) -> alookup vkey_eqb k l = None.
Proof.
  intros V k l. induction l as [|[k' v'] t IH]; cbn [alookup map fst]; intro H; [reflexivity|].
  destruct (vkey_eqb k k') eqn:E.
  - apply vkey_eqb_eq in E. subst. exfalso. apply H. left. reflexivity.
  - apply IH. intro Hin. apply H. right. exact Hin.
Qed.

Lemma alookup_app : forall (V : Type) k (l1 l2 : list (vkey * V)),
  alookup vkey_eqb k (l1 ++ l2) = match alookup vkey_eqb k l1 with Some v => Some v | None => alookup vkey_eqb k l2 end.
Proof.
  intros V k l1 l2. induction l1 as [|[k' v'] t IH]; cbn [alookup app]; [reflexivity|].
  destruct (vkey_eqb k k'); [reflexivity | exact IH].
Qed.

(* a table keyed by the elements of a list *)
Lemma alookup_tab_in : forall (V : Type) (g : vkey -> V) k l, In k l -> alookup vkey_eqb k (map (fun x => (x, g x)) l) = Some (g k).
Proof.
  intros V g k l. induction l as [|x t IH]; cbn [alookup map]; intro H; [destruct H|].
  destruct (vkey_eqb k x) eqn:E.
  - apply vkey_eqb_eq in E. subst. reflexivity.
  - destruct H as [H|H]; [subst; rewrite vkey_eqb_refl in E; discriminate | apply IH; exact H].
Qed.
Lemma alookup_tab_notin : forall (V : Type) (g : vkey -> V) k l, ~ In k l -> alookup vkey_eqb k (map (fun x => (x, g x)) l) = None.
Proof.
  intros V g k l H. apply alookup_None_notin. rewrite map_map. cbn [fst]. rewrite map_id. exact H.
Qed.

(* ---------------------------------------------------------------- isolating a variable *)
Lemma eval_split : forall a v l, eval_lin a l == coef_of v l * a v + eval_lin a (drop_var v l).
Proof.
  intros a v l. induction l as [|[c w] t IH]; cbn [eval_lin coef_of drop_var filter snd]; [lra|].
  destruct (vkey_eqb v w) eqn:E; cbn [negb].
  - apply vkey_eqb_eq in E. subst w. fold (drop_var v t). rewrite IH. lra.
  - cbn [eval_lin]. fold (drop_var v t). rewrite IH. lra.
Qed.

(* ---------------------------------------------------------------- classification *)
Section Class.
  Variable m : lp.
  Hypothesis Hnd : NoDup (map fst (lp_vars m)).

  Lemma kind_of_In : forall v k, kind_of m v = Some k <-> In (v, k) (lp_vars m).
  Proof. intros v k. unfold kind_of. split; [apply alookup_Some_In | apply alookup_In; exact Hnd]. Qed.

  Lemma is_binv_binaries : forall v, is_binv m v = true <-> In v (binaries m).
  Proof.
    intro v. rewrite binaries_in, <- kind_of_In. unfold is_binv, vclass_of.
    destruct (kind_of m v) as [[|lb ub|lb ub]|]; split; intro H; try discriminate; try reflexivity.
    destruct (is_help_key v); discriminate.
  Qed.

  Lemma is_errv_inv : forall e, is_errv m e = true -> exists lb ub, In (e, KCont lb ub) (lp_vars m) /\ is_help_key e = false.
  Proof.
    intros e H. unfold is_errv, vclass_of in H. destruct (kind_of m e) as [[|lb ub|lb ub]|] eqn:K; try discriminate.
    destruct (is_help_key e) eqn:Hk; [discriminate|]. exists lb, ub. split; [apply kind_of_In; exact K | reflexivity].
  Qed.
  Lemma is_helpv_inv : forall h, is_helpv m h = true -> exists lb ub, In (h, KCont lb ub) (lp_vars m) /\ is_help_key h = true.
  Proof.
    intros h H. unfold is_helpv, vclass_of in H. destruct (kind_of m h) as [[|lb ub|lb ub]|] eqn:K; try discriminate.
    destruct (is_help_key h) eqn:Hk; [|discriminate]. exists lb, ub. split; [apply kind_of_In; exact K | reflexivity].
  Qed.

  Lemma err_vars_iff : forall e, In e (err_vars m) <-> is_errv m e = true.
  Proof.
    intro e. unfold err_vars. rewrite filter_In. split; [tauto|]. intro H. split; [|exact H].
    destruct (is_errv_inv e H) as (lb & ub & Hin & _). apply (in_map fst) in Hin. exact Hin.
  Qed.
  Lemma help_vars_iff : forall h, In h (help_vars m) <-> is_helpv m h = true.
  Proof.
    intro h. unfold help_vars. rewrite filter_In. split; [tauto|]. intro H. split; [|exact H].
    destruct (is_helpv_inv h H) as (lb & ub & Hin & _). apply (in_map fst) in Hin. exact Hin.
  Qed.

  Lemma class_disjoint : forall v,
    (is_binv m v = true -> is_errv m v = false /\ is_helpv m v = false) /\
    (is_errv m v = true -> is_binv m v = false /\ is_helpv m v = false) /\
    (is_helpv m v = true -> is_binv m v = false /\ is_errv m v = false).
  Proof. intro v. unfold is_binv, is_errv, is_helpv. destruct (vclass_of m v) as [[| |]|]; repeat split; intros; try reflexivity; discriminate. Qed.
End Class.

Lemma errv_not_binv : forall m v, is_errv m v = true -> is_binv m v = false.
Proof. intros m v. unfold is_errv, is_binv. destruct (vclass_of m v) as [[| |]|]; intro; try reflexivity; discriminate. Qed.
Lemma helpv_not_binv : forall m v, is_helpv m v = true -> is_binv m v = false.
Proof. intros m v. unfold is_helpv, is_binv. destruct (vclass_of m v) as [[| |]|]; intro; try reflexivity; discriminate. Qed.
Lemma helpv_not_errv : forall m v, is_helpv m v = true -> is_errv m v = false.
Proof. intros m v. unfold is_helpv, is_errv. destruct (vclass_of m v) as [[| |]|]; intro; try reflexivity; discriminate. Qed.

Lemma help_key_shape : forall h, is_help_key h = true -> h = abs_key (tl h).
Proof. intros [|x t] H; [discriminate|]. cbn [is_help_key] in H. apply Z.eqb_eq in H. subst. reflexivity. Qed.

(* ---------------------------------------------------------------- the 0/1 pattern of a point *)
Definition bits (a : asg) (vs : list vkey) : point := map (fun v => (v, if Qeqb (a v) 1 then 1 else 0)) vs.

Lemma bits_in_all_bin : forall a vs, In (bits a vs) (all_bin vs).
Proof.
  intros a vs. induction vs as [|v t IH]; [left; reflexivity|]. cbn [bits map all_bin]. apply in_or_app.
  destruct (Qeqb (a v) 1); [right | left]; apply in_map; exact IH.
Qed.

Lemma bits_value : forall a vs v, In v vs -> is_bin (a v) -> asg_of (bits a vs) v == a v.
Proof.
  intros a vs v Hin Hb. unfold asg_of, bits. rewrite (alookup_tab_in Q (fun v => if Qeqb (a v) 1 then 1 else 0) v vs Hin).
  destruct (Qeqb (a v) 1) eqn:E; [apply Qeqb_eq in E; lra|]. apply Qeqb_neq in E. destruct Hb as [Hb|Hb]; [lra | contradiction].
Qed.

(* ---------------------------------------------------------------- the completion dominates *)
Section Dominate.
  Variable m : lp.
  Hypothesis Hshape : shaped m = true.
  Variable a : asg.
  Hypothesis Hfeas : feasible m a.

  Lemma shape_parts : NoDup (map fst (lp_vars m)) /\ forallb (var_ok m) (lp_vars m) = true /\
                      forallb (row_ok m) (lp_rows m) = true /\ obj_ok m = true.
  Proof.
    pose proof Hshape as H0. unfold shaped in H0. apply andb_true_iff in H0. destruct H0 as [H123 H4].
    apply andb_true_iff in H123. destruct H123 as [H12 H3]. apply andb_true_iff in H12. destruct H12 as [H1 H2].
    split; [apply knodup_NoDup; exact H1 | auto].
  Qed.

  Lemma Hnd : NoDup (map fst (lp_vars m)).
  Proof. exact (proj1 shape_parts). Qed.
  Let b : point := bits a (binaries m).
  Let es : point := map (fun d => (d_var d, def_value b d)) (plan m).
  Let be : point := b ++ es.
  Let c : point := complete (plan m) (help_vars m) b.
  Let a' : asg := asg_of c.

  Lemma d_var_def_of : forall e, d_var (def_of m e) = e.
  Proof. intro e. unfold def_of. destruct (find (is_def_row m e) (lp_rows m)); reflexivity. Qed.

  Lemma es_table : es = map (fun e => (e, def_value b (def_of m e))) (err_vars m).
  Proof.
    unfold es, plan. rewrite map_map. apply map_ext. intro e. rewrite d_var_def_of. reflexivity.
  Qed.

  Lemma rows_sat : forall r, In r (lp_rows m) -> sat_row a r.
  Proof. destruct Hfeas as [_ Hr]. rewrite Forall_forall in Hr. exact Hr. Qed.
  Lemma kinds_sat : forall k kd, In (k, kd) (lp_vars m) -> in_kind kd (a k).
  Proof. destruct Hfeas as [Hk _]. rewrite Forall_forall in Hk. intros k kd H. exact (Hk _ H). Qed.

  (* F1: binaries *)
  Lemma b_bin : forall v, is_binv m v = true -> asg_of b v == a v.
  Proof.
    intros v Hv. apply (is_binv_binaries m Hnd) in Hv. apply bits_value; [exact Hv|]. apply (feasible_bin m a v Hfeas Hv).
  Qed.
  Lemma b_lookup_bin : forall v, is_binv m v = true -> alookup vkey_eqb v b = Some (if Qeqb (a v) 1 then 1 else 0).
  Proof.
    intros v Hv. apply (is_binv_binaries m Hnd) in Hv. unfold b, bits.
    exact (alookup_tab_in Q (fun v => if Qeqb (a v) 1 then 1 else 0) v _ Hv).
  Qed.
  Lemma b_lookup_other : forall v, is_binv m v = false -> alookup vkey_eqb v b = None.
  Proof.
    intros v Hv. unfold b, bits. apply alookup_tab_notin. intro Hin. apply (is_binv_binaries m Hnd) in Hin. congruence.
  Qed.

  (* the defining equality forces the value *)
  Lemma var_ok_of : forall k kd, In (k, kd) (lp_vars m) -> var_ok m (k, kd) = true.
  Proof. intros k kd H. pose proof shape_parts as (_ & Hv & _). rewrite forallb_forall in Hv. exact (Hv _ H). Qed.

  Lemma def_value_forced : forall e, is_errv m e = true -> def_value b (def_of m e) == a e.
  Proof.
    intros e He. destruct (is_errv_inv m Hnd e He) as (lb & ub & Hin & Hk).
    pose proof (var_ok_of _ _ Hin) as Hv. unfold var_ok in Hv. cbn [fst snd] in Hv. rewrite Hk in Hv.
    apply existsb_exists in Hv. destruct Hv as [r0 [Hr0 Hd0]].
    unfold def_of. destruct (find (is_def_row m e) (lp_rows m)) as [r|] eqn:Hfind.
    2:{ exfalso. pose proof (find_none _ _ Hfind r0 Hr0). congruence. }
    apply find_some in Hfind. destruct Hfind as [Hr Hd]. unfold is_def_row in Hd.
    apply andb_true_iff in Hd. destruct Hd as [Hd Hbins]. apply andb_true_iff in Hd. destruct Hd as [Heq Hcoef].
    apply negb_true_iff in Hcoef. apply Qeqb_neq in Hcoef.
    pose proof (rows_sat r Hr) as Hs. unfold sat_row in Hs. destruct (r_rel r); try discriminate.
    rewrite (eval_split a e (r_lin r)) in Hs.
    unfold def_value. cbn [d_rhs d_rest d_coef]. rewrite Qred_correct.
    assert (Hrest : eval_lin (asg_of b) (drop_var e (r_lin r)) == eval_lin a (drop_var e (r_lin r))).
    { apply eval_lin_ext. intros v Hv. unfold lin_vars in Hv. apply in_map_iff in Hv. destruct Hv as [cw [<- Hcw]].
      rewrite forallb_forall in Hbins. apply b_bin. exact (Hbins cw Hcw). }
    rewrite Hrest.
    set (R := eval_lin a (drop_var e (r_lin r))) in *. set (co := coef_of e (r_lin r)) in *. clearbody R co.
    assert (E : r_rhs r - R == a e * co) by lra. rewrite E. apply Qdiv_mult_l. exact Hcoef.
  Qed.

  Lemma be_err : forall e, is_errv m e = true -> asg_of be e == a e.
  Proof.
    intros e He. unfold asg_of, be. rewrite alookup_app.
    rewrite b_lookup_other by (apply errv_not_binv; exact He).
    rewrite es_table. rewrite (alookup_tab_in Q (fun e => def_value b (def_of m e)) e (err_vars m)) by (apply (err_vars_iff m Hnd); exact He).
    apply def_value_forced. exact He.
  Qed.

  Lemma c_split : c = be ++ map (fun h : vkey => (h, Qabs' (asg_of be (tl h)))) (help_vars m).
  Proof. reflexivity. Qed.

  Lemma be_lookup_help : forall h, is_helpv m h = true -> alookup vkey_eqb h be = None.
  Proof.
    intros h Hh. unfold be. rewrite alookup_app. rewrite b_lookup_other by (apply helpv_not_binv; exact Hh).
    rewrite es_table. apply alookup_tab_notin. intro Hin. apply (err_vars_iff m Hnd) in Hin.
    pose proof (helpv_not_errv m h Hh). congruence.
  Qed.

  (* F1, F2 on the completed point *)
  Lemma a'_bin : forall v, is_binv m v = true -> a' v == a v.
  Proof.
    intros v Hv. unfold a', asg_of. rewrite c_split. unfold be at 1. rewrite !alookup_app, (b_lookup_bin v Hv).
    pose proof (b_bin v Hv) as H. unfold asg_of in H. rewrite (b_lookup_bin v Hv) in H. exact H.
  Qed.
  Lemma a'_err : forall e, is_errv m e = true -> a' e == a e.
  Proof.
    intros e He. pose proof (be_err e He) as H. unfold a', asg_of in *. rewrite c_split, alookup_app.
    destruct (alookup vkey_eqb e be) as [q|] eqn:L; [exact H|].
    (* e is in the table of error terms, so the lookup cannot fail *)
    exfalso. unfold be in L. rewrite alookup_app in L. rewrite b_lookup_other in L by (apply errv_not_binv; exact He).
    rewrite es_table in L. rewrite (alookup_tab_in Q (fun e => def_value b (def_of m e)) e (err_vars m)) in L by (apply (err_vars_iff m Hnd); exact He).
    discriminate.
  Qed.

  (* F3: helpers *)
  Lemma help_facts : forall h, is_helpv m h = true ->
    is_errv m (tl h) = true /\ h = abs_key (tl h) /\ a' h == Qabs (a (tl h)) /\ Qabs (a (tl h)) <= a h /\
    exists lb, In (h, KCont lb None) (lp_vars m) /\ match lb with Some l => l <= 0 | None => True end.
  Proof.
    intros h Hh. destruct (is_helpv_inv m Hnd h Hh) as (lb & ub & Hin & Hk).
    pose proof (var_ok_of _ _ Hin) as Hv. unfold var_ok in Hv. cbn [fst snd] in Hv. rewrite Hk in Hv.
    repeat (apply andb_true_iff in Hv; let H := fresh "Hv" in destruct Hv as [Hv H]).
    rename Hv0 into Hneg, Hv1 into Hpos, Hv2 into Herr, Hv3 into Hub.
    pose proof (help_key_shape h Hk) as Hshape_h.
    split; [exact Herr|]. split; [exact Hshape_h|]. split; [|split].
    - unfold a', asg_of. rewrite c_split, alookup_app, (be_lookup_help h Hh).
      pose proof (alookup_tab_in Q (fun h : vkey => Qabs' (asg_of be (tl h))) h (help_vars m) (proj2 (help_vars_iff m Hnd h) Hh)) as L.
      cbv beta in L. rewrite L. rewrite Qabs'_Qabs. apply Qabs_wd. apply be_err. exact Herr.
    - (* both abssum rows are present and [a] satisfies them *)
      apply existsb_exists in Hpos. destruct Hpos as [r1 [Hr1 Ha1]]. apply existsb_exists in Hneg. destruct Hneg as [r2 [Hr2 Ha2]].
      pose proof (rows_sat r1 Hr1) as S1. pose proof (rows_sat r2 Hr2) as S2.
      unfold is_abs_row in Ha1, Ha2. unfold sat_row in S1, S2.
      destruct (r_lin r1) as [|[c1 h1] [|[c2 e1] [|]]]; try discriminate.
      destruct (r_lin r2) as [|[d1 h2] [|[d2 e2] [|]]]; try discriminate.
      repeat (apply andb_true_iff in Ha1; let H := fresh "A" in destruct Ha1 as [Ha1 H]).
      repeat (apply andb_true_iff in Ha2; let H := fresh "B" in destruct Ha2 as [Ha2 H]).
      apply vkey_eqb_eq in Ha1, Ha2, A3, B3. apply Qeqb_eq in A, A1, A2, B, B1, B2.
      destruct (r_rel r1); try discriminate. destruct (r_rel r2); try discriminate.
      cbn [eval_lin] in S1, S2. subst h1 h2 e1 e2. rewrite <- Hshape_h in S1, S2.
      apply Qabs_bounds. rewrite A, A1, A2 in S1. rewrite B, B1, B2 in S2. split; lra.
    - destruct ub; [discriminate|]. exists lb. split; [exact Hin|]. destruct lb; [apply Qleb_le; exact Hv | exact I].
  Qed.

  (* the completed point is feasible ... *)
  Lemma completion_feasible : feasible m a'.
  Proof.
    pose proof shape_parts as (_ & _ & Hrows & _). split.
    - apply Forall_forall. intros [k kd] Hin. cbn [fst snd]. pose proof (kinds_sat k kd Hin) as Hk.
      pose proof (var_ok_of k kd Hin) as Hv. pose proof (proj2 (kind_of_In m Hnd k kd) Hin) as Hkind.
      destruct kd as [|lb ub|lb ub].
      + apply (in_kind_ext _ (a k)); [|exact Hk]. symmetry. apply a'_bin. unfold is_binv, vclass_of. rewrite Hkind. reflexivity.
      + discriminate.
      + destruct (is_help_key k) eqn:Hhk.
        * assert (Hh : is_helpv m k = true) by (unfold is_helpv, vclass_of; rewrite Hkind, Hhk; reflexivity).
          destruct (help_facts k Hh) as (_ & _ & Hval & _ & lb' & Hin' & Hlb).
          assert (E : KCont lb ub = KCont lb' None).
          { apply (proj2 (kind_of_In m Hnd k _)) in Hin'. rewrite Hkind in Hin'. injection Hin' as -> ->. reflexivity. }
          injection E as -> ->. cbn [in_kind]. split; [|exact I].
          pose proof (Qabs_nonneg (a (tl k))). destruct lb'; [rewrite Hval; lra | exact I].
        * apply (in_kind_ext _ (a k)); [|exact Hk]. symmetry. apply a'_err. unfold is_errv, vclass_of. rewrite Hkind, Hhk. reflexivity.
    - apply Forall_forall. intros r Hr. pose proof (rows_sat r Hr) as Hs.
      rewrite forallb_forall in Hrows. specialize (Hrows r Hr). unfold row_ok in Hrows. apply orb_true_iff in Hrows.
      destruct Hrows as [Hp|Hab].
      + apply (sat_row_ext a); [|exact Hs]. intros v Hv. unfold lin_vars in Hv. apply in_map_iff in Hv. destruct Hv as [cw [<- Hcw]].
        unfold row_plain in Hp. rewrite forallb_forall in Hp. specialize (Hp cw Hcw). apply orb_true_iff in Hp.
        symmetry. destruct Hp; [apply a'_bin | apply a'_err]; assumption.
      + unfold is_some_abs_row in Hab. unfold sat_row.
        destruct (r_lin r) as [|[c1 h] [|[c2 e] [|]]] eqn:Hl; try discriminate.
        apply andb_true_iff in Hab. destruct Hab as [Hab Hsgn]. apply andb_true_iff in Hab. destruct Hab as [He Hh].
        destruct (help_facts _ Hh) as (_ & _ & Hval & _). cbn [abs_key tl] in Hval.
        pose proof (a'_err e He) as Hev.
        pose proof (Qle_Qabs (a e)) as Q1. assert (Q2 : - a e <= Qabs (a e)) by (rewrite <- Qabs_opp; apply Qle_Qabs).
        apply orb_true_iff in Hsgn. unfold is_abs_row in Hsgn. rewrite Hl in Hsgn.
        destruct Hsgn as [Hsgn|Hsgn];
          repeat (apply andb_true_iff in Hsgn; let H := fresh "A" in destruct Hsgn as [Hsgn H]);
          apply vkey_eqb_eq in Hsgn; apply Qeqb_eq in A, A1, A2; destruct (r_rel r); try discriminate;
          cbn [eval_lin]; subst h; rewrite A, A1, A2, Hval, Hev; set (x := Qabs (a e)) in *; clearbody x; lra.
  Qed.

  (* ... and its objective is no larger *)
  Lemma completion_objective : objective m a' <= objective m a.
  Proof.
    pose proof shape_parts as (_ & _ & _ & Hobj). unfold objective, obj_ok in *.
    assert (G : forall l, forallb (fun cw => is_binv m (snd cw) || is_errv m (snd cw) || (is_helpv m (snd cw) && Qleb 0 (fst cw))) l = true ->
                eval_lin a' l <= eval_lin a l).
    { induction l as [|[co v] t IH]; cbn [eval_lin]; intro Hl; [lra|].
      cbn [forallb] in Hl. apply andb_true_iff in Hl. destruct Hl as [Hv Ht]. specialize (IH Ht). cbn [fst snd] in Hv.
      apply orb_true_iff in Hv. destruct Hv as [Hv|Hv].
      - apply orb_true_iff in Hv. assert (E : a' v == a v) by (destruct Hv; [apply a'_bin | apply a'_err]; assumption).
        rewrite E. lra.
      - apply andb_true_iff in Hv. destruct Hv as [Hh Hc]. apply Qleb_le in Hc.
        destruct (help_facts v Hh) as (_ & _ & Hval & Hle & _). rewrite Hval.
        set (x := Qabs (a (tl v))) in *. clearbody x. nra. }
    specialize (G _ Hobj). lra.
  Qed.

  Lemma no_int_kinds : forall kv, In kv (lp_vars m) -> match snd kv with KInt _ _ => False | _ => True end.
  Proof.
    intros [k kd] H. pose proof (var_ok_of k kd H) as Hv. cbn [snd]. destruct kd; try exact I. discriminate.
  Qed.

  Theorem candidate_dominates : exists c0, In c0 (candidates m) /\ objective m (asg_of c0) <= objective m a.
  Proof.
    exists c. split; [|exact completion_objective]. unfold candidates. apply filter_In. split.
    - unfold c. apply in_map. apply bits_in_all_bin.
    - pose proof completion_feasible as [Hk Hr]. unfold feasibleb. apply andb_true_iff. split; apply forallb_forall.
      + intros kv Hin. rewrite Forall_forall in Hk. apply in_kindb_complete; [exact (no_int_kinds kv Hin) | exact (Hk kv Hin)].
      + intros r Hin. rewrite Forall_forall in Hr. apply sat_rowb_iff. exact (Hr r Hin).
  Qed.
End Dominate.

(* ---------------------------------------------------------------- choosing a minimum *)
Lemma min_score_nil : forall l, min_score l = None -> l = [].
Proof. intros [|qc t]; [reflexivity|]. cbn [min_score]. destruct (min_score t); discriminate. Qed.

Lemma min_score_spec : forall l q, min_score l = Some q ->
  (exists qc, In qc l /\ fst qc = q) /\ forall qc, In qc l -> q <= fst qc.
Proof.
  induction l as [|x t IH]; intros q H; [discriminate|]. cbn [min_score] in H.
  destruct (min_score t) as [q'|] eqn:E.
  - injection H as <-. destruct (IH q' eq_refl) as [[qc [Hin Hq]] Hle]. split.
    + destruct (Qmin'_cases (fst x) q') as [-> | ->]; [exists x; split; [left|]; reflexivity | exists qc; split; [right; exact Hin | exact Hq]].
    + intros y [<-|Hy]; [apply Qmin'_le_l|]. specialize (Hle y Hy). pose proof (Qmin'_le_r (fst x) q'). lra.
  - injection H as <-. apply min_score_nil in E. subst t. split; [exists x; split; [left|]; reflexivity|].
    intros y [<-|[]]. lra.
Qed.

Lemma pick_spec : forall pref l x, pick pref l = Some x -> In x l /\ forall qc, In qc l -> fst x <= fst qc.
Proof.
  intros pref l x H. unfold pick in H. destruct (min_score l) as [q|] eqn:E; [|discriminate].
  destruct (min_score_spec l q E) as [_ Hle].
  assert (Hx : In x (filter (fun qc => Qeqb (fst qc) q) l)).
  { destruct (find (fun qc => pref (snd qc)) _) as [y|] eqn:F.
    - injection H as <-. apply find_some in F. exact (proj1 F).
    - destruct (filter (fun qc => Qeqb (fst qc) q) l) as [|y t]; [discriminate|]. injection H as <-. left. reflexivity. }
  apply filter_In in Hx. destruct Hx as [Hin Hq]. apply Qeqb_eq in Hq. split; [exact Hin|].
  intros qc Hqc. rewrite Hq. apply Hle. exact Hqc.
Qed.

Lemma pick_none : forall pref l, pick pref l = None -> l = [].
Proof.
  intros pref l H. unfold pick in H. destruct (min_score l) as [q|] eqn:E; [|apply min_score_nil; exact E].
  exfalso. destruct (min_score_spec l q E) as [[qc [Hin Hq]] _].
  assert (Hx : In qc (filter (fun qc => Qeqb (fst qc) q) l)) by (apply filter_In; split; [exact Hin | apply Qeqb_eq; rewrite Hq; reflexivity]).
  destruct (find (fun qc => pref (snd qc)) _); [discriminate|].
  destruct (filter (fun qc => Qeqb (fst qc) q) l); [destruct Hx | discriminate].
Qed.

(* ---------------------------------------------------------------- the contract for Brute *)
Theorem brute_sound : forall pref m o p, solve_pref pref m = Optimal o p ->
  feasible m (asg_of p) /\ o == objective m (asg_of p).
Proof.
  intros pref m o p H. unfold solve_pref in H. destruct (pick pref (scored m)) as [[o' p']|] eqn:E; [|discriminate].
  cbn [fst snd] in H. injection H as -> ->. apply pick_spec in E. destruct E as [Hin _].
  unfold scored in Hin. apply in_map_iff in Hin. destruct Hin as [c0 [Ec Hc]]. injection Ec as <- <-.
  unfold candidates in Hc. apply filter_In in Hc. destruct Hc as [_ Hf]. split; [apply feasibleb_sound; exact Hf | reflexivity].
Qed.

Theorem brute_optimal : forall pref m o p, shaped m = true -> solve_pref pref m = Optimal o p ->
  forall a, feasible m a -> o <= objective m a.
Proof.
  intros pref m o p Hs H a Ha. unfold solve_pref in H. destruct (pick pref (scored m)) as [[o' p']|] eqn:E; [|discriminate].
  cbn [fst snd] in H. injection H as -> ->. apply pick_spec in E. destruct E as [_ Hle].
  destruct (candidate_dominates m Hs a Ha) as [c0 [Hc Ho]].
  specialize (Hle (objective m (asg_of c0), c0)). cbn [fst] in Hle.
  assert (In (objective m (asg_of c0), c0) (scored m)) by (unfold scored; apply (in_map (fun c => (objective m (asg_of c), c))); exact Hc).
  specialize (Hle H). lra.
Qed.

Theorem brute_infeasible : forall pref m, shaped m = true -> solve_pref pref m = Infeasible -> forall a, ~ feasible m a.
Proof.
  intros pref m Hs H a Ha. unfold solve_pref in H. destruct (pick pref (scored m)) as [qc|] eqn:E; [discriminate|].
  apply pick_none in E. destruct (candidate_dominates m Hs a Ha) as [c0 [Hc _]].
  unfold scored in E. apply map_eq_nil in E. rewrite E in Hc. destruct Hc.
Qed.

Theorem brute_answers : forall pref m, solve_pref pref m <> NotOptimal.
Proof. intros pref m. unfold solve_pref. destruct (pick pref (scored m)); discriminate. Qed.

(* ---------------------------------------------------------------- closure of the class under exclusion cuts *)
Lemma shaped_add_rows : forall m rs, shaped m = true -> forallb (row_plain m) rs = true -> shaped (add_rows m rs) = true.
Proof.
  intros m rs H Hrs. unfold shaped in *.
  repeat (apply andb_true_iff in H; let G := fresh "G" in destruct H as [H G]).
  repeat (apply andb_true_iff; split).
  - exact H.
  - apply forallb_forall. intros [k kd] Hin. rewrite forallb_forall in G1. specialize (G1 _ Hin).
    unfold var_ok in *. cbn [fst snd] in *. destruct kd as [|lb ub|lb ub]; try exact G1.
    change (lp_rows (add_rows m rs)) with (lp_rows m ++ rs). rewrite !existsb_app.
    change (is_errv (add_rows m rs)) with (is_errv m). change (is_def_row (add_rows m rs)) with (is_def_row m).
    change (is_abs_row (add_rows m rs)) with (is_abs_row m).
    destruct (is_help_key k).
    + repeat (apply andb_true_iff in G1; let G' := fresh "K" in destruct G1 as [G1 G']).
      rewrite G1, K, K0, K1, K2. reflexivity.
    + rewrite G1. reflexivity.
  - change (lp_rows (add_rows m rs)) with (lp_rows m ++ rs). rewrite forallb_app. apply andb_true_iff. split.
    + exact G0.
    + apply forallb_forall. intros r Hr. rewrite forallb_forall in Hrs. specialize (Hrs r Hr).
      unfold row_ok. change (row_plain (add_rows m rs) r) with (row_plain m r). rewrite Hrs. reflexivity.
  - exact G.
Qed.

Lemma cut_row_plain : forall m c, shaped m = true -> incl c (binaries m) -> row_plain m (cut_row c) = true.
Proof.
  intros m c Hs Hi. unfold row_plain, cut_row. cbn [r_lin]. apply forallb_forall. intros cw Hcw.
  apply in_map_iff in Hcw. destruct Hcw as [v [<- Hv]]. cbn [snd]. apply orb_true_iff. left.
  apply is_binv_binaries; [apply (shape_parts m Hs) | apply Hi; exact Hv].
Qed.

Theorem shaped_with_cuts : forall m cuts, shaped m = true -> cuts_ok m cuts -> shaped (with_cuts m cuts) = true.
Proof.
  intros m cuts Hs Hc. unfold with_cuts. apply shaped_add_rows; [exact Hs|]. apply forallb_forall. intros r Hr.
  apply in_map_iff in Hr. destruct Hr as [c [<- Hin]]. apply in_rev in Hin. apply cut_row_plain; [exact Hs|].
  apply (cuts_ok_incl m cuts c Hc Hin).
Qed.

(* the solver contract, on every model Enum.sols can reach from a shaped model, whatever the tie-break at each iteration *)
Theorem brute_contract : forall (prefs : Z -> point -> bool) m, shaped m = true ->
  forall cuts, cuts_ok m cuts -> solver_ok (fun it => solve_pref (prefs it)) (with_cuts m cuts).
Proof.
  intros prefs m Hs cuts Hc it. pose proof (shaped_with_cuts m cuts Hs Hc) as Hs'. split.
  - intro H. exact (brute_infeasible _ _ Hs' H).
  - intros o p H. destruct (brute_sound _ _ _ _ H) as [Hf Ho]. split; [exact Hf|]. split; [exact Ho|].
    exact (brute_optimal _ _ _ _ Hs' H).
Qed.

Lemma brute_is_pref : brute = fun _ => solve_pref (fun _ => false).
Proof. reflexivity. Qed.
Lemma advised_is_pref : forall m0 adv, advised m0 adv =
  fun it => solve_pref (fun c => match nth_error adv (Z.to_nat it) with Some s => kseteq (active m0 (asg_of c)) s | None => false end).
Proof. reflexivity. Qed.

(* ---------------------------------------------------------------- Enum over Brute: unconditional on the class *)
Section EnumBrute.
  Variable c : consts.
  Hypothesis Hc : consts_wf c = true.
  Variable prefs : Z -> point -> bool.
  Variables (gap : Q) (limit : option Z) (m : lp).
  Hypothesis Hs : shaped m = true.
  Let slv : Z -> lp -> sres := fun it => solve_pref (prefs it).
  Let eps := c_solver_precision c.
  Let Heps : 0 < eps := consts_eps_pos c Hc.
  Let Hcontract := brute_contract prefs m Hs.

  Theorem brute_enum_terminates : solutions c slv gap limit m <> None.
  Proof. unfold solutions. apply (enum_terminates slv eps gap limit m Hcontract). Qed.

  Theorem brute_enum_first_optimal : forall y r, solutions c slv gap limit m = Some (y :: r) ->
    feasible m (asg_of (y_point y)) /\ forall a, feasible m a -> y_obj y <= objective m a.
  Proof. intros y r H. exact (enum_first_optimal slv eps gap limit m Hcontract _ y r H). Qed.

  Theorem brute_enum_sound : forall r, solutions c slv gap limit m = Some r ->
    Forall (fun y => feasible m (asg_of (y_point y)) /\ y_obj y == objective m (asg_of (y_point y)) /\
                     y_active y = active m (asg_of (y_point y))) r.
  Proof. intros r H. exact (enum_sound slv eps gap limit m Hcontract _ r H). Qed.

  Theorem brute_enum_within_gap : forall y r, solutions c slv gap limit m = Some (y :: r) ->
    Forall (fun y' => y_obj y' < (1 + gap) * y_obj y + eps) (y :: r).
  Proof. intros y r H. exact (enum_within_gap slv eps gap limit m Heps _ y r H). Qed.

  Theorem brute_enum_nosuper : forall r, solutions c slv gap limit m = Some r ->
    ForallOrdPairs (fun x y => ksubset (y_active x) (y_active y) = false) r.
  Proof. intros r H. exact (enum_nosuper slv eps gap limit m Hcontract _ r H). Qed.

  Theorem brute_enum_monotone : forall r, solutions c slv gap limit m = Some r ->
    ForallOrdPairs (fun x y => y_obj x <= y_obj y) r.
  Proof. intros r H. exact (enum_monotone slv eps gap limit m Hcontract _ r H). Qed.

  Theorem brute_enum_complete : (forall it, more limit it = true) -> forall r, solutions c slv gap limit m = Some r ->
    forall a, feasible m a -> (forall a', feasible m a' -> objective m a <= (1 + gap) * objective m a') ->
    exists y, In y r /\ ksubset (y_active y) (active m a) = true /\ y_obj y <= objective m a.
  Proof.
    intros Hl r H. apply (enum_complete slv eps gap limit m Hcontract Hl) with (fuel := enough_fuel m); [|exact H].
    intros cuts it _. apply brute_answers.
  Qed.
End EnumBrute.
