(* MinorPointProofs.v — from a feasible point of the minor-stage ILP to the combinatorial specification (C04).
   For EVERY feasible point x of MinorModel.gen (any number of candidates, copies, variants, sites, read modes):
   the assignment the point denotes (MinorSpec.point_asg: what minor.py:478-495 reads out of the solver) is admissible
   for MinorSpec, and its MinorSpec.score (tie-breaker included) is at most the score of the point's selector values
   (pt_score), which minor_objective_lower bounds by the ILP objective.  Each part of the score is re-indexed from a sum
   over selected allele copies to a sum over all allele copies weighted by the selectors. *)
From Aldy Require Import Base Consts Lp MinorModel MinorSpec Consts_here MinorProofs.
From Coq Require Import Lqa Qabs.
Open Scope Q_scope.

(* ------------------------------------------------------------------------------------------ *)
(* counting                                                                                    *)
(* ------------------------------------------------------------------------------------------ *)
Lemma count_as_sum {A} (p : A -> bool) l : inject_Z (Z.of_nat (length (filter p l))) == qsum (map (fun y => b2q (p y)) l).
Proof.
  induction l as [|y t IH]; cbn [filter map qsum length]; [reflexivity|].
  destruct (p y); cbn [b2q length]; [|lra]. rewrite Nat2Z.inj_succ. unfold Z.succ. rewrite inject_Z_plus, IH.
  change (inject_Z 1) with 1. lra.
Qed.
Lemma cnt_as_sum {A} (p : A -> bool) l : cnt p l == qsum (map (fun y => b2q (p y)) l).
Proof. unfold cnt. apply count_as_sum. Qed.
Lemma qlen_as_sum {A} (l : list A) : qlen l == qsum (map (fun _ => 1) l).
Proof. unfold qlen. induction l as [|y t IH]; cbn [map qsum length]; [reflexivity|].
  rewrite Nat2Z.inj_succ. unfold Z.succ. rewrite inject_Z_plus, IH. change (inject_Z 1) with 1. lra. Qed.
Lemma b2q_bin b : is_bin (b2q b).
Proof. destruct b; cbn; [right|left]; reflexivity. Qed.
Lemma bin_as_b2q q : is_bin q -> q == b2q (Qeqb q 1).
Proof.
  intros [E|E]; unfold Qeqb.
  - destruct (Qeq_bool q 1) eqn:B; [apply Qeq_bool_iff in B; lra|cbn; exact E].
  - assert (B : Qeq_bool q 1 = true) by (apply Qeq_bool_iff; exact E). rewrite B. cbn. exact E.
Qed.

Lemma qmax_list_bin l : (forall q, In q l -> is_bin q) -> qmax_list l == b2q (existsb (fun q => Qeqb q 1) l).
Proof.
  induction l as [|q t IH]; intros B; cbn [qmax_list fold_right existsb]; [reflexivity|].
  fold (qmax_list t). rewrite <- (bin_as_b2q q (B q (or_introl eq_refl))) || idtac.
  assert (IH' : qmax_list t == b2q (existsb (fun q => Qeqb q 1) t)) by (apply IH; intros z Hz; apply B; right; exact Hz).
  pose proof (b2q_bin (existsb (fun q => Qeqb q 1) t)) as Bt. apply bin_range in Bt.
  destruct (B q (or_introl eq_refl)) as [E|E].
  - assert (Qeqb q 1 = false). { unfold Qeqb. destruct (Qeq_bool q 1) eqn:X; [apply Qeq_bool_iff in X; lra|reflexivity]. }
    rewrite H. cbn [orb]. destruct (Qmax'_cases q (qmax_list t)) as [[-> L]|[-> L]]; lra.
  - assert (Qeqb q 1 = true) by (unfold Qeqb; apply Qeq_bool_iff; exact E).
    rewrite H. cbn [orb b2q]. destruct (Qmax'_cases q (qmax_list t)) as [[-> L]|[-> L]]; lra.
Qed.

(* ---- minimum of a list ---- *)
Lemma Qmin'_le a b : Qmin' a b <= a /\ Qmin' a b <= b.
Proof. unfold Qmin'. destruct (Qle_bool a b) eqn:E; [apply Qle_bool_iff in E|apply Qle_bool_false in E]; lra. Qed.
Lemma fold_min_seed t : forall x, fold_left Qmin' t x <= x.
Proof. induction t as [|z t IH]; intros x; cbn [fold_left]; [lra|]. pose proof (IH (Qmin' x z)). pose proof (Qmin'_le x z). lra. Qed.
Lemma fold_min_le t : forall x y, In y t -> fold_left Qmin' t x <= y.
Proof.
  induction t as [|z t IH]; intros x y H; [contradiction|]. cbn [fold_left]. destruct H as [->|H].
  - pose proof (fold_min_seed t (Qmin' x y)). pose proof (Qmin'_le x y). lra.
  - apply IH. exact H.
Qed.
Lemma qmin_list_le l q y : qmin_list l = Some q -> In y l -> q <= y.
Proof.
  destruct l as [|x t]; [discriminate|]. cbn [qmin_list]. intros E H. injection E as <-. destruct H as [->|H].
  - apply fold_min_seed.
  - apply fold_min_le. exact H.
Qed.
Lemma qmin_list_some l : l <> [] -> exists q, qmin_list l = Some q.
Proof. destruct l as [|x t]; [congruence|]. intros _. eexists. reflexivity. Qed.

(* ---- read modes: every count is positive ---- *)
Definition allpos (l : list (mode * Z)) : Prop := forall r n, In (r, n) l -> (0 < n)%Z.
Lemma aset_pos k v l : allpos l -> (0 < v)%Z -> allpos (aset mode_eqb k v l).
Proof.
  induction l as [|[k' v'] t IH]; intros P Hv r n H; cbn [aset] in H.
  - destruct H as [E|[]]. injection E as <- <-. exact Hv.
  - destruct (mode_eqb k k').
    + destruct H as [E|H]; [injection E as <- <-; exact Hv|]. apply (P r n). right. exact H.
    + destruct H as [E|H]; [apply (P r n); left; exact E|]. apply (IH (fun r n H => P r n (or_intror H)) Hv r n H).
Qed.
Lemma alookup_pos k l v : allpos l -> alookup mode_eqb k l = Some v -> (0 < v)%Z.
Proof.
  induction l as [|[k' v'] t IH]; intros P H; cbn [alookup] in H; [discriminate|].
  destruct (mode_eqb k k').
  - injection H as <-. apply (P k' v'). left. reflexivity.
  - apply IH; [intros r n Hr; apply (P r n); right; exact Hr|exact H].
Qed.
Lemma bump_pos k l : allpos l -> allpos (bump k l).
Proof.
  intros P. unfold bump. destruct (alookup mode_eqb k l) as [n|] eqn:E.
  - apply aset_pos; [exact P|]. pose proof (alookup_pos k l n P E). lia.
  - intros r n H. apply in_app_or in H as [H|[H|[]]]; [apply (P r n H)|]. injection H as <- <-. lia.
Qed.
Lemma all_modes_pos i : allpos (all_modes i).
Proof.
  unfold all_modes. destruct (i_phases i) as [frags|]; [|intros r n []].
  assert (G : forall l acc, allpos acc -> allpos (fold_left (fun acc fr =>
              let c := mode_sort (filter (fun kv => memb Z.eqb (fst kv) (mut_positions i)) fr) in
              if (1 <? length c)%nat then bump c acc else acc) l acc)).
  { induction l as [|fr t IH]; intros acc P; [exact P|]. cbn [fold_left]. apply IH. cbv zeta.
    destruct (1 <? length _)%nat; [apply bump_pos|]; exact P. }
  apply G. intros r n [].
Qed.
Lemma skipn_in {A} n (l : list A) y : In y (skipn n l) -> In y l.
Proof. revert l. induction n as [|n IH]; intros l H; [exact H|]. destruct l as [|z t]; [exact H|]. right. apply IH. exact H. Qed.
Lemma every_nth_in {A} fuel step (l : list A) y : In y (every_nth fuel step l) -> In y l.
Proof.
  revert l. induction fuel as [|f IH]; intros l H; [contradiction|]. destruct l as [|z t]; [contradiction|].
  cbn [every_nth] in H. destruct H as [<-|H]; [left; reflexivity|]. apply IH in H. apply (skipn_in step). exact H.
Qed.
Lemma modes_pos i : allpos (modes i).
Proof.
  unfold modes. cbv zeta. destruct (_ && _).
  - intros r n H. apply every_nth_in in H. apply (all_modes_pos i r n H).
  - apply all_modes_pos.
Qed.

(* a sum of binaries that equals 1 has a member that is 1 *)
Lemma bin_sum_one {A} (f : A -> Q) l : (forall y, In y l -> is_bin (f y)) -> qsum (map f l) == 1 -> exists y, In y l /\ f y == 1.
Proof.
  induction l as [|z t IH]; intros B S; cbn [map qsum] in S; [lra|].
  destruct (B z (or_introl eq_refl)) as [E|E].
  - destruct IH as (y & Hy & Ey); [intros y Hy; apply B; right; exact Hy|lra|]. exists y. split; [right; exact Hy|exact Ey].
  - exists z. split; [left; reflexivity|exact E].
Qed.

(* option-valued running sum *)
Definition oadd (a b : option Q) : option Q := match a, b with Some u, Some v => Some (u + v) | _, _ => None end.
Lemma fold_oadd {A} (f : A -> option Q) (g : A -> Q) l : forall acc,
  (forall y, In y l -> exists q, f y = Some q /\ q <= g y) ->
  exists ph, fold_left (fun a y => oadd a (f y)) l (Some acc) = Some ph /\ ph <= acc + qsum (map g l).
Proof.
  induction l as [|z t IH]; intros acc H; cbn [fold_left map qsum].
  - exists acc. split; [reflexivity|lra].
  - destruct (H z (or_introl eq_refl)) as (q & E & L). rewrite E. cbn [oadd].
    destruct (IH (acc + q) (fun y Hy => H y (or_intror Hy))) as (ph & Ep & Lp). exists ph. split; [exact Ep|lra].
Qed.

Lemma NoDup_map_filter {A B} (f : A -> B) (p : A -> bool) l : NoDup (map f l) -> NoDup (map f (filter p l)).
Proof.
  induction l as [|y t IH]; intros ND; [constructor|]. cbn [map] in ND. inversion ND as [|? ? Hn ND']; subst. cbn [filter].
  destruct (p y); [|apply IH; exact ND']. cbn [map]. constructor; [|apply IH; exact ND'].
  intros H. apply Hn. apply in_map_iff in H as (z & E & Hz). apply filter_In in Hz as [Hz _]. rewrite <- E. apply in_map. exact Hz.
Qed.
Lemma NoDup_nodupb l : NoDup l -> nodupb l = true.
Proof.
  induction l as [|y t IH]; intros ND; [reflexivity|]. inversion ND as [|? ? Hn ND']; subst. cbn [nodupb].
  rewrite (IH ND'), andb_true_r. apply negb_true_iff. destruct (memb Z.eqb y t) eqn:E; [|reflexivity].
  exfalso. apply Hn. apply memb_In. exact E.
Qed.

(* sum over the assignment of a point = sum over all allele copies, selected ones only *)
Lemma qsum_point_asg (g : choice -> Q) i x :
  qsum (map g (point_asg i x)) == qsum (map (fun a => if on x (kA a) then g (pch i x a) else 0) (insts i)).
Proof. rewrite point_asg_eq, qsum_map_map. apply qsum_filter_ite. Qed.

Section Point.
  Variables (c : consts) (i : inst) (x : asg).
  Hypothesis F : feasible (gen c i) x.
  Hypothesis W : inst_wf i = true.

  Let asg := point_asg i x.

  Lemma off_zero a : In a (insts i) -> on x (kA a) = false -> x (kA a) == 0.
  Proof. intros Ha O. apply on_false_bin; [apply (vA_bin c i x F a Ha)|exact O]. Qed.
  Lemma selv_bin a m : In a (insts i) -> In m (i_muts i) -> is_bin (selv x a m).
  Proof.
    intros Ha Hm. unfold selv. destruct (in_def a m) eqn:D.
    - apply (vK_bin c i x F a m Ha). apply defs_in. auto.
    - destruct (is_new a m) eqn:N; [|left; reflexivity]. apply (vN_bin c i x F a m Ha). unfold news. apply filter_In. auto.
  Qed.
  Lemma selv_off a m : In a (insts i) -> In m (i_muts i) -> on x (kA a) = false -> selv x a m == 0.
  Proof.
    intros Ha Hm O. pose proof (off_zero a Ha O) as Z. destruct (selv_range c i x F a m Ha Hm) as [L _].
    unfold selv in *. destruct (in_def a m) eqn:D.
    - pose proof (keep_used_only c i x F a m Ha) as K. specialize (K (proj2 (defs_in i a m) (conj Hm D))). lra.
    - destruct (is_new a m) eqn:N; [|lra].
      assert (Hn : In m (news i a)) by (unfold news; apply filter_In; auto).
      pose proof (add_used_only c i x F a m Ha Hn). lra.
  Qed.
  (* the indicator "selected and carrying m" is the selector value *)
  Lemma carried_is_selv a m : In a (insts i) -> In m (i_muts i) ->
    (if on x (kA a) then b2q (carried (pch i x a) m) else 0) == selv x a m.
  Proof.
    intros Ha Hm. destruct (on x (kA a)) eqn:O; [|symmetry; apply selv_off; assumption].
    pose proof (selv_carried i x W a m Ha Hm) as C. destruct (selv_bin a m Ha Hm) as [E|E].
    - destruct (carried (pch i x a) m); [|cbn; lra]. assert (selv x a m == 1) by (apply C; reflexivity). lra.
    - rewrite (proj2 C E). cbn. lra.
  Qed.

  (* ---- A: carriers ---- *)
  Lemma carriers_point m : In m (i_muts i) -> carriers asg m == carr x i m.
  Proof.
    intros Hm. unfold carriers. rewrite cnt_as_sum. unfold asg. rewrite (qsum_point_asg (fun ch => b2q (carried ch m))).
    rewrite (carr_selv i x m Hm). apply qsum_map_ext. intros a Ha. apply carried_is_selv; assumption.
  Qed.

  (* ---- B: reference copies at a site ---- *)
  Lemma kept_b2q a m : In a (insts i) -> In m (defs i a) -> b2q (kept (pch i x a) m) == x (kK a m).
  Proof.
    intros Ha Hd. assert (Hm : In m (i_muts i)) by (apply defs_in in Hd; tauto).
    destruct (vK_bin c i x F a m Ha Hd) as [B _]. rewrite (bin_as_b2q _ B).
    destruct (kept (pch i x a) m) eqn:K.
    - apply (kept_iff i x W a m Hm) in K as [_ K]. unfold on in K. rewrite K. reflexivity.
    - destruct (Qeqb (x (kK a m)) 1) eqn:O; [|reflexivity]. exfalso.
      assert (kept (pch i x a) m = true) by (apply (kept_iff i x W a m Hm); split; [exact Hd|exact O]). congruence.
  Qed.
  Lemma added_b2q a m : In a (insts i) -> In m (news i a) -> b2q (added (pch i x a) m) == x (kN a m).
  Proof.
    intros Ha Hd. assert (Hm : In m (i_muts i)) by (apply news_in in Hd; tauto).
    destruct (vN_bin c i x F a m Ha Hd) as [B _]. rewrite (bin_as_b2q _ B).
    destruct (added (pch i x a) m) eqn:K.
    - apply (added_iff i x W a m Hm) in K as [_ K]. unfold on in K. rewrite K. reflexivity.
    - destruct (Qeqb (x (kN a m)) 1) eqn:O; [|reflexivity]. exfalso.
      assert (added (pch i x a) m = true) by (apply (added_iff i x W a m Hm); split; [exact Hd|exact O]). congruence.
  Qed.
  Lemma exp_ref_ch_point pos a : In a (insts i) ->
    (if on x (kA a) then exp_ref_ch i pos (pch i x a) else 0) == refc_a x i pos a.
  Proof.
    intros Ha. unfold exp_ref_ch, refc_a. cbn [pch ch_a]. destruct (on x (kA a)) eqn:O.
    - assert (A1 : x (kA a) == 1) by (apply on_true; exact O).
      destruct (has_cov a pos); [|reflexivity].
      assert (G : 1 - cnt (added (pch i x a)) (nonins_at pos (news i a)) ==
                  x (kA a) - qsum (map (fun m => x (kN a m)) (nonins_at pos (news i a)))).
      { rewrite cnt_as_sum, A1. apply Qplus_comp; [reflexivity|]. apply Qopp_comp. apply qsum_map_ext.
        intros m Hm. apply nonins_in in Hm. apply added_b2q; assumption. }
      destruct (nonins_at pos (defs i a)) as [|p [|q t]] eqn:E; [exact G| |exact G].
      assert (Hp : In p (defs i a)) by (apply (nonins_in pos); rewrite E; left; reflexivity).
      rewrite (kept_b2q a p Ha Hp), A1. reflexivity.
    - pose proof (off_zero a Ha O) as Z. destruct (has_cov a pos); [|reflexivity].
      assert (G : 0 == x (kA a) - qsum (map (fun m => x (kN a m)) (nonins_at pos (news i a)))).
      { rewrite Z. rewrite (qsum_map_ext (fun m => x (kN a m)) (fun _ => 0)).
        - rewrite qsum_const. lra.
        - intros m Hm. apply nonins_in in Hm. pose proof (add_used_only c i x F a m Ha Hm).
          destruct (vN_bin c i x F a m Ha Hm) as [B _]. apply bin_range in B. lra. }
      destruct (nonins_at pos (defs i a)) as [|p [|q t]] eqn:E; [exact G| |exact G].
      assert (Hp : In p (defs i a)) by (apply (nonins_in pos); rewrite E; left; reflexivity).
      pose proof (keep_used_only c i x F a p Ha Hp). destruct (vK_bin c i x F a p Ha Hp) as [B _]. apply bin_range in B. lra.
  Qed.
  Lemma exp_ref_point pos : exp_ref i asg pos == refc x i pos.
  Proof.
    unfold exp_ref, refc, asg. rewrite (qsum_point_asg (exp_ref_ch i pos)). apply qsum_map_ext. intros a Ha.
    apply exp_ref_ch_point. exact Ha.
  Qed.

  (* ---- C: fit ---- *)
  Lemma fit_point : fit_error i asg == pt_fit x i.
  Proof.
    unfold fit_error, pt_fit. apply Qplus_comp; apply qsum_map_ext.
    - intros m Hm. apply Qabs'_comp. rewrite (carriers_point m Hm). reflexivity.
    - intros s _. apply Qabs'_comp. rewrite (exp_ref_point (s_pos s)). reflexivity.
  Qed.

  (* ---- D: dropped definition variants ---- *)
  Lemma dropped_point : dropped i asg == pt_dropped x i.
  Proof.
    unfold dropped, pt_dropped, asg.
    rewrite (qsum_point_asg (fun ch => qlen (defs i (ch_a ch)) - cnt (kept ch) (defs i (ch_a ch)))).
    apply qsum_map_ext. intros a Ha. cbn [pch ch_a]. destruct (on x (kA a)) eqn:O.
    - assert (A1 : x (kA a) == 1) by (apply on_true; exact O).
      rewrite cnt_as_sum, qlen_as_sum.
      rewrite (qsum_map_ext (fun m => x (kA a) - x (kK a m)) (fun m => 1 + (-1) * b2q (kept (pch i x a) m))).
      + rewrite qsum_plus, qsum_scale. lra.
      + intros m Hm. rewrite (kept_b2q a m Ha Hm), A1. lra.
    - pose proof (off_zero a Ha O) as Z. rewrite (qsum_map_ext (fun m => x (kA a) - x (kK a m)) (fun _ => 0)).
      + rewrite qsum_const. lra.
      + intros m Hm. pose proof (keep_used_only c i x F a m Ha Hm). destruct (vK_bin c i x F a m Ha Hm) as [B _].
        apply bin_range in B. lra.
  Qed.

  (* ---- E: additions with the tie-breaker ---- *)
  Lemma NDc : NoDup (map c_id (i_cands i)).
  Proof. unfold inst_wf in W. do 7 (apply andb_true_iff in W as [W _]). apply andb_true_iff in W as [_ W']. apply nodupb_NoDup. exact W'. Qed.
  Lemma find_ch_point a : In a (insts i) -> find_ch asg a = if on x (kA a) then Some (pch i x a) else None.
  Proof.
    intros Ha. unfold find_ch, asg. rewrite point_asg_eq.
    assert (G : forall l, (forall b, In b l -> In b (insts i)) -> NoDup l ->
                find (fun ch => ainst_eqb (ch_a ch) a) (map (pch i x) (filter (fun b => on x (kA b)) l)) =
                if existsb (fun b => ainst_eqb b a && on x (kA b)) l then (if on x (kA a) then Some (pch i x a) else None) else None).
    { induction l as [|b t IH]; intros Hin ND; [reflexivity|]. inversion ND as [|? ? Hn ND']; subst. cbn [filter existsb].
      destruct (on x (kA b)) eqn:O; cbn [map find pch ch_a].
      - destruct (ainst_eqb b a) eqn:E; cbn [andb orb].
        + assert (b = a) by (apply (ainst_eqb_eq i b a NDc (Hin b (or_introl eq_refl)) Ha E)). subst b. rewrite O. reflexivity.
        + apply IH; [intros b' Hb'; apply Hin; right; exact Hb'|exact ND'].
      - rewrite andb_false_r. cbn [orb]. apply IH; [intros b' Hb'; apply Hin; right; exact Hb'|exact ND']. }
    rewrite (G (insts i) (fun b H => H) (NoDup_insts i NDc)).
    destruct (on x (kA a)) eqn:O.
    - assert (E : existsb (fun b => ainst_eqb b a && on x (kA b)) (insts i) = true).
      { apply existsb_exists. exists a. split; [exact Ha|]. rewrite ainst_eqb_refl, O. reflexivity. }
      rewrite E. reflexivity.
    - destruct (existsb _ (insts i)); reflexivity.
  Qed.
  Lemma new_pairs_in a m : In (a, m) (new_pairs i) <-> In a (insts i) /\ In m (news i a).
  Proof.
    unfold new_pairs. rewrite in_flat_map. split.
    - intros (a' & Ha & H). apply in_map_iff in H as (m' & E & Hm). injection E as -> ->. auto.
    - intros [Ha Hm]. exists a. split; [exact Ha|]. apply in_map_iff. exists m. auto.
  Qed.
  Lemma is_added_point a m : In a (insts i) -> In m (news i a) -> b2q (is_added asg (a, m)) == x (kN a m).
  Proof.
    intros Ha Hm. unfold is_added. cbn [fst snd]. rewrite (find_ch_point a Ha). destruct (on x (kA a)) eqn:O.
    - apply added_b2q; assumption.
    - pose proof (off_zero a Ha O). pose proof (add_used_only c i x F a m Ha Hm). destruct (vN_bin c i x F a m Ha Hm) as [B _].
      apply bin_range in B. cbn. lra.
  Qed.
  Lemma added_point : add_weight c i true asg == pt_added c x i.
  Proof.
    unfold add_weight, pt_added. apply qsum_map_ext. intros [k [a m]] H. cbn [fst snd].
    apply (enumerate_in_snd 0%Z) in H. cbn [snd] in H. apply new_pairs_in in H as [Ha Hm].
    rewrite <- (is_added_point a m Ha Hm). destruct (is_added asg (a, m)); cbn [b2q]; lra.
  Qed.

  (* ---- F: novel functional additions ---- *)
  Definition novel_on (a : ainst) (m : mutn) : bool := is_new a m && m_func m && negb (in_core a m).
  Lemma novel_point : novel_core i asg == pt_novel x i.
  Proof.
    unfold novel_core, pt_novel, vo_muts. rewrite cnt_as_sum, qsum_filter_ite. apply qsum_map_ext. intros m Hm.
    assert (Bv : forall q, In q (map x (vo_vars i m)) -> is_bin q).
    { intros q Hq. apply in_map_iff in Hq as (v & <- & Hv). destruct (vo_vars_in i m v Hm Hv) as (a & Ha & Hn & ->).
      apply (vN_bin c i x F a m Ha Hn). }
    assert (EQ : existsb (fun ch => added ch m && is_new (ch_a ch) m && m_func m && negb (in_core (ch_a ch) m)) asg =
                 existsb (fun q => Qeqb q 1) (map x (vo_vars i m))).
    { apply eq_true_iff_eq. rewrite !existsb_exists. split.
      - intros (ch & Hch & P). apply in_point_asg in Hch as (a & Ha & Oa & ->). cbn [pch ch_a] in P.
        apply andb_true_iff in P as [P P4]. apply andb_true_iff in P as [P P3]. apply andb_true_iff in P as [P1 P2].
        apply (added_iff i x W a m Hm) in P1 as [Hn On]. exists (x (kN a m)). split; [|exact On].
        apply in_map. unfold vo_vars. apply (in_map (fun a => kN a m)). apply filter_In. split; [exact Ha|].
        rewrite P2, P3, P4. reflexivity.
      - intros (q & Hq & Q1). apply in_map_iff in Hq as (v & <- & Hv). unfold vo_vars in Hv.
        apply in_map_iff in Hv as (a & <- & Ha). apply filter_In in Ha as [Ha P].
        assert (Hn : In m (news i a)).
        { apply andb_true_iff in P as [P _]. apply andb_true_iff in P as [P _]. unfold news. apply filter_In. auto. }
        assert (Oa : on x (kA a) = true).
        { apply on_true. assert (x (kN a m) == 1) by (apply on_true; exact Q1).
          pose proof (add_used_only c i x F a m Ha Hn). pose proof (bin_range _ (vA_bin c i x F a Ha)). lra. }
        exists (pch i x a). split; [apply in_point_asg; exists a; auto|]. cbn [pch ch_a].
        assert (Ad : added (pch i x a) m = true) by (apply (added_iff i x W a m Hm); split; [exact Hn|exact Q1]).
        rewrite Ad. exact P. }
    rewrite EQ, <- (qmax_list_bin _ Bv).
    destruct (vo_vars i m) as [|v t]; reflexivity.
  Qed.

  (* ---- G: phase ---- *)
  Lemma sel_var_selv a m : In m (i_muts i) -> has_cov a (m_pos m) = true -> x (sel_var a m) = selv x a m.
  Proof. intros Hm Hc. unfold sel_var, selv, is_new. rewrite Hc. destruct (in_def a m); reflexivity. Qed.
  Lemma b2q_negb b : b2q (negb b) == 1 - b2q b.
  Proof. destruct b; cbn; lra. Qed.
  Lemma mismatches_point a r : In a (insts i) -> on x (kA a) = true ->
    mismatches i (pch i x a) r == qsum (map (fun v => 1 - x v) (ph_pos i a r)) + qsum (map x (ph_neg i a r)).
  Proof.
    intros Ha O. unfold mismatches, ph_pos, ph_neg. cbn [pch ch_a]. rewrite !cnt_as_sum, !qsum_map_map, !qsum_filter_ite.
    apply Qplus_comp; apply qsum_map_ext; intros m Hm; apply (informative_in i a r m) in Hm as [Hm Hc];
      rewrite (sel_var_selv a m Hm Hc); pose proof (carried_is_selv a m Ha Hm) as C; rewrite O in C;
      pose proof (b2q_negb (carried (pch i x a) m)) as NB;
      destruct (agrees r m); cbn [andb negb]; cbn [negb] in NB; try (cbn [b2q]; lra); lra.
  Qed.
  Lemma phase_mode_point ri r n : In (ri, (r, n)) (enumerate 0 (modes i)) ->
    exists q, phase_mode i asg (r, n) = Some q /\ q <= inject_Z n * qsum (map (pt_phase_a x i ri r) (insts i)).
  Proof.
    intros Hrm. unfold phase_mode. cbn [fst snd].
    assert (Hn : 0 <= inject_Z n).
    { apply (enumerate_in_snd 0%Z) in Hrm. cbn [snd] in Hrm. pose proof (modes_pos i r n Hrm). change 0 with (inject_Z 0).
      rewrite <- Zle_Qle. lia. }
    destruct (existsb (fun a => ph_active i a r) (insts i)) eqn:EX.
    - (* some copy is informative: the mode sits on exactly one selected informative copy *)
      assert (NE : filter (fun a => ph_active i a r) (insts i) <> []).
      { apply existsb_exists in EX as (a & Ha & Pa). intros E. assert (H : In a (filter (fun a => ph_active i a r) (insts i))) by (apply filter_In; auto).
        rewrite E in H. exact H. }
      pose proof (phase_exactly_one c i x F ri r n Hrm NE) as ONE.
      assert (BPH : forall a, In a (filter (fun a => ph_active i a r) (insts i)) -> is_bin (x (kPH a ri))).
      { intros a Ha. apply filter_In in Ha as [Ha Pa]. apply (vPH_bin c i x F ri r n a Hrm Ha Pa). }
      destruct (bin_sum_one (fun a => x (kPH a ri)) _ BPH ONE) as (a0 & H0 & P0).
      apply filter_In in H0 as [H0 Act0].
      assert (On0 : on x (kA a0) = true).
      { apply on_true. pose proof (phase_on_selected c i x F ri r n a0 Hrm H0 Act0). pose proof (bin_range _ (vA_bin c i x F a0 H0)). lra. }
      assert (In0 : In (pch i x a0) (filter (fun ch => ph_active i (ch_a ch) r) asg)).
      { apply filter_In. split; [apply in_point_asg; exists a0; auto|exact Act0]. }
      destruct (qmin_list_some (map (fun ch => mismatches i ch r) (filter (fun ch => ph_active i (ch_a ch) r) asg))) as (q & Eq).
      { intros E. apply (in_map (fun ch => mismatches i ch r)) in In0. rewrite E in In0. exact In0. }
      rewrite Eq. exists (inject_Z n * q). split; [reflexivity|].
      assert (L : q <= qsum (map (pt_phase_a x i ri r) (insts i))).
      { (* q = q * sum of PH over the informative copies <= sum of PH * disagreements *)
        assert (S : q == qsum (map (fun a => if ph_active i a r then q * x (kPH a ri) else 0) (insts i))).
        { rewrite <- qsum_filter_ite, qsum_scale, ONE. lra. }
        rewrite S. apply qsum_le_pointwise. intros a Ha. unfold pt_phase_a. destruct (ph_active i a r) eqn:Act; [|lra].
        destruct (vPH_bin c i x F ri r n a Hrm Ha Act) as [Z|O1]; [rewrite Z; lra|]. rewrite O1.
        assert (Ona : on x (kA a) = true).
        { apply on_true. pose proof (phase_on_selected c i x F ri r n a Hrm Ha Act). pose proof (bin_range _ (vA_bin c i x F a Ha)). lra. }
        rewrite <- (mismatches_point a r Ha Ona).
        assert (q <= mismatches i (pch i x a) r).
        { apply (qmin_list_le _ q _ Eq). apply (in_map (fun ch => mismatches i ch r)). apply filter_In.
          split; [apply in_point_asg; exists a; auto|exact Act]. }
        lra. }
      rewrite (Qmult_comm (inject_Z n) q), (Qmult_comm (inject_Z n)). apply Qmult_le_compat_r; assumption.
    - exists 0. split; [reflexivity|].
      rewrite (qsum_map_ext (pt_phase_a x i ri r) (fun _ => 0)).
      + rewrite qsum_const. lra.
      + intros a Ha. unfold pt_phase_a. destruct (ph_active i a r) eqn:Act; [|reflexivity]. exfalso.
        assert (existsb (fun a => ph_active i a r) (insts i) = true) by (apply existsb_exists; exists a; auto). congruence.
  Qed.
  Lemma phase_point : exists ph, phase_disagreement i asg = Some ph /\ ph <= pt_phase x i.
  Proof.
    unfold phase_disagreement, pt_phase.
    assert (E : fold_left (fun acc rm => match acc, phase_mode i asg rm with Some u, Some v => Some (u + v) | _, _ => None end) (modes i) (Some 0) =
                fold_left (fun a (y : Z * (mode * Z)) => oadd a (phase_mode i asg (snd y))) (enumerate 0 (modes i)) (Some 0)).
    { rewrite <- (enumerate_snd 0%Z (modes i)) at 1. generalize (enumerate 0%Z (modes i)) (Some 0).
      induction l as [|y t IH]; intros acc; [reflexivity|]. cbn [map fold_left]. rewrite IH. reflexivity. }
    rewrite E.
    destruct (fold_oadd (fun y : Z * (mode * Z) => phase_mode i asg (snd y))
                        (fun rm => inject_Z (snd (snd rm)) * qsum (map (pt_phase_a x i (fst rm) (fst (snd rm))) (insts i)))
                        (enumerate 0 (modes i)) 0) as (ph & Ep & Lp).
    - intros [ri [r n]] H. cbn [fst snd]. apply phase_mode_point. exact H.
    - exists ph. split; [exact Ep|lra].
  Qed.

  (* ---- H: the score of the denoted assignment ---- *)
  Theorem point_score : 0 <= i_phase i -> exists q, score c i true asg = Some q /\ q <= pt_score c x i.
  Proof.
    intros Hp. destruct phase_point as (ph & Ep & Lp). unfold score. rewrite Ep. eexists. split; [reflexivity|].
    unfold pt_score. rewrite fit_point, dropped_point, added_point, novel_point.
    assert (i_phase i * ph <= i_phase i * pt_phase x i).
    { rewrite !(Qmult_comm (i_phase i)). apply Qmult_le_compat_r; assumption. }
    lra.
  Qed.

  (* ---- I: the denoted assignment is admissible ---- *)
  Lemma NDm : NoDup (map m_id (i_muts i)).
  Proof. apply inst_wf_nodup. exact W. Qed.
  Lemma choice_ok_point a : In a (insts i) -> on x (kA a) = true -> choice_ok i (pch i x a) = true.
  Proof.
    intros Ha O. assert (A1 : x (kA a) == 1) by (apply on_true; exact O).
    unfold choice_ok. cbn [pch ch_a ch_keep ch_add]. rewrite !andb_true_iff. repeat split.
    - unfold sub_ids. apply andb_true_iff. split.
      + apply forallb_forall. intros d Hd. apply in_map_iff in Hd as (m & <- & Hm). apply filter_In in Hm as [Hm _].
        apply memb_In. apply in_map. exact Hm.
      + apply NoDup_nodupb. unfold defs. rewrite filter_filter'. apply NoDup_map_filter. exact NDm.
    - unfold sub_ids. apply andb_true_iff. split.
      + apply forallb_forall. intros d Hd. apply in_map_iff in Hd as (m & <- & Hm). apply filter_In in Hm as [Hm _].
        apply memb_In. apply in_map. exact Hm.
      + apply NoDup_nodupb. unfold news. rewrite filter_filter'. apply NoDup_map_filter. exact NDm.
    - apply forallb_forall. intros m Hm. apply filter_In in Hm as [Hm Hf].
      apply (kept_iff i x W a m); [apply defs_in in Hm; tauto|]. split; [exact Hm|]. apply on_true.
      rewrite (core_kept c i x F a m Ha Hm Hf). exact A1.
    - apply forallb_forall. intros m Hm. destruct (kept (pch i x a) m) eqn:K; [|reflexivity]. cbn [negb orb].
      destruct (has_cov a (m_pos m)) eqn:C; [reflexivity|]. exfalso.
      apply (kept_iff i x W a m) in K as [_ K]; [|apply defs_in in Hm; tauto]. apply on_true in K.
      pose proof (keep_needs_copies c i x F a m Ha Hm C). lra.
    - pose proof (point_one_per_site c i x F W) as P. unfold cl_one_per_site in P. rewrite forallb_forall in P.
      apply (P (pch i x a)). apply in_point_asg. exists a. auto.
  Qed.
  Lemma carr_no_reads m : In m (i_muts i) -> no_reads m = true -> carr x i m == 0.
  Proof.
    intros Hm N. rewrite <- (carriers_sum c i x F m Hm).
    assert (R : eval_lin x (mut_terms i m) <= 0).
    { apply (sat_le c i x F). apply (cmut_rows i m Hm). rewrite N. left. reflexivity. }
    unfold mut_terms in R. rewrite eval_sumv in R.
    assert (0 <= qsum (map x (mut_keys i m))) by (apply qsum_nonneg; intros k Hk; apply (mut_keys_nonneg c i x F m k Hm Hk)).
    lra.
  Qed.
  Lemma reads_ok_point m : In m (i_muts i) -> reads_ok asg m = true.
  Proof.
    intros Hm. unfold reads_ok. destruct (no_reads m) eqn:N.
    - unfold Qeqb. apply Qeq_bool_iff. rewrite (carriers_point m Hm). apply carr_no_reads; assumption.
    - destruct (supported_is_carried c i x F m Hm N) as [L U]. unfold Qleb. apply andb_true_iff.
      split; apply Qle_bool_iff; rewrite (carriers_point m Hm); assumption.
  Qed.
  Lemma site_e_sum a pos : In a (insts i) ->
    qsum (map x (site_e i pos a)) == qsum (map (selv x a) (at_pos pos (i_muts i))).
  Proof.
    intros Ha. rewrite (selv_sum_site i x a pos Ha). unfold site_e, site_mp, site_ma. rewrite map_app, qsum_app, !qsum_map_map.
    apply Qplus_comp; apply qsum_map_ext; intros m Hm; apply at_pos_in in Hm.
    - apply (keep_product_exact c i x F a m Ha Hm).
    - apply (add_product_exact c i x F a m Ha Hm).
  Qed.
  Lemma ref_expr_point pos :
    qsum (map (fun ch => qlen (site_e i pos (ch_a ch)) - qlen (carried_at i ch pos)) asg) == eval_lin x (site_expr i pos).
  Proof.
    unfold asg. rewrite (qsum_point_asg (fun ch => qlen (site_e i pos (ch_a ch)) - qlen (carried_at i ch pos))).
    unfold site_expr. rewrite eval_flat_map. apply qsum_map_ext. intros a Ha. cbn [eval_lin pch ch_a].
    rewrite eval_negv, (site_e_sum a pos Ha). destruct (on x (kA a)) eqn:O.
    - assert (A1 : x (kA a) == 1) by (apply on_true; exact O). rewrite A1.
      assert (E : qlen (carried_at i (pch i x a) pos) == qsum (map (selv x a) (at_pos pos (i_muts i)))).
      { unfold carried_at, qlen. rewrite count_as_sum. apply qsum_map_ext. intros m Hm. apply at_pos_in in Hm.
        pose proof (carried_is_selv a m Ha Hm) as C. rewrite O in C. exact C. }
      rewrite E. lra.
    - rewrite (off_zero a Ha O). rewrite (qsum_map_ext (selv x a) (fun _ => 0)).
      + rewrite qsum_const. lra.
      + intros m Hm. apply at_pos_in in Hm. apply selv_off; assumption.
  Qed.
  Lemma ref_ok_point st : In st (i_sites i) -> ref_ok i asg st = true.
  Proof.
    intros Hs. unfold ref_ok. destruct (insts i) as [|a0 t] eqn:EI; [reflexivity|].
    assert (NE : insts i <> []) by (rewrite EI; discriminate).
    pose proof (minor_ref_sites c i x F NE st Hs) as R. rewrite <- (ref_expr_point (s_pos st)) in R.
    unfold Qleb. destruct (Qeqb (s_pcn st) 0); apply Qle_bool_iff; exact R.
  Qed.
  Theorem point_admissible : admissible i asg = true.
  Proof.
    unfold admissible, admissible_core. destruct phase_point as (ph & Ep & _). rewrite Ep. rewrite !andb_true_iff. repeat split.
    - apply (point_one_minor c i x F W).
    - apply forallb_forall. intros ch Hch. apply in_point_asg in Hch as (a & Ha & O & ->). apply choice_ok_point; assumption.
    - apply forallb_forall. intros m Hm. apply reads_ok_point. exact Hm.
    - apply forallb_forall. intros st Hs. apply ref_ok_point. exact Hs.
  Qed.
End Point.

(* For every feasible point: what minor.py reads out of it is an admissible assignment of the specification whose score
   (tie-breaker included) is at most the point's objective. *)
Theorem minor_point_spec c i x : feasible (gen c i) x -> inst_wf i = true -> 0 <= i_phase i ->
  admissible i (point_asg i x) = true /\
  exists q, score c i true (point_asg i x) = Some q /\ q <= pt_score c x i /\ q <= objective (gen c i) x.
Proof.
  intros F W Hp. split; [apply (point_admissible c i x F W)|].
  destruct (point_score c i x F W Hp) as (q & E & L). exists q. split; [exact E|]. split; [exact L|].
  pose proof (minor_objective_lower c i x F). lra.
Qed.
