(* Tied_cov.v — the regenerated decision expressions of /repo (gen/Exprs_cov.v, written by harness/gen_exprs.py from the Python
   AST on every run) are the expressions the hand-written model uses.  Every lemma is an obligation of the tie: when an
   expression of the code changes, the generated file changes with it and the lemma stops compiling even if no sampled input
   tells old and new behaviour apart.  Statements: the model's definition equals the translated expression, for all arguments. *)
From Aldy Require Import Base Consts MinorModel Exprs_cov TieTac.
Import List.
Open Scope Q_scope.

(* coverage.py single_copy as used by the minor model *)
Lemma single_copy_minor_tied : forall cov total pcn, Qltb 0 pcn = true ->
  (MinorModel.obs cov total pcn == cov / single_copy_val total pcn)%Q.
Proof. first [intros cov total pcn H; unfold MinorModel.obs; rewrite H; reflexivity | intros cov total pcn H; unfold MinorModel.obs, single_copy_val; rewrite H; tie_q]. Qed.

