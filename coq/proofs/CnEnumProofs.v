(* CnEnumProofs.v — composition of the copy-number theorems (CnProofs.v, CnCompleteProofs.v) with the enumeration loop of
   lpinterface.solutions (Enum.v / EnumProofs.v, property C05): what `model.solutions(profile.gap)` yields on the ILP of
   solve_cn_model (CnModel.gen).  Relative to the solver contract [solver_ok] of C05 (section hypothesis, never an axiom).
   Every yield is a feasible point, so every structural clause of C03 holds of it; its objective IS the documented objective
   of the form it activates; the first yield is optimal over all admissible forms; all lie within the gap; no yield's active
   set contains an earlier one; every admissible form inside the gap contains a yielded form that scores no more. *)
From Coq Require Import QArith Qabs Lqa Lia List Bool Arith.
From Aldy Require Import Base Consts Lp Enum CnModel CnSpec LpProofs EnumProofs CnProofs CnCompleteProofs MajorEnumProofs.
Import ListNotations.
Open Scope Z_scope.

Lemma filter_app' {A} (f : A -> bool) l1 l2 : filter f (l1 ++ l2) = filter f l1 ++ filter f l2.
Proof. apply filter_app. Qed.

Lemma cn_binaries c i : binaries (gen c i) = map vcn (slots i).
Proof.
  unfold binaries, gen. cbn [lp_vars]. rewrite !filter_app', !map_app.
  assert (E1 : filter (fun kv : vkey * vkind => match snd kv with KBin => true | _ => false end) (map (fun x => (vcn x, KBin)) (slots i))
               = map (fun x => (vcn x, KBin)) (slots i)).
  { induction (slots i) as [|x l IH]; [reflexivity|]. cbn [map filter snd]. rewrite IH. reflexivity. }
  assert (E2 : forall regs, filter (fun kv : vkey * vkind => match snd kv with KBin => true | _ => false end)
                 (flat_map (fun r => [err_var i (verrg r); err_var i (verr r)]) regs) = []).
  { induction regs as [|r l IH]; [reflexivity|]. cbn [flat_map app filter err_var snd]. exact IH. }
  assert (E3 : forall vs, filter (fun kv : vkey * vkind => match snd kv with KBin => true | _ => false end) (abssum_vars vs) = []).
  { unfold abssum_vars. induction vs as [|v l IH]; [reflexivity|]. cbn [map filter snd]. exact IH. }
  rewrite E1, E2, !E3, !app_nil_r, map_map. reflexivity.
Qed.
Lemma cn_active_act c i a : active (gen c i) a = map vcn (act i a).
Proof.
  unfold active, act. rewrite cn_binaries. induction (slots i) as [|x l IH]; [reflexivity|]. cbn [map filter]. unfold on at 1.
  destruct (Qeqb (a (vcn x)) 1); cbn [map]; rewrite IH; reflexivity.
Qed.
Lemma cn_active_same c i a a' : (forall x, In x (slots i) -> on a' x = on a x) -> active (gen c i) a' = active (gen c i) a.
Proof. intros H. rewrite !cn_active_act. f_equal. unfold act. apply filter_ext_in_len. exact H. Qed.

Section Reported.
  Variables (c : consts) (i : cn_inst).
  Hypothesis Hc : consts_wf c = true.
  Hypothesis H : hyps_ok i = true.
  Variable solve : Z -> lp -> sres.
  Notation m := (gen c i).
  Notation gap := (p_gap (i_par i)).
  Hypothesis contract : forall cuts, cuts_ok m cuts -> solver_ok solve (with_cuts m cuts).
  Variable r : list yield.
  Hypothesis run_r : solutions c solve gap None m = Some r.        (* model.solutions(profile.gap) *)
  Notation pt y := (asg_of (y_point y)).

  Let Hok : inst_ok i = true := proj1 (hyps_ok_spec i H).
  Let Hnd : NoDup (map fst (used_cov i)) := proj1 (proj2 (proj2 (hyps_ok_spec i H))).
  Let Hpar : par_nonneg i := proj1 (proj2 (proj2 (proj2 (hyps_ok_spec i H)))).
  Let Hgap : (0 <= gap)%Q := proj2 (proj2 (proj2 (proj2 (proj2 (hyps_ok_spec i H))))).

  (* ---- 1. every yield: a feasible point (so every structural clause of C03 holds of it), one of the enumerated canonical
          forms up to order, and the yielded objective is the documented objective of that form ---- *)
  Theorem cn_reported_sound y : In y r ->
    feasible m (pt y) /\ form_ok i (act i (pt y)) = true /\ bounds_ok i (act_structs i (pt y)) = true /\
    (exists F, In F (candidates i) /\ Permutation.Permutation (act_structs i (pt y)) F) /\
    y_active y = map vcn (act i (pt y)) /\
    (y_obj y == form_objective c i (act_structs i (pt y)))%Q.
  Proof.
    intros Hy. unfold solutions in run_r.
    pose proof (sols_opt solve (c_solver_precision c) gap None m contract _ _ _ _ _ (cuts_ok_nil m) run_r) as O.
    rewrite Forall_forall in O. destruct (O y Hy) as (cuts & Hcuts & Hf & Ho & Ha & Hopt).
    apply feas_with_cuts in Hf. destruct Hf as [Hf Hsat].
    split; [exact Hf|]. split; [apply (feasible_form_ok c i _ Hf)|]. split; [apply (feasible_bounds_ok c i _ Hf)|]. split.
    { destruct (cn_candidates_complete c i _ Hf) as (F & HF & _ & _ & P). exists F. split; assumption. }
    split; [rewrite Ha; apply cn_active_act|].
    destruct (cn_objective_thm c i (pt y) Hok Hpar Hnd Hf) as (Lo & a' & F' & On' & O').
    assert (A' : active m a' = active m (pt y)) by (apply cn_active_same; exact On').
    assert (Fc : feasible (with_cuts m cuts) a').
    { apply feas_with_cuts. split; [exact F'|]. rewrite Forall_forall in *. intros cut Hcut.
      pose proof (cuts_ok_incl m cuts cut Hcuts Hcut) as Hi.
      apply (cut_row_active m a' cut F' Hi). rewrite A'. apply (cut_row_active m (pt y) cut Hf Hi). apply Hsat. exact Hcut. }
    specialize (Hopt a' Fc). rewrite O' in Hopt. rewrite Ho in *. lra.
  Qed.

  (* ---- 2. the first yield is optimal: over all feasible points, and over all admissible forms ---- *)
  Theorem cn_reported_first_optimal y rest : r = y :: rest ->
    (forall a, feasible m a -> (y_obj y <= objective m a)%Q) /\
    (forall b : slot -> bool, (forall x, b x = true -> In x (slots i)) -> form_ok i (filter b (slots i)) = true ->
       bounds_ok i (chosen i b) = true -> (y_obj y <= form_objective c i (chosen i b))%Q).
  Proof.
    intros E. rewrite E in run_r. destruct (solutions_first_optimal c solve gap None m contract y rest run_r) as [_ Opt].
    split; [exact Opt|]. intros b Hb Fo Bo.
    pose proof (canon_feasible c i b Hb Hnd Fo Bo) as Fa. pose proof (canon_objective c i b Hnd) as Oa.
    specialize (Opt _ Fa). lra.
  Qed.

  (* ---- 3. everything yielded lies below (1 + gap) * best + SOLVER_PRECISON ---- *)
  Theorem cn_reported_within_gap y rest : r = y :: rest ->
    Forall (fun y' => (y_obj y' < (1 + gap) * y_obj y + c_solver_precision c)%Q) r.
  Proof. intros E. rewrite E in *. exact (solutions_within_gap c Hc solve gap None m y rest run_r). Qed.

  (* ---- 4. best first; no yielded form contains an earlier one; in particular nothing is yielded twice ---- *)
  Theorem cn_reported_ordered :
    ForallOrdPairs (fun x y => (y_obj x <= y_obj y)%Q) r /\
    ForallOrdPairs (fun x y => ~ incl (act i (pt x)) (act i (pt y))) r /\ NoDup (map y_active r).
  Proof.
    split; [exact (solutions_monotone c solve gap None m contract r run_r)|]. split; [|exact (solutions_nodup c solve gap None m contract r run_r)].
    pose proof (solutions_nosuper c solve gap None m contract r run_r) as NS.
    pose proof (solutions_sound c solve gap None m contract r run_r) as S. rewrite Forall_forall in S.
    assert (G : forall l, (forall y, In y l -> In y r) -> ForallOrdPairs (fun x y => ksubset (y_active x) (y_active y) = false) l ->
                ForallOrdPairs (fun x y => ~ incl (act i (pt x)) (act i (pt y))) l).
    { induction l as [|x l IH]; intros Hl P; [constructor|]. inversion P as [|? ? Hx Hr]; subst. constructor.
      - rewrite Forall_forall in *. intros y Hy Hincl. specialize (Hx y Hy).
        destruct (S x (Hl x (or_introl eq_refl))) as (_ & _ & Ax). destruct (S y (Hl y (or_intror Hy))) as (_ & _ & Ay).
        rewrite Ax, Ay, !cn_active_act in Hx.
        assert (T : ksubset (map vcn (act i (pt x))) (map vcn (act i (pt y))) = true).
        { apply ksubset_incl. intros k Hk. apply in_map_iff in Hk as (s & <- & Hs). apply in_map. apply Hincl. exact Hs. }
        congruence.
      - apply IH; [intros y Hy; apply Hl; right; exact Hy|exact Hr]. }
    apply G; [auto|exact NS].
  Qed.

  (* ---- 5. complete up to containment: an admissible form whose documented objective lies inside the gap of every admissible
          form contains a yielded form that scores no more ---- *)
  Hypothesis answers : forall cuts it, cuts_ok m cuts -> solve it (with_cuts m cuts) <> NotOptimal.
  Theorem cn_reported_complete (b : slot -> bool) : (forall x, b x = true -> In x (slots i)) ->
    form_ok i (filter b (slots i)) = true -> bounds_ok i (chosen i b) = true ->
    (forall b' : slot -> bool, (forall x, b' x = true -> In x (slots i)) -> form_ok i (filter b' (slots i)) = true ->
       bounds_ok i (chosen i b') = true -> (form_objective c i (chosen i b) <= (1 + gap) * form_objective c i (chosen i b'))%Q) ->
    exists y, In y r /\ incl (act i (pt y)) (filter b (slots i)) /\ (y_obj y <= form_objective c i (chosen i b))%Q.
  Proof.
    intros Hb Fo Bo Within.
    pose proof (canon_feasible c i b Hb Hnd Fo Bo) as Fa. pose proof (canon_objective c i b Hnd) as Oa.
    set (a := canon_asg i b) in *.
    assert (W : forall a', feasible m a' -> (objective m a <= (1 + gap) * objective m a')%Q).
    { intros a' Fa'. pose proof (objective_lower c i a' Fa' Hok Hpar) as Lo.
      set (b' := fun x => on a' x && memb slot_eqb x (slots i)).
      assert (Hbx : forall x, In x (slots i) -> b' x = on a' x).
      { intros x Hx. unfold b'. assert (memb slot_eqb x (slots i) = true) as ->; [|apply andb_true_r]. apply (has_In (slots i) x). exact Hx. }
      assert (Hb' : forall x, b' x = true -> In x (slots i)).
      { intros x Hx. unfold b' in Hx. apply andb_true_iff in Hx as [_ Hx]. apply (has_In (slots i) x). exact Hx. }
      assert (E1 : filter b' (slots i) = act i a') by (apply filter_ext_in_len; exact Hbx).
      assert (E2 : chosen i b' = act_structs i a').
      { unfold chosen, act_structs. apply filter_ext_in_len. intros st Hst. apply Hbx. unfold slots. apply in_map. exact Hst. }
      assert (F1 : form_ok i (filter b' (slots i)) = true) by (rewrite E1; apply (feasible_form_ok c i a' Fa')).
      assert (F2 : bounds_ok i (chosen i b') = true) by (rewrite E2; apply (feasible_bounds_ok c i a' Fa')).
      pose proof (Within b' Hb' F1 F2) as Wb. rewrite E2 in Wb.
      assert ((1 + gap) * form_objective c i (act_structs i a') <= (1 + gap) * objective m a')%Q.
      { rewrite !(Qmult_comm (1 + gap)). apply Qmult_le_compat_r; [exact Lo|lra]. }
      lra. }
    destruct (solutions_complete c solve gap None m contract (or_introl eq_refl) answers r run_r a Fa W) as (y & Hy & Sub & Le).
    exists y. split; [exact Hy|]. split; [|lra].
    pose proof (solutions_sound c solve gap None m contract r run_r) as S. rewrite Forall_forall in S. destruct (S y Hy) as (_ & _ & Ay).
    rewrite Ay, !cn_active_act in Sub. apply ksubset_incl in Sub. intros x Hx.
    assert (Hin : In (vcn x) (map vcn (act i a))) by (apply Sub; apply in_map; exact Hx).
    apply in_map_iff in Hin as (x' & E & Hx'). assert (x' = x).
    { unfold vcn in E. injection E as E1 E2. destruct x, x'. cbn [fst snd] in *. subst. reflexivity. }
    subst x'. unfold act in Hx'. apply filter_In in Hx' as [Hs Ho]. apply filter_In. split; [exact Hs|].
    unfold a in Ho. rewrite (canon_on i b) in Ho. exact Ho.
  Qed.
End Reported.
