(* Brute.v — an executable reference solver for models of the shape aldy builds (cn.py, major.py, minor.py):

     binaries b            (KBin)
     error terms e         (KCont, any bounds), each DEFINED by an equality  c*e + (binaries only) == k,  c <> 0
     abs helpers (-1)::e   (KCont lb None with lb <= 0; what lpinterface.abssum creates), with the two rows
                           h + e >= 0  and  h - e >= 0
     every other row mentions binaries and error terms only (cardinality, ordering, prod rows, exclusion cuts, ...)
     the objective has coefficients >= 0 on the helpers and anything on binaries / error terms.

   [shaped m] decides membership in that class.  On it the optimum over the continuous part is attained with every
   error term at the value its equality forces and every helper at |e|, so enumerating the 2^n assignments of the
   binaries and completing each one is exact: BruteProofs.v proves that [solve_pref pref m] satisfies the solver
   contract of EnumProofs.v for EVERY tie-break [pref] whenever [shaped m = true], and that the class is closed under
   the exclusion cuts [Enum.sols] adds.  The tie-break lets the harness follow CBC's choice among equal optima.
   No proofs here. *)
From Aldy Require Import Base Consts Lp Enum.
Open Scope Z_scope.

(* ---- classification of variables ---- *)
Inductive vclass := CBin | CErr | CHelp.
Definition is_help_key (k : vkey) : bool := match k with h :: _ => h =? -1 | [] => false end.
Definition kind_of (m : lp) (v : vkey) : option vkind := alookup vkey_eqb v (lp_vars m).
Definition vclass_of (m : lp) (v : vkey) : option vclass :=
  match kind_of m v with
  | Some KBin => Some CBin
  | Some (KCont _ _) => Some (if is_help_key v then CHelp else CErr)
  | _ => None
  end.
Definition is_binv (m : lp) (v : vkey) : bool := match vclass_of m v with Some CBin => true | _ => false end.
Definition is_errv (m : lp) (v : vkey) : bool := match vclass_of m v with Some CErr => true | _ => false end.
Definition is_helpv (m : lp) (v : vkey) : bool := match vclass_of m v with Some CHelp => true | _ => false end.
Definition err_vars (m : lp) : list vkey := filter (is_errv m) (map fst (lp_vars m)).
Definition help_vars (m : lp) : list vkey := filter (is_helpv m) (map fst (lp_vars m)).

(* ---- isolating one variable of a linear expression ---- *)
Fixpoint coef_of (v : vkey) (l : lin) : Q :=
  match l with
  | [] => 0%Q
  | (c, w) :: t => if vkey_eqb v w then (c + coef_of v t)%Q else coef_of v t
  end.
Definition drop_var (v : vkey) (l : lin) : lin := filter (fun cw => negb (vkey_eqb v (snd cw))) l.

(* the row  c*e + (binaries) == k  with c <> 0 *)
Definition is_eq (r : rel) : bool := match r with REq => true | _ => false end.
Definition is_ge (r : rel) : bool := match r with RGe => true | _ => false end.
Definition is_def_row (m : lp) (e : vkey) (r : row) : bool :=
  is_eq (r_rel r) && negb (Qeqb (coef_of e (r_lin r)) 0) &&
  forallb (fun cw => is_binv m (snd cw)) (drop_var e (r_lin r)).

(* ---- the syntactic class ---- *)
Definition row_plain (m : lp) (r : row) : bool :=
  forallb (fun cw => is_binv m (snd cw) || is_errv m (snd cw)) (r_lin r).
Definition is_abs_row (m : lp) (e : vkey) (sgn : Q) (r : row) : bool :=
  match r_lin r with
  | [(c1, h); (c2, e')] =>
      vkey_eqb h (abs_key e) && vkey_eqb e' e && Qeqb c1 1 && Qeqb c2 sgn && is_ge (r_rel r) && Qeqb (r_rhs r) 0
  | _ => false
  end.
Definition is_some_abs_row (m : lp) (r : row) : bool :=
  match r_lin r with
  | [(_, _); (_, e)] => is_errv m e && is_helpv m (abs_key e) && (is_abs_row m e 1 r || is_abs_row m e (-1) r)
  | _ => false
  end.
Definition row_ok (m : lp) (r : row) : bool := row_plain m r || is_some_abs_row m r.

Definition var_ok (m : lp) (kv : vkey * vkind) : bool :=
  match snd kv with
  | KBin => true
  | KInt _ _ => false
  | KCont lb ub =>
      if is_help_key (fst kv) then
        match lb with Some l => Qleb l 0 | None => true end &&
        match ub with Some _ => false | None => true end &&
        is_errv m (tl (fst kv)) &&
        existsb (is_abs_row m (tl (fst kv)) 1) (lp_rows m) &&
        existsb (is_abs_row m (tl (fst kv)) (-1)) (lp_rows m)
      else existsb (is_def_row m (fst kv)) (lp_rows m)
  end.

Definition obj_ok (m : lp) : bool :=
  forallb (fun cw => is_binv m (snd cw) || is_errv m (snd cw) || (is_helpv m (snd cw) && Qleb 0 (fst cw))) (lp_obj m).

Fixpoint knodup (l : list vkey) : bool :=
  match l with [] => true | x :: t => negb (kmem x t) && knodup t end.

Definition shaped (m : lp) : bool :=
  knodup (map fst (lp_vars m)) && forallb (var_ok m) (lp_vars m) && forallb (row_ok m) (lp_rows m) && obj_ok m.

(* ---- completing an assignment of the binaries ---- *)
Record defn := { d_var : vkey; d_coef : Q; d_rest : lin; d_rhs : Q }.
Definition def_of (m : lp) (e : vkey) : defn :=
  match find (is_def_row m e) (lp_rows m) with
  | Some r => {| d_var := e; d_coef := coef_of e (r_lin r); d_rest := drop_var e (r_lin r); d_rhs := r_rhs r |}
  | None => {| d_var := e; d_coef := 1%Q; d_rest := []; d_rhs := 0%Q |}
  end.
Definition plan (m : lp) : list defn := map (def_of m) (err_vars m).
Definition def_value (b : point) (d : defn) : Q :=
  Qred ((d_rhs d - eval_lin (asg_of b) (d_rest d)) / d_coef d)%Q.
Definition complete (pl : list defn) (hs : list vkey) (b : point) : point :=
  let be := b ++ map (fun d => (d_var d, def_value b d)) pl in
  be ++ map (fun h => (h, Qabs' (asg_of be (tl h)))) hs.

Fixpoint all_bin (vs : list vkey) : list point :=
  match vs with
  | [] => [[]]
  | v :: t => let r := all_bin t in map (cons (v, 0%Q)) r ++ map (cons (v, 1%Q)) r
  end.

Definition candidates (m : lp) : list point :=
  let pl := plan m in
  let hs := help_vars m in
  filter (fun c => feasibleb m (asg_of c)) (map (complete pl hs) (all_bin (binaries m))).

Definition scored (m : lp) : list (Q * point) := map (fun c => (objective m (asg_of c), c)) (candidates m).

Fixpoint min_score (l : list (Q * point)) : option Q :=
  match l with
  | [] => None
  | qc :: t => match min_score t with None => Some (fst qc) | Some q' => Some (Qmin' (fst qc) q') end
  end.

(* a minimum-objective candidate; among the minima the first one [pref] likes, else the first *)
Definition pick (pref : point -> bool) (l : list (Q * point)) : option (Q * point) :=
  match min_score l with
  | None => None
  | Some q =>
      let best := filter (fun qc => Qeqb (fst qc) q) l in
      match find (fun qc => pref (snd qc)) best with
      | Some x => Some x
      | None => hd_error best
      end
  end.

Definition solve_pref (pref : point -> bool) (m : lp) : sres :=
  match pick pref (scored m) with
  | None => Infeasible
  | Some qc => Optimal (fst qc) (snd qc)
  end.

Definition solve (m : lp) : sres := solve_pref (fun _ => false) m.

(* the solver handed to Enum.sols: same answer at every iteration *)
Definition brute (_ : Z) (m : lp) : sres := solve m.

(* follow an advised sequence of active sets: at iteration k prefer, among the optima, the point whose active set
   (w.r.t. the binaries of [m0]) is the k-th advised one *)
Definition advised (m0 : lp) (adv : list (list vkey)) (iter : Z) (m : lp) : sres :=
  let a := nth_error adv (Z.to_nat iter) in
  solve_pref (fun c => match a with Some s => kseteq (active m0 (asg_of c)) s | None => false end) m.

(* ---- what the harness asks for ---- *)
Definition run_enum (c : consts) (gap : Q) (limit : option Z) (m : lp) : out :=
  o_sols (solutions c brute gap limit m).
Definition run_enum_advised (c : consts) (gap : Q) (limit : option Z) (adv : list (list vkey)) (m : lp) : out :=
  o_sols (solutions c (advised m adv) gap limit m).
(* every feasible completed binary assignment with its objective: the table the property predicate is read from *)
Definition table (m : lp) : out :=
  o_list (fun qc => OL [o_q (fst qc); o_list o_key (active m (asg_of (snd qc)))]) (scored m).
