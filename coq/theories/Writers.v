(* Writers.v — model of the two result writers (C12).
   aldy/diplotype.py: write_decomposition (50-98), write_vcf (101-210); aldy/genotype.py: header / per-solution dispatch
   (344-366).  Rows are lists of fields; the text is fields joined by TAB, one line per row.
   Three behaviours of the shipped VCF writer carry a switch (AsShipped | Fixed), DESIGN.md section 5 item 4:
     sw_shared : `[defaultdict(int)] * len(minors)` is ONE dictionary shared by all solutions (AsShipped) / one per solution;
     sw_sub    : lost variants (`a.missing`) are not subtracted in the VCF table (AsShipped) / subtracted;
     sw_indel  : REF/ALT = op[0] / op[2] resp. 'i'+X resp. '.' / 'X, .' (AsShipped) / anchored VCF spelling from the reference.
   Parsers for both formats are part of the model (the statements of C12 speak of parsing the files back).
   No proofs here. *)
From Coq Require Import String Decimal DecimalZ.
From Aldy Require Import Base Consts NatSort Diplotype.
Import List.
Open Scope Z_scope.

(* ------------------------------------------------------------------ inputs *)
(* a variant as the writers see it: catalogue data (Diplotype.variant) + read support + effect with inference *)
Record wvar := {
  w_v : variant;
  w_cov : str;                 (* str(coverage[m]) *)
  w_fn_inf : option str        (* gene.get_functional(m)  (infer=True; the VCF writer) *)
}.
Record wcopy := {
  c_major : str; c_minor : str; c_alt : str;
  c_def : list wvar;           (* gene.alleles[major].func_muts | minors[minor].neutral_muts *)
  c_added : list wvar;
  c_missing : list wvar
}.
Record wsol := {
  s_copies : list wcopy;       (* MinorSolution.solution *)
  s_dipl : list (list Z);      (* MinorSolution.diplotype as stored by estimate_diplotype *)
  s_display : bool             (* profile.display_format *)
}.
Record wgene := {
  wg_name : str; wg_chr : str; wg_version : str;
  wg_d : dgene;
  wg_ref : list (Z * Z)        (* genome position -> nucleotide (only read by the Fixed REF/ALT spelling) *)
}.
Inductive wvariant := AsShipped | Fixed.
Record vsw := { sw_shared : wvariant; sw_sub : wvariant; sw_indel : wvariant }.
Definition shipped : vsw := {| sw_shared := AsShipped; sw_sub := AsShipped; sw_indel := AsShipped |}.
Definition fixed : vsw := {| sw_shared := Fixed; sw_sub := Fixed; sw_indel := Fixed |}.

Definition mut := (Z * str)%type.                        (* aldy.gene.Mutation *)
Definition wmut (w : wvar) : mut := (v_pos (w_v w), v_op (w_v w)).
Definition mut_eqb (a b : mut) : bool := (fst a =? fst b) && str_eqb (snd a) (snd b).
Definition mut_ltb (a b : mut) : bool :=
  if fst a <? fst b then true else if fst b <? fst a then false else str_ltb (snd a) (snd b).
Definition weqb (a b : wvar) : bool := mut_eqb (wmut a) (wmut b).
Definition wltb (a b : wvar) : bool := mut_ltb (wmut a) (wmut b).
Definition wmem (x : wvar) (l : list wvar) : bool := existsb (weqb x) l.
Definition to_allele (c : wcopy) : allele :=
  {| a_major := c_major c; a_minor := c_minor c; a_added := map w_v (c_added c); a_missing := map w_v (c_missing c);
     a_alt := c_alt c |}.

(* set(func_muts) | set(neutral_muts) | set(added)  as a duplicate-free list, then  - set(missing),  then sorted() *)
Definition all_of (c : wcopy) : list wvar := dedup weqb (c_def c ++ c_added c).
Definition carried (c : wcopy) : list wvar :=
  isort wltb (filter (fun x => negb (wmem x (c_missing c))) (all_of c)).

(* ------------------------------------------------------------------ shared rendering *)
Definition no_space (t : str) : str := filter (fun c => negb (c =? 32)) t.         (* .replace(" ", "") *)
Definition sol_major_dipl (g : wgene) (sl : wsol) : str :=
  no_space (major_diplotype (s_display sl) (wg_d g) (map to_allele (s_copies sl)) (s_dipl sl)).
Definition sol_minors (sl : wsol) : str :=                                          (* ";".join(ay.minor ... if ay.minor) *)
  join (s ";") (filter (fun m => match m with [] => false | _ => true end) (map c_minor (s_copies sl))).
Definition raw_rs (w : wvar) : str := v_rs (w_v w).                                 (* gene.get_rsid(m, default=False) *)
Definition truthy (o : option str) : option str := match o with Some (c :: r) => Some (c :: r) | _ => None end.

(* ------------------------------------------------------------------ write_decomposition *)
Definition decomp_row (sample : str) (g : wgene) (id : Z) (sl : wsol) (copy : Z) (c : wcopy) (m : option wvar) : list str :=
  [sample; wg_name g; z_str id; sol_major_dipl g sl; sol_minors sl; z_str copy; c_minor c] ++
  match m with
  | Some w => [z_str (v_pos (w_v w)); v_op (w_v w); w_cov w;
               match truthy (v_effect (w_v w)) with Some e => e | None => s "none" end; raw_rs w; []]
  | None => [[]; []; []; []; []; []; []]
  end.
Fixpoint decomp_copies (sample : str) (g : wgene) (id : Z) (sl : wsol) (copy : Z) (cs : list wcopy) : dres (list (list str)) :=
  match cs with
  | [] => Ok []
  | c :: r =>
    match c_minor c with
    | [] => Error EAssert                                                         (* assert a.minor *)
    | _ =>
      let rows := match carried c with
                  | [] => [decomp_row sample g id sl copy c None]
                  | ms => map (fun w => decomp_row sample g id sl copy c (Some w)) ms
                  end in
      bind (decomp_copies sample g id sl (copy + 1) r) (fun rest => Ok (rows ++ rest))
    end
  end.
Definition decomp_rows (sample : str) (g : wgene) (id : Z) (sl : wsol) : dres (list (list str)) :=
  decomp_copies sample g id sl 0 (s_copies sl).

Definition tab : str := [9].
Definition nl : str := [10].
Definition lines_text (ls : list str) : str := concat (map (fun l => l ++ nl) ls).   (* print(..., file=f) per line *)
Definition rows_text (rows : list (list str)) : str := lines_text (map (join tab) rows).

Definition output_cols : list str :=
  [s "Sample"; s "Gene"; s "SolutionID"; s "Major"; s "Minor"; s "Copy"; s "Allele"; s "Location"; s "Type"; s "Coverage";
   s "Effect"; s "dbSNP"; s "Code"; s "Status"].
(* genotype.py 344-362: the whole decomposition file *)
Fixpoint decomp_sols (sample : str) (g : wgene) (i : Z) (sols : list wsol) : dres (list str) :=
  match sols with
  | [] => Ok []
  | sl :: r =>
    bind (decomp_rows sample g i sl) (fun rows =>
    bind (decomp_sols sample g (i + 1) r) (fun rest =>
    Ok ((s "#Solution " ++ z_str i ++ s ": " ++ solution_nice (map to_allele (s_copies sl))) :: map (join tab) rows ++ rest)))
  end.
Definition decomp_file (sample : str) (g : wgene) (sols : list wsol) : dres str :=
  bind (decomp_sols sample g 1 sols) (fun ls => Ok (lines_text ((s "#" ++ join tab output_cols) :: ls))).

(* ------------------------------------------------------------------ write_vcf: the table *)
(* keys of all_mutations, sorted: every variant of the definition or added set of any copy of any solution *)
Definition vcf_keys (sols : list wsol) : list wvar :=
  isort wltb (dedup weqb (flat_map (fun sl => flat_map (fun c => c_def c ++ c_added c) (s_copies sl)) sols)).
(* does copy c count as carrying m in the table? *)
Definition copy_has (sub : wvariant) (c : wcopy) (m : wvar) : bool :=
  wmem m (c_def c ++ c_added c) &&
  match sub with AsShipped => true | Fixed => negb (wmem m (c_missing c)) end.
Definition cell_of (sub : wvariant) (sl : wsol) (ai : nat) (m : wvar) : bool :=
  match nth_error (s_copies sl) ai with Some c => copy_has sub c m | None => false end.
(* all_mutations[m][mi][ai] *)
Definition gt_cell (sw : vsw) (sols : list wsol) (m : wvar) (mi ai : nat) : bool :=
  match sw_shared sw with
  | Fixed => match nth_error sols mi with Some sl => cell_of (sw_sub sw) sl ai m | None => false end
  | AsShipped => existsb (fun sl => cell_of (sw_sub sw) sl ai m) sols
  end.

(* ------------------------------------------------------------------ write_vcf: REF / ALT *)
Definition refnt (g : wgene) (p : Z) : Z := match alookup Z.eqb p (wg_ref g) with Some c => c | None => 78 end.  (* 'N' *)
Fixpoint starts_with (pre t : str) : bool :=
  match pre, t with [], _ => true | x :: p, y :: r => (x =? y) && starts_with p r | _ :: _, [] => false end.
(* X>Y split at '>' *)
Fixpoint split_gt (t : str) : option (str * str) :=
  match t with
  | [] => None
  | c :: r => if c =? 62 then Some ([], r) else match split_gt r with Some (a, b) => Some (c :: a, b) | None => None end
  end.
(* '.' positions of a gapped substitution are read from the reference *)
Fixpoint fill (g : wgene) (p : Z) (t : str) : str :=
  match t with [] => [] | c :: r => (if c =? 46 then refnt g p else c) :: fill g (p + 1) r end.
(* (POS, REF, ALT) *)
Definition ref_alt (v : wvariant) (g : wgene) (m : mut) : Z * str * str :=
  let '(pos, op) := m in
  match v with
  | AsShipped =>
    let ref := firstn 1 op in
    if nth 1 op 0 =? 62 then (pos + 1, ref, firstn 1 (skipn 2 op))
    else if str_eqb (firstn 3 op) (s "ins") then (pos + 1, ref, ref ++ skipn 3 op)
    else (pos + 1, s ".", skipn 3 op ++ s ", .")
  | Fixed =>
    if str_eqb (firstn 3 op) (s "ins") then (pos + 1, [refnt g pos], refnt g pos :: skipn 3 op)
    else if str_eqb (firstn 3 op) (s "del") then (pos, refnt g (pos - 1) :: skipn 3 op, [refnt g (pos - 1)])
    else match split_gt op with
         | Some (x, y) => (pos + 1, fill g pos x, fill g pos y)
         | None => (pos + 1, op, op)
         end
  end.

(* ------------------------------------------------------------------ write_vcf: records *)
Definition vcf_effect (w : wvar) : str :=
  match truthy (w_fn_inf w) with
  | Some e => map (fun c => if (c =? 32) || (c =? 9) || (c =? 59) then 95 else c) e
  | None => s "none"
  end.
Definition bit (b : bool) : str := if b then s "1" else s "0".
(* GT:DP:MA:MI of one sample column *)
Definition vcf_cell (sw : vsw) (sols : list wsol) (m : wvar) (mi : nat) (sl : wsol) : str :=
  let n := length (s_copies sl) in
  let gts := map (gt_cell sw sols m mi) (seq 0 n) in
  let named (f : wcopy -> str) :=
    join (s ",") (map (fun bc : bool * wcopy => if fst bc then s "*" ++ f (snd bc) else s "-") (combine gts (s_copies sl))) in
  join (s ":") [join (s "|") (map bit gts); w_cov m; named c_major; named c_minor].
Fixpoint mapi {A B} (f : nat -> A -> B) (i : nat) (l : list A) : list B :=
  match l with [] => [] | x :: r => f i x :: mapi f (S i) r end.
Definition vcf_record (sw : vsw) (g : wgene) (sols : list wsol) (m : wvar) : list str :=
  let '(pos, ref, alt) := ref_alt (sw_indel sw) g (wmut m) in
  [wg_chr g; z_str pos; raw_rs m; ref; alt; s "0"; s "PASS";
   s "EFFECT=" ++ vcf_effect m ++ s ";GENE=" ++ wg_name g; s "GT:DP:MA:MI"]
  ++ mapi (vcf_cell sw sols m) 0 sols.

Definition vcf_meta (g : wgene) : list str :=
  [s "##fileformat=VCFv4.2";
   s "##source=aldy-v" ++ wg_version g;
   s "##INFO=<ID=ANN,Number=1,Type=String,Description=""Location within " ++ wg_name g ++ s """>";
   s "##INFO=<ID=TYPE,Number=1,Type=String,Description=""Mutation kind"">";
   s "##INFO=<ID=GENE,Number=1,Type=String,Description=""Gene"">";
   s "##FORMAT=<ID=GT,Number=1,Type=String,Description=""Genotype"">";
   s "##FORMAT=<ID=DP,Number=1,Type=Integer,Description=""Read Depth"">";
   s "##FORMAT=<ID=MA,Number=1,Type=String,Description=""Major genotype star-allele calls"">";
   s "##FORMAT=<ID=MI,Number=1,Type=String,Description=""Minor genotype star-allele calls"">"].
Definition vcf_colnames (sample : str) (g : wgene) (sols : list wsol) : list str :=
  [s "#CHROM"; s "POS"; s "ID"; s "REF"; s "ALT"; s "QUAL"; s "FILTER"; s "INFO"; s "FORMAT"]
  ++ mapi (fun mi sl => sample ++ s ":" ++ z_str (Z.of_nat mi) ++ s ":" ++ sol_major_dipl g sl) 0 sols.
Definition vcf_rows (sw : vsw) (g : wgene) (sols : list wsol) : list (list str) :=
  map (vcf_record sw g sols) (vcf_keys sols).
Definition vcf_file (sw : vsw) (sample : str) (g : wgene) (sols : list wsol) : dres str :=
  if forallb (fun sl => forallb (fun c => match c_minor c with [] => false | _ => true end) (s_copies sl)) sols
  then Ok (lines_text (vcf_meta g ++ [join tab (vcf_colnames sample g sols)] ++ map (join tab) (vcf_rows sw g sols)))
  else Error EAssert.                                                             (* assert a.minor *)

(* ------------------------------------------------------------------ parsers *)
(* t.split(c) *)
Fixpoint split_on (c : Z) (t : str) : list str :=
  match t with
  | [] => [[]]
  | x :: r => if x =? c then [] :: split_on c r
              else match split_on c r with h :: tl => (x :: h) :: tl | [] => [[x]] end
  end.
Definition text_lines (t : str) : list str := removelast (split_on 10 t).             (* every line ends with "\n" *)
Definition is_comment (l : str) : bool := match l with 35 :: _ => true | _ => false end.
(* decimal int *)
Fixpoint str_uint (t : str) : option Decimal.uint :=
  match t with
  | [] => Some Nil
  | c :: r => match str_uint r with
              | None => None
              | Some u => if c =? 48 then Some (D0 u) else if c =? 49 then Some (D1 u) else if c =? 50 then Some (D2 u)
                          else if c =? 51 then Some (D3 u) else if c =? 52 then Some (D4 u) else if c =? 53 then Some (D5 u)
                          else if c =? 54 then Some (D6 u) else if c =? 55 then Some (D7 u) else if c =? 56 then Some (D8 u)
                          else if c =? 57 then Some (D9 u) else None
              end
  end.
Definition str_z (t : str) : option Z :=
  match t with
  | [] => None
  | 45 :: r => match r with [] => None | _ => option_map (fun u => Z.of_int (Decimal.Neg u)) (str_uint r) end
  | _ => option_map (fun u => Z.of_int (Decimal.Pos u)) (str_uint t)
  end.

(* one parsed row of the decomposition file *)
Record drow := {
  d_sample : str; d_gene : str; d_id : Z; d_major : str; d_minors : str; d_copy : Z; d_allele : str;
  d_var : option (Z * str * str * str * str)     (* position (0-based), change, read support, effect, dbSNP *)
}.
Definition parse_drow (fs : list str) : option drow :=
  match fs with
  | sa :: ge :: id :: ma :: mi :: cp :: al :: loc :: ty :: cov :: eff :: rs :: rest =>
    match str_z id, str_z cp with
    | Some id', Some cp' =>
      match loc with
      | [] => Some {| d_sample := sa; d_gene := ge; d_id := id'; d_major := ma; d_minors := mi; d_copy := cp'; d_allele := al;
                      d_var := None |}
      | _ => match str_z loc with
             | Some p => Some {| d_sample := sa; d_gene := ge; d_id := id'; d_major := ma; d_minors := mi; d_copy := cp';
                                 d_allele := al; d_var := Some (p, ty, cov, eff, rs) |}
             | None => None
             end
      end
    | _, _ => None
    end
  | _ => None
  end.
Fixpoint all_some {A} (l : list (option A)) : option (list A) :=
  match l with
  | [] => Some []
  | None :: _ => None
  | Some x :: r => match all_some r with Some r' => Some (x :: r') | None => None end
  end.
Definition parse_decomp (t : str) : option (list drow) :=
  all_some (map (fun l => parse_drow (split_on 9 l)) (filter (fun l => negb (is_comment l)) (text_lines t))).

(* what the decomposition file is required to say: per copy, the carried variants (or one empty row) *)
Definition spec_drow (sample : str) (g : wgene) (id : Z) (sl : wsol) (copy : Z) (c : wcopy) (m : option wvar) : drow :=
  {| d_sample := sample; d_gene := wg_name g; d_id := id; d_major := sol_major_dipl g sl; d_minors := sol_minors sl;
     d_copy := copy; d_allele := c_minor c;
     d_var := match m with
              | None => None
              | Some w => Some (v_pos (w_v w), v_op (w_v w), w_cov w,
                                match truthy (v_effect (w_v w)) with Some e => e | None => s "none" end, raw_rs w)
              end |}.
Fixpoint spec_copies (sample : str) (g : wgene) (id : Z) (sl : wsol) (copy : Z) (cs : list wcopy) : list drow :=
  match cs with
  | [] => []
  | c :: r => (match carried c with
               | [] => [spec_drow sample g id sl copy c None]
               | ms => map (fun w => spec_drow sample g id sl copy c (Some w)) ms
               end) ++ spec_copies sample g id sl (copy + 1) r
  end.
Fixpoint spec_decomp (sample : str) (g : wgene) (i : Z) (sols : list wsol) : list drow :=
  match sols with [] => [] | sl :: r => spec_copies sample g i sl 0 (s_copies sl) ++ spec_decomp sample g (i + 1) r end.

(* one parsed VCF record: POS REF ALT and per sample column (GT bits, MA names, MI names) *)
Record vrow := { r_pos : Z; r_id : str; r_ref : str; r_alt : str; r_cells : list (list bool * str * list str * list str) }.
Definition parse_bit (t : str) : option bool :=
  match t with [48] => Some false | [49] => Some true | _ => None end.
Definition parse_cell (t : str) : option (list bool * str * list str * list str) :=
  match split_on 58 t with
  | [gt; dp; ma; mi] =>
    match all_some (map parse_bit (split_on 124 gt)) with
    | Some bits => Some (bits, dp, split_on 44 ma, split_on 44 mi)
    | None => None
    end
  | _ => None
  end.
Definition parse_vrow (fs : list str) : option vrow :=
  match fs with
  | _ :: pos :: id :: ref :: alt :: _ :: _ :: _ :: _ :: cells =>
    match str_z pos, all_some (map parse_cell cells) with
    | Some p, Some cs => Some {| r_pos := p; r_id := id; r_ref := ref; r_alt := alt; r_cells := cs |}
    | _, _ => None
    end
  | _ => None
  end.
Definition parse_vcf (t : str) : option (list vrow) :=
  all_some (map (fun l => parse_vrow (split_on 9 l)) (filter (fun l => negb (is_comment l)) (text_lines t))).
(* (POS, REF, ALT) -> Mutation, for the anchored spelling (no gaps) *)
Definition mut_of_rec (pos : Z) (ref alt : str) : mut :=
  if (length ref =? length alt)%nat then (pos - 1, ref ++ s ">" ++ alt)
  else if (length ref =? 1)%nat then (pos - 1, s "ins" ++ skipn 1 alt)
  else (pos, s "del" ++ skipn 1 ref).
(* per solution column, per copy: the variants whose GT bit is 1 *)
Definition col_copies (rows : list vrow) (mi : nat) : nat :=
  match rows with [] => O | r :: _ => match nth_error (r_cells r) mi with Some (b, _, _, _) => length b | None => O end end.
Definition recovered (rows : list vrow) (mi ai : nat) : list mut :=
  flat_map (fun r => match nth_error (r_cells r) mi with
                     | Some (b, _, _, _) => if nth ai b false then [mut_of_rec (r_pos r) (r_ref r) (r_alt r)] else []
                     | None => []
                     end) rows.

(* ------------------------------------------------------------------ side conditions of the round-trip theorems *)
(* no field may contain a character the format splits on *)
Definition clean_of (seps : list Z) (t : str) : bool := forallb (fun c => negb (memb Z.eqb c seps)) t.
Definition clean : str -> bool := clean_of [9; 10].
Definition clean_wvar (w : wvar) : bool :=
  clean (v_op (w_v w)) && clean (w_cov w) && clean (raw_rs w) &&
  clean (match truthy (v_effect (w_v w)) with Some e => e | None => [] end).
Definition clean_copy (c : wcopy) : bool := clean (c_minor c) && forallb clean_wvar (carried c).
Definition clean_sol (g : wgene) (sl : wsol) : bool :=
  clean (sol_major_dipl g sl) && clean (sol_minors sl) && clean (solution_nice (map to_allele (s_copies sl))) &&
  forallb clean_copy (s_copies sl).
Definition decomp_clean (sample : str) (g : wgene) (sols : list wsol) : bool :=
  clean sample && negb (is_comment sample) && clean (wg_name g) && forallb (clean_sol g) sols.
Definition minors_ok (sols : list wsol) : bool :=
  forallb (fun sl => forallb (fun c => match c_minor c with [] => false | _ => true end) (s_copies sl)) sols.

(* ------------------------------------------------------------------ what "REF/ALT spell the variant" means *)
(* the reference as a list of nucleotides indexed from 0; a VCF record (POS, REF, ALT) replaces REF by ALT at index POS-1 *)
Definition apply_edit (rs : list Z) (start : nat) (ref alt : str) : list Z :=
  firstn start rs ++ alt ++ skipn (start + length ref) rs.
Definition ref_matches (rs : list Z) (start : nat) (ref : str) : Prop := firstn (length ref) (skipn start rs) = ref.
(* aldy's variants: X>Y replaces X at pos; insX goes AFTER base pos; delX removes X starting at pos *)
Inductive vkind := KSub (x y : str) | KIns (x : str) | KDel (x : str).
Definition op_text (k : vkind) : str :=
  match k with KSub x y => x ++ s ">" ++ y | KIns x => s "ins" ++ x | KDel x => s "del" ++ x end.
Definition apply_var (rs : list Z) (pos : nat) (k : vkind) : list Z :=
  match k with
  | KSub x y => apply_edit rs pos x y
  | KIns x => apply_edit rs (pos + 1) [] x
  | KDel x => apply_edit rs pos x []
  end.
Definition is_nt (c : Z) : bool := memb Z.eqb c [65; 67; 71; 84; 78].          (* A C G T N *)
(* well-formed operations: nucleotides only, X non-empty, substitutions of equal length *)
Definition kind_ok (k : vkind) : bool :=
  match k with
  | KSub x y => forallb is_nt x && forallb is_nt y && (length x =? length y)%nat && negb (length x =? 0)%nat
  | KIns x => forallb is_nt x && negb (length x =? 0)%nat
  | KDel x => forallb is_nt x && negb (length x =? 0)%nat
  end.
Definition classify (op : str) : option vkind :=
  if str_eqb (firstn 3 op) (s "ins") then Some (KIns (skipn 3 op))
  else if str_eqb (firstn 3 op) (s "del") then Some (KDel (skipn 3 op))
  else match split_gt op with Some (x, y) => Some (KSub x y) | None => None end.
Definition op_ok (op : str) : bool := match classify op with Some k => kind_ok k | None => false end.

(* side conditions of the VCF round trip: separators of each level do not occur inside the fields of that level *)
Definition names_clean (sols : list wsol) : bool :=
  forallb (fun sl => negb (match s_copies sl with [] => true | _ => false end) &&
                     forallb (fun c => clean_of [58; 44; 9; 10] (c_major c) && clean_of [58; 44; 9; 10] (c_minor c)) (s_copies sl)) sols.
Definition record_clean (g : wgene) (m : wvar) : bool :=
  let '(pos, ref, alt) := ref_alt Fixed g (wmut m) in
  clean ref && clean alt && clean (raw_rs m) && clean_of [58; 9; 10] (w_cov m) &&
  clean (s "EFFECT=" ++ vcf_effect m ++ s ";GENE=" ++ wg_name g) && op_ok (v_op (w_v m)).
Definition vcf_clean (sample : str) (g : wgene) (sols : list wsol) : bool :=
  forallb (clean_of [10]) (vcf_meta g) && clean_of [10] (join tab (vcf_colnames sample g sols)) && clean (wg_chr g) &&
  negb (is_comment (wg_chr g)) && names_clean sols && forallb (record_clean g) (vcf_keys sols).

(* ------------------------------------------------------------------ encoders *)
Definition o_rows (r : dres (list (list str))) : out := o_dres (o_list (o_list o_str)) r.
Definition o_text (r : dres str) : out := o_dres o_str r.
Definition o_mut (m : mut) : out := OL [OZ (fst m); o_str (snd m)].
Definition o_drow (d : drow) : out :=
  OL [o_str (d_sample d); o_str (d_gene d); OZ (d_id d); o_str (d_major d); o_str (d_minors d); OZ (d_copy d); o_str (d_allele d);
      o_opt (fun v => match v with (p, ty, cov, eff, rs) => OL [OZ p; o_str ty; o_str cov; o_str eff; o_str rs] end) (d_var d)].
Definition o_vrow (r : vrow) : out :=
  OL [OZ (r_pos r); o_str (r_id r); o_str (r_ref r); o_str (r_alt r);
      o_list (fun c => match c with (b, dp, ma, mi) => OL [o_list o_bool b; o_str dp; o_list o_str ma; o_list o_str mi] end) (r_cells r)].
