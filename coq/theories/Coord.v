(* Coord.v — coordinate systems of a gene database (C08, used by C09/C13).
   gene.py: _init_basic (alignment string -> chr_to_ref / ref_to_chr, lookup range and sequence, 407-438),
   __getitem__ (362-379), process_mutation (512-554: per-kind, per-strand conversion), _reverse_op (244-253),
   get_refseq (314-330), get_functional (255-288); sam.py: _realign_indels anchoring (466-495), CIGAR indel keys (661-681);
   common.py: rev_comp, seq_to_amino.
   Sequences are [str] (code points), so every character the Python code can meet has an image ('.', 'N', lower case).
   The complement table and the codon table are DATA handed over by the harness from the running aldy.common
   (theorems are stated for every table with [tab_wf]).  No proofs here. *)
From Coq Require Import String.
From Aldy Require Import Base Consts.
Import List.
Open Scope Z_scope.

(* ------------------------------------------------------------------ complement, rev_comp (common.py:86,132-135) *)
Definition ctab := list (Z * Z).
Definition comp (t : ctab) (x : Z) : Z := match alookup Z.eqb x t with Some y => y | None => x end.
Definition rev_comp (t : ctab) (x : str) : str := map (comp t) (rev x).
Definition is_upper (c : Z) : bool := (65 <=? c) && (c <=? 90).
(* allele alphabet: upper-case letters and '.' *)
Definition is_nt (c : Z) : bool := is_upper c || (c =? 46).
(* a table is well-formed when complementing twice is the identity and it maps letters to letters *)
Definition tab_wf (t : ctab) : bool :=
  forallb (fun kv => (comp t (comp t (fst kv)) =? fst kv) && is_upper (fst kv) && is_upper (snd kv)) t.
Definition std_tab : ctab := [(65, 84); (84, 65); (67, 71); (71, 67)].     (* A<->T, C<->G *)

(* ------------------------------------------------------------------ sequences with an offset (a window of RefSeq or of the genome) *)
Definition iseq := (Z * str)%type.                    (* (0-based coordinate of the first symbol, symbols) *)
Definition sget (w : iseq) (i : Z) : Z :=
  if fst w <=? i then nth (Z.to_nat (i - fst w)) (snd w) 0 else 0.      (* 0 = outside the data given *)
Definition covers (w : iseq) (a m : Z) : bool := (fst w <=? a) && (a + m <=? fst w + Z.of_nat (length (snd w))) && (0 <=? m).
Fixpoint zseq (p : Z) (n : nat) : list Z := match n with O => [] | S k => p :: zseq (p + 1) k end.
Definition slice (w : iseq) (a b : Z) : str := map (sget w) (zseq a (Z.to_nat (b - a))).       (* seq[a:b], a <= b *)

(* ------------------------------------------------------------------ alignment -> aligned blocks -> the two maps *)
Inductive cop := CM | CI | CD.
Record align := {
  a_plus : bool;                (* strand == "+" *)
  a_len : Z;                    (* len(self.seq) *)
  a_start : Z; a_end : Z;       (* 1-based start, end of the mapping *)
  a_cigar : list (cop * Z) }.
Definition sg (al : align) : Z := if a_plus al then 1 else -1.
Definition block := (Z * Z * Z)%type.    (* (chr start, ref start, size): chr c+k <-> ref r + k*strand for 0 <= k < size *)
Fixpoint walk (s pc pr : Z) (cg : list (cop * Z)) : list block :=
  match cg with
  | [] => []
  | (CM, sz) :: t => (pc, pr, sz) :: walk s (pc + sz) (pr + sz * s) t
  | (CI, sz) :: t => walk s pc (pr + sz * s) t
  | (CD, sz) :: t => walk s (pc + sz) pr t
  end.
Definition blocks (al : align) : list block :=
  walk (sg al) (a_start al - 1) (if a_plus al then 0 else a_len al - 1) (a_cigar al).
Definition in_chr (p : Z) (b : block) : bool := let '(c, _, n) := b in (c <=? p) && (p <? c + n).
Definition in_ref (s q : Z) (b : block) : bool := let '(_, r, n) := b in let d := (q - r) * s in (0 <=? d) && (d <? n).
Definition chr_to_ref (al : align) (p : Z) : option Z :=
  match find (in_chr p) (blocks al) with Some (c, r, _) => Some (r + (p - c) * sg al) | None => None end.
Definition ref_to_chr (al : align) (q : Z) : option Z :=
  match find (in_ref (sg al) q) (blocks al) with Some (c, r, _) => Some (c + (q - r) * sg al) | None => None end.
(* lowest RefSeq index of a block *)
Definition blk_lo (s : Z) (b : block) : Z := let '(_, r, n) := b in if 0 <? s then r else r - n + 1.
(* sizes are non-negative (a Python dict would otherwise be overwritten), every block lies inside the lookup range and inside RefSeq *)
Definition cigar_ok (cg : list (cop * Z)) : bool := forallb (fun x => 0 <=? snd x) cg.
Definition align_ok (al : align) : bool :=
  cigar_ok (a_cigar al) &&
  forallb (fun b : block => let '(c, r, n) := b in
     (a_start al - 1 <=? c) && (c + n <=? a_end al - 1) && (0 <=? blk_lo (sg al) b) && (blk_lo (sg al) b + n <=? a_len al)) (blocks al).

(* ------------------------------------------------------------------ genome-oriented lookup (gene.py:428-438, 362-379) *)
Definition orient (t : ctab) (plus : bool) (x : str) : str := if plus then x else rev_comp t x.
Definition lookup_at (t : ctab) (al : align) (seq : iseq) (i : Z) : Z :=
  if (a_start al - 1 <=? i) && (i <? a_end al - 1) then
    match chr_to_ref al i with
    | Some q => if a_plus al then sget seq q else comp t (sget seq q)
    | None => 78                                                     (* "N" *)
    end
  else 78.
Definition lookup_slice (t : ctab) (al : align) (seq : iseq) (i j : Z) : str :=      (* gene[i:j] *)
  map (lookup_at t al seq) (zseq i (Z.to_nat (j - i))).

(* ------------------------------------------------------------------ operations: aldy's strings, structured *)
Inductive vop :=
  | Sub (l r : str)            (* "l>r"; '.' in r keeps the base *)
  | Ins (x : str)              (* "insX"  *)
  | Del (d : str)              (* "delD"  *)
  | DelIns (d i : str)         (* "delDinsI" *)
  | Other (t : str).           (* anything else: passed through unchanged *)

Fixpoint is_prefix (p t : str) : bool :=
  match p, t with
  | [], _ => true
  | x :: p', y :: t' => (x =? y) && is_prefix p' t'
  | _, [] => false
  end.
(* first occurrence of [pat] (non-empty) in [t]: (text before, text after) *)
Fixpoint find_sub (pat t : str) : option (str * str) :=
  if is_prefix pat t then Some ([], skipn (length pat) t)
  else match t with
       | [] => None
       | c :: t' => match find_sub pat t' with Some (a, b) => Some (c :: a, b) | None => None end
       end.
Definition contains (pat t : str) : bool := match find_sub pat t with Some _ => true | None => false end.
(* Python `a, b = t.split(pat)`: defined iff exactly one occurrence *)
Definition split2 (pat t : str) : option (str * str) :=
  match find_sub pat t with
  | Some (a, b) => if contains pat b then None else Some (a, b)
  | None => None
  end.
Definition GT := [62].  Definition INS := [105; 110; 115].  Definition DEL := [100; 101; 108].
(* the case analysis of gene.py:529-543 / 245-253; None = Python raises (ValueError on unpacking) *)
Definition parse_op (op : str) : option vop :=
  if contains GT op then match split2 GT op with Some (l, r) => Some (Sub l r) | None => None end
  else if is_prefix INS op then Some (Ins (skipn 3 op))
  else if is_prefix DEL op then
    let rest := skipn 3 op in
    if contains INS rest then match split2 INS rest with Some (d, i) => Some (DelIns d i) | None => None end
    else Some (Del rest)
  else Some (Other op).
Definition print_op (v : vop) : str :=
  match v with
  | Sub l r => l ++ GT ++ r
  | Ins x => INS ++ x
  | Del d => DEL ++ d
  | DelIns d i => DEL ++ d ++ INS ++ i
  | Other t => t
  end.
Definition rc_op (t : ctab) (v : vop) : vop :=
  match v with
  | Sub l r => Sub (rev_comp t l) (rev_comp t r)
  | Ins x => Ins (rev_comp t x)
  | Del d => Del (rev_comp t d)
  | DelIns d i => DelIns (rev_comp t d) (rev_comp t i)
  | Other u => Other u
  end.
Definition zlen (x : str) : Z := Z.of_nat (length x).
(* reverse strand: how far the 1-based written position moves before the 0-based cast (gene.py:532,535,540,542) *)
Definition anchor_shift (v : vop) : Z :=
  match v with
  | Sub l _ => zlen l - 1
  | Ins _ => 1
  | Del d => zlen d - 1          (* len(op) - 4 *)
  | DelIns d _ => zlen d - 1
  | Other _ => 0
  end.
(* 0-based RefSeq index looked up in ref_to_chr *)
Definition anchor (plus : bool) (p : Z) (v : vop) : Z := if plus then p - 1 else p + anchor_shift v - 1.

(* conversion of a written variant (1-based RefSeq position, operation) *)
Definition convert_v (t : ctab) (al : align) (p : Z) (v : vop) : option (Z * vop) :=
  match ref_to_chr al (anchor (a_plus al) p v) with
  | Some g => Some (g, if a_plus al then v else rc_op t v)
  | None => None                                        (* "Ignoring ... (not in RefSeq)" *)
  end.
Inductive cres := CLoaded (g : Z) (op : str) | CIgnored | CError.
Definition convert (t : ctab) (al : align) (p : Z) (op : str) : cres :=
  if a_plus al then
    match ref_to_chr al (p - 1) with Some g => CLoaded g op | None => CIgnored end      (* no parsing on '+' *)
  else match parse_op op with
       | None => CError
       | Some v => match convert_v t al p v with Some (g, v') => CLoaded g (print_op v') | None => CIgnored end
       end.
(* _reverse_op (gene.py:244-253): None = the assert on del+ins *)
Definition reverse_op (t : ctab) (op : str) : option str :=
  match parse_op op with
  | Some (DelIns _ _) => None
  | Some v => Some (print_op (rc_op t v))
  | None => None
  end.

(* ------------------------------------------------------------------ applying a variant to a sequence *)
Definition seg (d : str) (i k : nat) : str := firstn k (skipn i d).
Definition splice (d : str) (i k : nat) (r : str) : str := firstn i d ++ r ++ skipn (i + k) d.
Fixpoint merge (r o : str) : str :=           (* '.' keeps the base of the sequence *)
  match r, o with
  | c :: r', x :: o' => (if c =? 46 then x else c) :: merge r' o'
  | _, _ => r
  end.
(* [i] = 0-based coordinate of the variant in the coordinate system of [w]; an insertion goes AFTER its base *)
Definition apply_at (v : vop) (i : Z) (w : iseq) : str :=
  let d := snd w in
  match v with
  | Sub l r => let j := Z.to_nat (i - fst w) in splice d j (length l) (merge r (seg d j (length l)))
  | Ins x => splice d (Z.to_nat (i + 1 - fst w)) 0 x
  | Del dl => splice d (Z.to_nat (i - fst w)) (length dl) []
  | DelIns dl x => splice d (Z.to_nat (i - fst w)) (length dl) x
  | Other _ => d
  end.
Definition apply_refseq (p : Z) (v : vop) (w : iseq) : str := apply_at v (p - 1) w.      (* as written: 1-based *)
Definition apply_genome (g : Z) (v : vop) (w : iseq) : str := apply_at v g w.            (* as loaded: 0-based *)

(* reference allele against a sequence; '.' matches anything *)
Fixpoint match_dots (l o : str) : bool :=
  match l, o with
  | [], [] => true
  | c :: l', x :: o' => ((c =? 46) || (c =? x)) && match_dots l' o'
  | _, _ => false
  end.
Definition same_dots (l r : str) : bool :=
  (length l =? length r)%nat && forallb (fun p => Bool.eqb (fst p =? 46) (snd p =? 46)) (combine l r).
Definition ref_match (v : vop) (i : Z) (w : iseq) : bool :=
  let j := Z.to_nat (i - fst w) in
  match v with
  | Sub l r => match_dots l (seg (snd w) j (length l))
  | Del d | DelIns d _ => str_eqb d (seg (snd w) j (length d))
  | _ => true
  end.
(* first and last 0-based RefSeq index the written variant touches (an insertion: its two flanking bases) *)
Definition span (p : Z) (v : vop) : Z * Z :=
  match v with
  | Sub l _ => (p - 1, p - 1 + zlen l - 1)
  | Ins _ => (p - 1, p)
  | Del d | DelIns d _ => (p - 1, p - 1 + zlen d - 1)
  | Other _ => (p - 1, p - 1)
  end.
Definition shape_ok (v : vop) : bool :=
  match v with
  | Sub l r => (0 <? zlen l) && same_dots l r
  | Del d | DelIns d _ => 0 <? zlen d
  | Ins _ => true
  | Other _ => false
  end.
(* RefSeq window [a, a+m) lies in one aligned block *)
Definition window_in_block (al : align) (a m : Z) (b : block) : bool :=
  let '(_, _, n) := b in (0 <? m) && (blk_lo (sg al) b <=? a) && (a + m <=? blk_lo (sg al) b + n).
Definition window_ok (al : align) (a m : Z) : bool := existsb (window_in_block al a m) (blocks al).
(* genome coordinate of the first symbol of the genome-side window *)
Definition gwin (al : align) (a m : Z) : option Z := ref_to_chr al (if a_plus al then a else a + m - 1).
(* THE side condition of the statement: reference allele matches RefSeq, span inside the window, window inside one block *)
Definition variant_ok (al : align) (seq : iseq) (p : Z) (v : vop) (a m : Z) : bool :=
  shape_ok v && window_ok al a m && covers seq a m &&
  (a <=? fst (span p v)) && (snd (span p v) <? a + m) && ref_match v (p - 1) seq.
(* both haplotypes of the statement on the window; equal by theorem variant_equiv *)
Definition hap_refseq (seq : iseq) (p : Z) (v : vop) (a m : Z) : str := apply_refseq p v (a, slice seq a (a + m)).
Definition hap_genome (t : ctab) (al : align) (seq : iseq) (p : Z) (v : vop) (a m : Z) : option str :=
  match convert_v t al p v, gwin al a m with
  | Some (g, v'), Some c => Some (orient t (a_plus al) (apply_genome g v' (c, lookup_slice t al seq c (c + m))))
  | _, _ => None
  end.

(* ------------------------------------------------------------------ loaded table, get_refseq (gene.py:550-553, 314-330) *)
Definition mkey := (Z * str)%type.
Definition mkey_eqb (a b : mkey) : bool := (fst a =? fst b) && str_eqb (snd a) (snd b).
Definition minfo := (Z * Z * str)%type.            (* (0-based RefSeq index looked up, written position - 1, written op) *)
Definition setdefault (k : mkey) (v : minfo) (m : list (mkey * minfo)) : list (mkey * minfo) :=
  if amem mkey_eqb k m then m else m ++ [(k, v)].
Definition load_muts (t : ctab) (al : align) (ws : list (Z * str)) : list (mkey * minfo) :=
  fold_left (fun m w =>
     match convert t al (fst w) (snd w) with
     | CLoaded g op => setdefault (g, op) (anchor (a_plus al) (fst w) (match parse_op (snd w) with Some v => v | None => Other [] end),
                                           fst w - 1, snd w) m
     | _ => m
     end) ws [].
(* get_refseq(pos, op) without from_atg: (number printed, operation printed); None = "-" *)
Definition get_refseq (m : list (mkey * minfo)) (k : mkey) : option (Z * str) :=
  match alookup mkey_eqb k m with Some (_, p0, op) => Some (p0 + 1, op) | None => None end.

(* ------------------------------------------------------------------ indel anchoring downstream (sam.py) *)
(* sam.py:467-481: Variant(rname, p + 1, o1, o2) built from a catalogued indel; [lk] = gene[.] *)
Definition realign_variant (lk : Z -> Z) (pos : Z) (v : vop) : option (Z * str * str) :=
  match v with
  | DelIns pd pi => Some (pos + 1, pd, pi)
  | Del d => Some (pos - 1 + 1, lk (pos - 1) :: d, [lk (pos - 1)])
  | Ins x => Some (pos + 1, [lk pos], lk pos :: x)
  | _ => None
  end.
(* a VCF-style variant (1-based pos, ref, alt) applied to a sequence *)
Definition apply_vcf (x : Z * str * str) (w : iseq) : str :=
  let '(p1, r, a) := x in splice (snd w) (Z.to_nat (p1 - 1 - fst w)) (length r) a.
(* sam.py:485-494: the key under which an equivalent indel is expected from a CIGAR *)
Definition eq_key (x : Z * str * str) : option (Z * vop) :=
  let '(p1, r, a) := x in
  if (length r <? length a)%nat && is_prefix r a then Some (p1 - 1 + zlen r, Ins (skipn (length r) a))
  else if (length a <? length r)%nat && is_prefix a r then Some (p1 - 1 + zlen a, Del (skipn (length a) r))
  else None.
(* sam.py:672 / 662: what a CIGAR I / D at reference position [start] denotes and the key it is recorded under *)
Definition cigar_ins_key (start : Z) (x : str) : Z * vop := (start, Ins x).
Definition apply_cigar_ins (start : Z) (x : str) (w : iseq) : str := splice (snd w) (Z.to_nat (start - fst w)) 0 x.
Definition cigar_del_key (lk : Z -> Z) (start : Z) (size : nat) : Z * vop := (start, Del (map lk (zseq start size))).
Definition apply_cigar_del (start : Z) (size : nat) (w : iseq) : str := splice (snd w) (Z.to_nat (start - fst w)) size [].
(* the two reference bases (0-based, coordinate system of the argument) between which an insertion is placed *)
Definition gap_db (pos : Z) : Z * Z := (pos, pos + 1).                                   (* database reading: after its base *)
Definition gap_vcf (x : Z * str * str) : Z * Z := let '(p1, r, _) := x in (p1 - 1 + zlen r - 1, p1 - 1 + zlen r).
Definition gap_cigar (start : Z) : Z * Z := (start - 1, start).

(* ------------------------------------------------------------------ get_functional inference (gene.py:255-288) *)
Definition codons := list (str * Z).
Fixpoint to_amino (ct : codons) (fuel : nat) (x : str) : option str :=     (* None = KeyError *)
  match fuel with
  | O => Some []
  | S f => match x with
           | a :: b :: c :: r => match alookup str_eqb [a; b; c] ct, to_amino ct f r with
                                 | Some aa, Some rest => Some (aa :: rest)
                                 | _, _ => None
                                 end
           | _ => Some []
           end
  end.
Definition seq_to_amino (ct : codons) (x : str) : option str := to_amino ct (S (length x)) x.
Fixpoint first_diff (a b : str) (i : Z) : option (Z * Z * Z) :=      (* (reference aa, index, new aa) *)
  match a, b with
  | x :: a', y :: b' => if x =? y then first_diff a' b' (i + 1) else Some (y, i, x)
  | _, _ => None
  end.
Inductive fres := FNone | FIndel | FChange (ref_aa idx new_aa : Z) | FError.
(* [cds] : the exons as (start, end, sequence seq[start:end]) sorted; [novel] variant (pos, op) in genome terms,
   not catalogued.  `infer=True`. *)
Definition in_exon (q : Z) (e : Z * Z * str) : bool := let '(s0, e0, _) := e in (s0 <=? q) && (q <? e0).
Definition infer_functional (t : ctab) (ct : codons) (al : align) (cds : list (Z * Z * str)) (pos : Z) (op : str) : fres :=
  match chr_to_ref al pos with
  | None => FNone
  | Some q =>
    if existsb (in_exon q) cds then
      if negb (contains GT op) then FIndel
      else
        match (if a_plus al then Some op else reverse_op t op) with
        | None => FError
        | Some op' =>
          match op' with
          | _ :: _ :: c2 :: _ =>
            if c2 =? 78 then FNone
            else
              let new := flat_map (fun e : Z * Z * str => let '(s0, e0, x) := e in
                           if in_exon q e then firstn (Z.to_nat (q - s0)) x ++ c2 :: skipn (Z.to_nat (q - s0) + 1) x else x) cds in
              let old := flat_map (fun e : Z * Z * str => snd e) cds in
              match seq_to_amino ct new, seq_to_amino ct old with
              | Some an, Some ao => match first_diff an ao 0 with
                                    | Some (ra, i, na) => FChange ra (i + 1) na
                                    | None => if (length an =? length ao)%nat then FNone else FError
                                    end
              | _, _ => FError
              end
          | _ => FError
          end
        end
    else FNone
  end.

(* ------------------------------------------------------------------ encoders *)
Definition o_vop (v : vop) : out :=
  match v with
  | Sub l r => OL [OZ 0; o_str l; o_str r]
  | Ins x => OL [OZ 1; o_str x]
  | Del d => OL [OZ 2; o_str d]
  | DelIns d i => OL [OZ 3; o_str d; o_str i]
  | Other u => OL [OZ 4; o_str u]
  end.
Definition o_cres (c : cres) : out :=
  match c with CLoaded g op => OL [OZ 0; OZ g; o_str op] | CIgnored => OL [OZ 1] | CError => OL [OZ 2] end.
Definition o_block (b : block) : out := let '(c, r, n) := b in OL [OZ c; OZ r; OZ n].
Definition o_fres (f : fres) : out :=
  match f with FNone => OL [OZ 0] | FIndel => OL [OZ 1] | FChange a i b => OL [OZ 2; OZ a; OZ i; OZ b] | FError => OL [OZ 3] end.
Definition o_var3 (x : Z * str * str) : out := let '(p, r, a) := x in OL [OZ p; o_str r; o_str a].
Definition o_key (k : Z * vop) : out := OL [OZ (fst k); o_vop (snd k)].

(* ------------------------------------------------------------------ decidable side conditions used by the theorems *)
(* alleles over the alphabet {A..Z, '.'}: evaluated on every database by the harness *)
Definition vop_ok (v : vop) : bool :=
  match v with
  | Sub l r => forallb is_nt l && forallb is_nt r
  | Ins x => forallb is_nt x
  | Del d => forallb is_nt d
  | DelIns d i => forallb is_nt d && forallb is_nt i
  | Other _ => false
  end.
Definition op_ok (op : str) : bool := match parse_op op with Some v => vop_ok v | None => false end.

(* ------------------------------------------------------------------ one evaluation per written variant (harness/c08.py) *)
Definition lkf (t : ctab) (al : align) (w : iseq) : Z -> Z := lookup_at t al w.
Definition c08_case (t : ctab) (al : align) (w : iseq) (p : Z) (op : str) (a m : Z) : out :=
  match parse_op op with
  | None => OL [OZ 0; o_cres (convert t al p op)]
  | Some v =>
    let cv := convert_v t al p v in
    OL [OZ 1; o_cres (convert t al p op); o_bool (variant_ok al w p v a m);
        o_str (hap_refseq w p v a m); o_opt o_str (hap_genome t al w p v a m); o_opt OZ (gwin al a m);
        o_opt o_str (match convert t al p op with CLoaded _ gop => reverse_op t gop | _ => None end);
        o_opt o_var3 (match cv with Some (g, v') => realign_variant (lkf t al w) g v' | None => None end);
        o_opt o_key (match cv with
                     | Some (g, v') => match realign_variant (lkf t al w) g v' with Some x => eq_key x | None => None end
                     | None => None end);
        o_str (print_op v); o_bool (op_ok op)]
  end.
(* the PROPERTY on the implementation's output: [g],[gop] = key loaded by aldy, [gw] = gene[c:c+m] as aldy returns it,
   [p],[op] = notation written in the database, [rw] = RefSeq window *)
Definition holds_variant (t : ctab) (plus : bool) (g : Z) (gop : str) (gw : iseq) (p : Z) (op : str) (rw : iseq) : bool :=
  match parse_op gop, parse_op op with
  | Some v', Some v =>
      str_eqb (orient t plus (apply_genome g v' gw)) (apply_refseq p v rw) && ref_match v (p - 1) rw && ref_match v' g gw && shape_ok v
  | _, _ => false
  end.
(* insertion/deletion anchoring observed on the implementation: [x] = arguments of the Variant aldy built, [k] = a key of its
   equivalence table that points to (g, gop); [gw] covers the site *)
Definition holds_gap (g : Z) (gop : str) (gw : iseq) (x : Z * str * str) (k : Z * str) : bool :=
  match parse_op gop, parse_op (snd k) with
  | Some (Ins y), Some (Ins y') =>
      str_eqb (apply_vcf x gw) (apply_genome g (Ins y) gw) && str_eqb (apply_cigar_ins (fst k) y' gw) (apply_genome g (Ins y) gw)
      && (fst (gap_vcf x) =? fst (gap_db g)) && (snd (gap_vcf x) =? snd (gap_db g))
      && (fst (gap_cigar (fst k)) =? fst (gap_db g)) && (snd (gap_cigar (fst k)) =? snd (gap_db g))
  | Some (Del d), Some (Del d') =>
      str_eqb (apply_vcf x gw) (apply_genome g (Del d) gw) && str_eqb (apply_cigar_del (fst k) (length d') gw) (apply_genome g (Del d) gw)
  | _, _ => false
  end.
