(* Simulated.v — error-free reads of planted haplotypes (C01): the link between the pileup model (Pileup.v, C06) and the
   evidence hypotheses E1/E2 of Pipeline.v for SUBSTITUTION and REFERENCE rows.
   A planted copy is a haplotype given as a base at every genome position (substitution-only haplotypes: the same coordinates as
   the reference) together with the reads sequenced from it; an error-free read is one M run whose query bases are the
   haplotype's bases.  Indel-carrying haplotypes need the realigner's contract and stay hypotheses of C01.  No proofs here. *)
From Aldy Require Import Base Consts Pileup Pipeline.
Import List.
Open Scope Z_scope.

Record copy := { c_hap : Z -> Z; c_reads : list read }.

(* r is an error-free, fully matched read of haplotype h that the loader accepts *)
Definition from_hap (g : gview) (h : Z -> Z) (r : read) : Prop :=
  exists n, (0 < n)%nat /\ r_cigar r = [(CM, Z.of_nat n)] /\ length (r_seq r) = n /\
            (forall j, (j < n)%nat -> nth j (r_seq r) 78 = h (r_start r + Z.of_nat j)) /\
            eligible g r = true.

Definition copy_ok (g : gview) (c : copy) : Prop := forall r, In r (c_reads c) -> from_hap g (c_hap c) r.

(* uniform depth d at position x: every copy contributes exactly d reads spanning x *)
Definition uniform_at (d : Z) (cs : list copy) (x : Z) : Prop :=
  forall c, In c cs -> count (fun r => spans r x) (c_reads c) = d.

Definition all_reads (cs : list copy) : list read := flat_map c_reads cs.

(* the row of the allele models for the substitution (x, ref>b) resp. the reference row of x, as the stages read it from the
   coverage table of the simulated sample under a structure with [length cs] gene copies at x *)
Definition sub_row (g : gview) (c : consts) (indels : indel_tab) (cs : list copy) (x b : Z) : @row copy :=
  {| r_cov := inZ (cov_coverage (sample_table g c (all_reads cs)) indels (x, sub_op (base g x) b));
     r_total := inZ (cov_total_pos (sample_table g c (all_reads cs)) x);
     r_cn := Z.of_nat (length cs);
     r_member := fun a => c_hap a x =? b |}.
Definition ref_row (g : gview) (c : consts) (indels : indel_tab) (cs : list copy) (x : Z) : @row copy :=
  {| r_cov := inZ (cov_coverage (sample_table g c (all_reads cs)) indels (x, ref_op));
     r_total := inZ (cov_total_pos (sample_table g c (all_reads cs)) x);
     r_cn := Z.of_nat (length cs);
     r_member := fun a => c_hap a x =? base g x |}.
