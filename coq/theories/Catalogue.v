(* Catalogue.v — construction of the star-allele catalogue from a database (C09, used by C13).
   gene.py: _init_regions (443-494), _init_alleles (496-752: process_mutation routing, allele loop, structural
   configurations with freezekey merging, min(alleles) re-keying, zero-length regions, grouping by (structure, core set),
   unique naming, configuration renaming, major/minor construction with natsorted), _init_partials (754-863: partial
   alleles of left fusions, duplicate-minor removal + alias table, back references), get_allele, has_coverage, region_at.
   Python dicts are association lists in insertion order ([aset] = d[k] = v), Python sets are duplicate-free lists
   (variant sets are kept sorted: that is also the tuple(sorted(.)) the code uses as dictionary key).
   [None] stands for "Python raises" (KeyError, IndexError, AssertionError, TypeError, AldyException, StopIteration).
   No proofs here. *)
From Coq Require Import String.
From Aldy Require Import Base Consts NatSort Coord.
Import List.
Open Scope Z_scope.

(* ------------------------------------------------------------------ strings *)
Fixpoint after_first (c : Z) (x : str) : option str :=
  match x with [] => None | y :: r => if y =? c then Some r else after_first c r end.
Fixpoint before_first (c : Z) (x : str) : str :=                      (* x.split(c)[0] *)
  match x with [] => [] | y :: r => if y =? c then [] else y :: before_first c r end.
(* common.allele_name: text after the first '*', '/' -> '_' *)
Definition allele_name (x : str) : str :=
  map (fun c => if c =? 47 then 95 else c) (match after_first 42 x with Some r => r | None => x end).
Fixpoint split_on (c : Z) (x : str) : list str :=                      (* x.split(c) for a one-character separator *)
  match x with
  | [] => [[]]
  | y :: r => let parts := split_on c r in
              if y =? c then [] :: parts else match parts with p :: ps => (y :: p) :: ps | [] => [[y]] end
  end.
Fixpoint dec_digits (fuel : nat) (n : Z) (acc : str) : str :=
  match fuel with
  | O => acc
  | S f => let acc' := (48 + n mod 10) :: acc in if n <? 10 then acc' else dec_digits f (n / 10) acc'
  end.
Definition dec (n : Z) : str := dec_digits (S (Z.to_nat (Z.log2 n))) n [].     (* str(n), n >= 0 *)
Definition has_char (c : Z) (x : str) : bool := existsb (Z.eqb c) x.
Definition str_min (l : list str) : option str :=                       (* min(l) *)
  match l with [] => None | x :: r => Some (fold_left (fun m y => if str_ltb y m then y else m) r x) end.
Fixpoint strs_eqb (a b : list str) : bool :=
  match a, b with [], [] => true | x :: a', y :: b' => str_eqb x y && strs_eqb a' b' | _, _ => false end.
Definition truthy (o : option str) : bool := match o with Some (_ :: _) => true | _ => false end.

(* ------------------------------------------------------------------ variants and variant sets *)
Definition mut := (Z * str)%type.                      (* (genome position, operation) *)
Definition mut_eqb (a b : mut) : bool := (fst a =? fst b) && str_eqb (snd a) (snd b).
Definition mut_ltb (a b : mut) : bool := (fst a <? fst b) || ((fst a =? fst b) && str_ltb (snd a) (snd b)).   (* tuple order *)
Fixpoint mins (m : mut) (l : list mut) : list mut :=                   (* insert into a sorted duplicate-free list *)
  match l with
  | [] => [m]
  | x :: r => if mut_eqb m x then l else if mut_ltb m x then m :: l else x :: mins m r
  end.
Definition mset_of (l : list mut) : list mut := fold_left (fun s m => mins m s) l [].
Definition mset_eqb (a b : list mut) : bool := (length a =? length b)%nat && forallb (fun p => mut_eqb (fst p) (snd p)) (combine a b).
Definition mset_diff (a b : list mut) : list mut := filter (fun m => negb (memb mut_eqb m b)) a.
Definition set_add (x : str) (l : list str) : list str := if memb str_eqb x l then l else l ++ [x].
Fixpoint adel {V} (k : str) (l : list (str * V)) : list (str * V) :=   (* del d[k] *)
  match l with [] => [] | (k', v) :: r => if str_eqb k k' then r else (k', v) :: adel k r end.

(* ------------------------------------------------------------------ regions (gene.py:443-494) *)
Definition region := (str * (Z * Z))%type.             (* name, [start, end) 0-based *)
Definition is_exon_name (n : str) : bool := match n with 101 :: d :: r => forallb ns_digit (d :: r) | _ => false end.
Definition rng_ltb (a b : region) : bool :=
  let '(s1, e1) := snd a in let '(s2, e2) := snd b in (s1 <? s2) || ((s1 =? s2) && (e1 <? e2)).
Fixpoint fill_introns (plus : bool) (fuel : nat) (e : Z) (regs : list region) : option (list region) :=
  match fuel with
  | O => Some regs
  | S f =>
    match alookup str_eqb (101 :: dec e) regs, alookup str_eqb (101 :: dec (e + 1)) regs with
    | Some a, Some b =>
      let '(r0, r1) := if plus then (a, b) else (b, a) in
      fill_introns plus f (e + 1) (aset str_eqb (105 :: dec e) (snd r0, fst r1) regs)
    | _, _ => None
    end
  end.
Definition gene_regions (plus : bool) (raw : list (str * list Z)) (i : nat) : option (list region) :=
  let base := map (fun nc => (fst nc, (nth (2 * i) (snd nc) 0 - 1, nth (2 * i + 1) (snd nc) 0 - 1))) raw in
  if forallb (fun nc => (2 * i + 1 <? length (snd nc))%nat) raw && forallb (fun r : region => fst (snd r) <=? snd (snd r)) base then
    let nex := length (filter (fun nc => is_exon_name (fst nc)) raw) in
    match fill_introns plus (Nat.pred nex) 1 base with
    | Some regs => let sorted := isort rng_ltb regs in Some (if plus then sorted else rev sorted)
    | None => None
    end
  else None.
Fixpoint contiguous (l : list region) : bool :=        (* sorted by range: no un-annotated hole *)
  match l with
  | a :: ((b :: _) as r) => negb (snd (snd a) <? fst (snd b)) && contiguous r
  | _ => true
  end.
Definition regions_of (plus : bool) (raw : list (str * list Z)) (ngenes : nat) : option (list (list region)) :=
  let gs := map (gene_regions plus raw) (seq 0 ngenes) in
  if forallb (fun g => match g with Some r => contiguous (isort rng_ltb r) | None => false end) gs
  then Some (map (fun g => match g with Some r => r | None => [] end) gs) else None.
(* _region_at: a dict comprehension, the LAST (gene, region) containing the position wins *)
Definition region_at (regs : list (list region)) (pos : Z) : option (nat * str) :=
  fold_left (fun acc gr => fold_left (fun acc2 (r : region) =>
      if (fst (snd r) <=? pos) && (pos <? snd (snd r)) then Some (fst gr, fst r) else acc2) (snd gr) acc)
    (combine (seq 0 (length regs)) regs) None.

(* ------------------------------------------------------------------ raw database *)
Inductive ypos := PInt (z : Z) | PStr (t : str).
Definition entry := (ypos * str * list (option str))%type.        (* [pos, op, *info] *)
Record rawallele := { ra_key : str; ra_label : option str; ra_ignored : bool; ra_entries : list entry }.
Record rawdb := {
  rd_name : str;
  rd_genes : list str;                          (* structure.genes *)
  rd_regions : list (str * list Z);             (* structure.regions[genome], file order *)
  rd_random : list entry;
  rd_groups : list (str * list entry);
  rd_alleles : list rawallele }.                (* file order, without "random"/"groups" *)

Definition minfo9 := (option str * option str * Z * Z * str)%type.     (* (function, rsid, RefSeq index, written pos - 1, written op) *)
Record pstate := {
  ps_custom : list (str * list str);
  ps_fl : list (str * str);
  ps_fr : list (str * str);
  ps_muts : list (mkey * minfo9) }.
Definition DELETION_ := [100; 101; 108; 101; 116; 105; 111; 110].           (* "deletion" *)
Definition IGNORED_ := [105; 103; 110; 111; 114; 101; 100].                 (* "ignored" *)

Section Load.
  Variables (t : ctab) (al : align) (db : rawdb) (regs : list (list region)).
  Definition pseudogenes : list str := tl (rd_genes db).

  (* process_mutation (gene.py:512-554): new state and the Mutations yielded *)
  Definition process_mutation (name : str) (e : entry) (st : pstate) : option (pstate * list mut) :=
    let '(pos, op, info) := e in
    match pos with
    | PStr ps =>
      if str_eqb ps (rd_name db) && is_prefix (DELETION_ ++ [58]) op then
        Some ({| ps_custom := aset str_eqb name (split_on 44 (skipn 9 op)) (ps_custom st); ps_fl := ps_fl st; ps_fr := ps_fr st;
                 ps_muts := ps_muts st |}, [])
      else if memb str_eqb ps pseudogenes then
        if negb (str_eqb ps (hd [] pseudogenes)) then None
        else match rev op with
             | [] => None
             | 45 :: body => Some ({| ps_custom := ps_custom st; ps_fl := aset str_eqb name (rev body) (ps_fl st); ps_fr := ps_fr st;
                                      ps_muts := ps_muts st |}, [])
             | c :: body => let op' := if c =? 43 then rev body else op in
                            Some ({| ps_custom := ps_custom st; ps_fl := ps_fl st; ps_fr := aset str_eqb name op' (ps_fr st);
                                     ps_muts := ps_muts st |}, [])
             end
      else None
    | PInt z =>
      let info' := match info with [] => [Some [45]] | _ => info end in
      let rsid := hd None info' in
      let fn := match info' with _ :: f :: _ => f | _ => None end in
      match convert t al z op with
      | CError => None
      | CIgnored => Some (st, [])
      | CLoaded g op' =>
        match region_at regs g with
        | None => Some (st, [])
        | Some _ =>
          let k := (g, op') in
          let refidx := anchor (a_plus al) z (match parse_op op with Some v => v | None => Other [] end) in
          let muts' := if amem mkey_eqb k (ps_muts st) then ps_muts st else ps_muts st ++ [(k, (fn, rsid, refidx, z - 1, op))] in
          Some ({| ps_custom := ps_custom st; ps_fl := ps_fl st; ps_fr := ps_fr st; ps_muts := muts' |}, [k])
        end
      end
    end.

  Definition is_ignored_entry (e : entry) : bool := match fst (fst e) with PStr s => str_eqb s IGNORED_ | _ => false end.
  Definition is_group_ref (groups : list str) (e : entry) : bool :=
    match fst (fst e) with PStr s => str_eqb s (rd_name db) && memb str_eqb (snd (fst e)) groups | _ => false end.
  Definition is_deletion_entry (e : entry) : bool :=
    match e with (PStr s, op, []) => str_eqb s (rd_name db) && str_eqb op DELETION_ | _ => false end.

  Fixpoint process_list (name : str) (skip : entry -> bool) (es : list entry) (st : pstate) (acc : list mut)
    : option (pstate * list mut) :=
    match es with
    | [] => Some (st, acc)
    | e :: r => if skip e then process_list name skip r st acc
                else match process_mutation name e st with
                     | Some (st', ms) => process_list name skip r st' (fold_left (fun s m => mins m s) ms acc)
                     | None => None
                     end
    end.

  Record premin := { pm_name : str; pm_alt : option str; pm_muts : list mut }.
  (* the allele loop (gene.py:571-600): state, deletion allele, dictionary of alleles *)
  Fixpoint allele_loop (groups : list str) (ras : list rawallele) (st : pstate) (del : option str) (acc : list (str * premin))
    : option (pstate * option str * list (str * premin)) :=
    match ras with
    | [] => Some (st, del, acc)
    | ra :: r =>
      if ra_ignored ra then allele_loop groups r st del acc
      else
        let name := allele_name (ra_key ra) in
        let alt := match ra_label ra with Some (c :: l) => Some (allele_name (c :: l)) | o => o end in
        if existsb is_deletion_entry (ra_entries ra) then
          allele_loop groups r st (Some name) (aset str_eqb name {| pm_name := name; pm_alt := alt; pm_muts := [] |} acc)
        else
          match process_list name (fun e => is_ignored_entry e || is_group_ref groups e) (ra_entries ra) st [] with
          | Some (st', ms) => allele_loop groups r st' del (aset str_eqb name {| pm_name := name; pm_alt := alt; pm_muts := ms |} acc)
          | None => None
          end
    end.

  Fixpoint groups_loop (gs : list (str * list entry)) (st : pstate) : option pstate :=
    match gs with
    | [] => Some st
    | (gname, es) :: r => match process_list gname (fun _ => false) es st [] with
                          | Some (st', _) => groups_loop r st'
                          | None => None
                          end
    end.
End Load.

(* ------------------------------------------------------------------ structural configurations (gene.py:606-701) *)
Inductive cnkind := KDefault | KLeft | KRight | KDeletion | KCustom.
Definition cnvec := list (str * Z).
Record cnconf := { cc_cn : list cnvec; cc_kind : cnkind; cc_alleles : list str }.
Definition b2z (b : bool) : Z := if b then 1 else 0.
Fixpoint index_of (x : str) (l : list str) (i : Z) : option Z :=
  match l with [] => None | y :: r => if str_eqb x y then Some i else index_of x r (i + 1) end.
Definition names_of (rs : list region) : list str := map fst rs.
(* common.freezekey: values in the order of the sorted region names, main gene then first pseudogene *)
Definition freezekey (cn : list cnvec) : list Z :=
  flat_map (fun v : cnvec => map snd (isort (fun a b : str * Z => str_ltb (fst a) (fst b)) v)) (firstn 2 cn).
Fixpoint zlist_eqb (a b : list Z) : bool :=
  match a, b with [] , [] => true | x :: a', y :: b' => (x =? y) && zlist_eqb a' b' | _, _ => false end.
Definition vec_by (names : list str) (rank : str -> option Z) (f : Z -> Z) : option cnvec :=
  fold_right (fun r acc => match rank r, acc with Some k, Some l => Some ((r, f k) :: l) | _, _ => None end) (Some []) names.

Section Configs.
  Variable regs : list (list region).
  Definition regs0 := names_of (nth 0 regs []).
  Definition regs1 := names_of (nth 1 regs []).
  Definition rank (r : str) : option Z := index_of r regs0 0.
  Definition cstate := (list (str * cnconf) * list (list Z * str))%type.       (* cn_configs, inverse_cn *)
  Definition add_conf (a : str) (cn : list cnvec) (k : cnkind) (s : cstate) : cstate :=
    let '(cfgs, inv) := s in
    let key := freezekey cn in
    match alookup zlist_eqb key inv with
    | None => (aset str_eqb a {| cc_cn := cn; cc_kind := k; cc_alleles := [a] |} cfgs, inv ++ [(key, a)])
    | Some owner =>
      (map (fun kc : str * cnconf => if str_eqb (fst kc) owner
                      then (fst kc, {| cc_cn := cc_cn (snd kc); cc_kind := cc_kind (snd kc); cc_alleles := set_add a (cc_alleles (snd kc)) |})
                      else kc) cfgs, inv)
    end.
  Definition left_cn (brk : str) : option (list cnvec) :=
    match rank brk, 2 <=? Z.of_nat (length regs) with
    | Some kb, true =>
      match vec_by regs0 rank (fun k => b2z (kb <=? k)), vec_by regs1 rank (fun k => b2z (k <? kb)) with
      | Some v0, Some v1 => Some [v0; v1]
      | _, _ => None
      end
    | _, _ => None
    end.
  Definition right_cn (brk : str) : option (list cnvec) :=
    match rank brk, 2 <=? Z.of_nat (length regs) with
    | Some kb, true =>
      match vec_by regs0 rank (fun k => b2z (k <? kb)), vec_by regs1 rank (fun k => 1 + b2z (kb <=? k)) with
      | Some v0, Some v1 => Some [v0; v1]
      | _, _ => None
      end
    | _, _ => None
    end.
  Fixpoint add_fusions (mk : str -> option (list cnvec)) (k : cnkind) (l : list (str * str)) (s : cstate) : option cstate :=
    match l with
    | [] => Some s
    | (a, brk) :: r => match mk brk with Some cn => add_fusions mk k r (add_conf a cn k s) | None => None end
    end.
  Definition zero_empty (cn : list cnvec) : list cnvec :=
    map (fun gv : nat * cnvec => map (fun rv : str * Z =>
           match alookup str_eqb (fst rv) (nth (fst gv) regs []) with
           | Some (s0, e0) => if e0 - s0 <=? 0 then (fst rv, 0) else rv
           | None => rv
           end) (snd gv)) (combine (seq 0 (length cn)) cn).

  Definition build_configs (has_pseudo : bool) (st : pstate) (del : option str) (anames : list str) : option (list (str * cnconf)) :=
    match add_fusions left_cn KLeft (ps_fl st) ([], []) with
    | None => None
    | Some (cfgs1, inv1) =>
      let cfgs2 := match del with
                   | Some d => aset str_eqb d {| cc_cn := map (fun r => (r, 0)) regs0 :: (if has_pseudo then [map (fun r => (r, 1)) regs1] else []);
                                                 cc_kind := KDeletion; cc_alleles := [d] |} cfgs1
                   | None => cfgs1
                   end in
      match add_fusions right_cn KRight (ps_fr st) (cfgs2, inv1) with
      | None => None
      | Some s3 =>
        let s4 := fold_left (fun s (ci : str * list str) =>
                    add_conf (fst ci) (map (fun r => (r, b2z (negb (memb str_eqb r (snd ci))))) regs0
                                       :: (if (1 <? length regs)%nat then [map (fun r => (r, 1)) regs1] else [])) KCustom s)
                  (ps_custom st) s3 in
        let cfgs4 := fst s4 in
        let used := flat_map (fun kc : str * cnconf => cc_alleles (snd kc)) cfgs4 in
        (* re-key by min(alleles) *)
        let rekeyed := fold_left (fun acc (kc : str * cnconf) =>
                          match acc, str_min (cc_alleles (snd kc)) with
                          | Some l, Some m => Some (aset str_eqb m (snd kc) l)
                          | _, _ => None
                          end) cfgs4 (Some []) in
        match rekeyed with
        | None => None
        | Some l =>
          let default := {| cc_cn := map (fun g => map (fun r => (r, 1)) (names_of (nth g regs []))) (seq 0 (if has_pseudo then 2 else 1));
                            cc_kind := KDefault; cc_alleles := filter (fun a => negb (memb str_eqb a used)) anames |} in
          Some (map (fun kc : str * cnconf => (fst kc, {| cc_cn := zero_empty (cc_cn (snd kc)); cc_kind := cc_kind (snd kc);
                                                          cc_alleles := cc_alleles (snd kc) |}))
                    (aset str_eqb [49] default l))
        end
      end
    end.
End Configs.

(* ------------------------------------------------------------------ majors, naming, minors (gene.py:703-752) *)
Record minorA := { mi_name : str; mi_alt : option str; mi_muts : list mut }.
Record majorA := { ma_name : str; ma_cfg : str; ma_core : list mut; ma_minors : list minorA }.
Definition gkey := (str * list mut)%type.                          (* (structure, sorted core set) *)
Definition gkey_eqb (a b : gkey) : bool := str_eqb (fst a) (fst b) && mset_eqb (snd a) (snd b).
(* d[k].add(v) on a defaultdict: groups in first-seen order *)
Fixpoint gadd {K V} (eqb : K -> K -> bool) (k : K) (v : V) (g : list (K * list V)) : list (K * list V) :=
  match g with
  | [] => [(k, [v])]
  | (k', vs) :: r => if eqb k k' then (k', vs ++ [v]) :: r else (k', vs) :: gadd eqb k v r
  end.
Definition group_by {K V} (eqb : K -> K -> bool) (key : V -> K) (l : list V) : list (K * list V) :=
  fold_left (fun g v => gadd eqb (key v) v g) l [].

Definition is_functional (muts : list (mkey * minfo9)) (m : mut) : bool :=
  match alookup mkey_eqb m muts with Some (Some _, _, _, _, _) => true | _ => false end.
Definition config_of (cfgs : list (str * cnconf)) (a : str) : option str :=
  match find (fun kc : str * cnconf => memb str_eqb a (cc_alleles (snd kc))) cfgs with Some kc => Some (fst kc) | None => None end.

Record nstate := { ns_used : list (str * Z); ns_cfgs : list (str * cnconf); ns_changed : list (str * str); ns_names : list (gkey * str) }.
Definition name_step (alleles : list (str * premin)) (s : option nstate) (g : gkey * list str) : option nstate :=
  match s, str_min (snd g) with
  | Some s, Some an =>
    let n0 := before_first 46 an in
    let n1 := if amem str_eqb n0 (ns_used s)
              then match alookup str_eqb an alleles with
                   | Some pm => if truthy (pm_alt pm) then match pm_alt pm with Some x => x | None => an end else an
                   | None => an
                   end
              else n0 in
    let '(name, used') :=
      match alookup str_eqb n1 (ns_used s) with
      | Some c => let nm := n1 ++ 58 :: dec (c + 1) in (nm, aset str_eqb nm 1 (aset str_eqb n1 (c + 1) (ns_used s)))
      | None => (n1, aset str_eqb n1 1 (ns_used s))
      end in
    let '(cfgs', changed') :=
      match alookup str_eqb an (ns_cfgs s) with
      | Some conf => if negb (str_eqb an name)
                     then (adel an (aset str_eqb name conf (ns_cfgs s)), aset str_eqb an name (ns_changed s))
                     else (ns_cfgs s, ns_changed s)
      | None => (ns_cfgs s, ns_changed s)
      end in
    Some {| ns_used := used'; ns_cfgs := cfgs'; ns_changed := changed'; ns_names := ns_names s ++ [(fst g, name)] |}
  | _, _ => None
  end.

Definition make_major (alleles : list (str * premin)) (changed : list (str * str)) (name : str) (g : gkey * list str) : majorA :=
  {| ma_name := name;
     ma_cfg := match alookup str_eqb (fst (fst g)) changed with Some n => n | None => fst (fst g) end;
     ma_core := snd (fst g);
     ma_minors := flat_map (fun sa => match alookup str_eqb sa alleles with
                                      | Some pm => [{| mi_name := sa; mi_alt := pm_alt pm; mi_muts := mset_diff (pm_muts pm) (snd (fst g)) |}]
                                      | None => []
                                      end) (natsorted (snd g)) |}.

(* ------------------------------------------------------------------ partials, duplicate removal (gene.py:754-863) *)
Definition cn_at (cfgs : list (str * cnconf)) (f : str) (gr : nat * str) : option Z :=
  match alookup str_eqb f cfgs with
  | Some conf => alookup str_eqb (snd gr) (nth (fst gr) (cc_cn conf) [])
  | None => None
  end.
Definition preserved (regs : list (list region)) (cfgs : list (str * cnconf)) (f : str) (ms : list mut) : list mut :=
  filter (fun m : mut => match region_at regs (fst m) with
                         | Some gr => match cn_at cfgs f gr with Some c => 0 <? c | None => false end
                         | None => false
                         end) ms.
Definition minor_upd (m : minorA) (l : list minorA) : list minorA :=          (* dict.update of one key *)
  if existsb (fun x => str_eqb (mi_name x) (mi_name m)) l
  then map (fun x => if str_eqb (mi_name x) (mi_name m) then m else x) l else l ++ [m].
Definition partial_minors (regs : list (list region)) (cfgs : list (str * cnconf)) (f : str) (a : majorA) : list minorA :=
  map (fun sa => {| mi_name := f ++ 35 :: mi_name sa; mi_alt := None; mi_muts := preserved regs cfgs f (mi_muts sa) |}) (ma_minors a).
Definition add_partial (regs : list (list region)) (cfgs : list (str * cnconf)) (f : str)
                       (add : list (list mut * majorA)) (a : majorA) : list (list mut * majorA) :=
  let key := preserved regs cfgs f (ma_core a) in
  let pms := partial_minors regs cfgs f a in
  if amem mset_eqb key add
  then map (fun kv : list mut * majorA => if mset_eqb key (fst kv)
              then (fst kv, {| ma_name := ma_name (snd kv); ma_cfg := ma_cfg (snd kv); ma_core := ma_core (snd kv);
                               ma_minors := fold_left (fun l m => minor_upd m l) pms (ma_minors (snd kv)) |})
              else kv) add
  else add ++ [(key, {| ma_name := f ++ 35 :: ma_name a; ma_cfg := f; ma_core := key; ma_minors := fold_left (fun l m => minor_upd m l) pms [] |})].
Definition partial_step (regs : list (list region)) (cfgs : list (str * cnconf)) (alleles : option (list (str * majorA))) (f : str)
  : option (list (str * majorA)) :=
  match alleles with
  | None => None
  | Some als =>
    match alookup str_eqb f als with
    | None => None                                             (* KeyError *)
    | Some fa =>
      if negb (length (ma_core fa) =? 0)%nat then Some als
      else
        let add := fold_left (fun add (kv : str * majorA) => if str_eqb (ma_cfg (snd kv)) [49] then add_partial regs cfgs f add (snd kv) else add) als [] in
        Some (fold_left (fun l (kv : list mut * majorA) => aset str_eqb (ma_name (snd kv)) (snd kv) l) add (adel f als))
    end
  end.
(* duplicate minors of one major: groups by variant set, survivor = min name; alias entries for names without '#' *)
Definition dedup_major (a : majorA) : majorA * list (str * str) :=
  let groups := group_by mset_eqb mi_muts (ma_minors a) in
  let survivors := flat_map (fun g : list mut * list minorA =>
                     match str_min (map mi_name (snd g)) with
                     | Some mn => match find (fun x => str_eqb (mi_name x) mn) (snd g) with
                                  | Some x => [{| mi_name := mn; mi_alt := mi_alt x; mi_muts := fst g |}]
                                  | None => []
                                  end
                     | None => []
                     end) groups in
  let removed := flat_map (fun g : list mut * list minorA =>
                   match str_min (map mi_name (snd g)) with
                   | Some mn => if (1 <? length (snd g))%nat
                                then flat_map (fun x => if negb (str_eqb (mi_name x) mn) && negb (has_char 35 (mi_name x)) then [(mi_name x, mn)] else []) (snd g)
                                else []
                   | None => []
                   end) groups in
  ({| ma_name := ma_name a; ma_cfg := ma_cfg a; ma_core := ma_core a; ma_minors := survivors |}, removed).

(* ------------------------------------------------------------------ the whole load *)
Record catalogue := {
  cat_regions : list (list region);
  cat_muts : list (mkey * minfo9);
  cat_alleles : list (str * majorA);
  cat_cfgs : list (str * cnconf);
  cat_removed : list (str * str) }.

Definition load (t : ctab) (al : align) (db : rawdb) : option catalogue :=
  match regions_of (a_plus al) (rd_regions db) (length (rd_genes db)) with
  | None => None
  | Some regs =>
    (* every aligned position lies in a named region, pseudogene regions are named like the gene's *)
    if negb (forallb (fun g => match nth_error regs g with Some r => strs_eqb (names_of r) (names_of (nth 0 regs [])) | None => false end)
                     (seq 1 (length (rd_genes db) - 1))) then None
    else
    let st0 := {| ps_custom := []; ps_fl := []; ps_fr := []; ps_muts := [] |} in
    match process_list t al db regs (s "random") (is_ignored_entry) (rd_random db) st0 [] with
    | None => None
    | Some (st1, _) =>
      match groups_loop t al db regs (rd_groups db) st1 with
      | None => None
      | Some st2 =>
        match allele_loop t al db regs (map fst (rd_groups db)) (rd_alleles db) st2 None [] with
        | None => None
        | Some (st3, del, alleles) =>
          let has_pseudo := (0 <? length (pseudogenes db))%nat in
          match build_configs regs has_pseudo st3 del (map fst alleles) with
          | None => None
          | Some cfgs =>
            (* grouping *)
            let keyed := map (fun ap : str * premin =>
                           (config_of cfgs (fst ap), filter (is_functional (ps_muts st3)) (pm_muts (snd ap)), fst ap)) alleles in
            if negb (forallb (fun x => match fst (fst x) with Some _ => true | None => false end) keyed) then None
            else
            let groups := fold_left (fun g x => gadd gkey_eqb (match fst (fst x) with Some c => c | None => [] end, snd (fst x)) (snd x) g) keyed [] in
            match fold_left (name_step alleles) groups (Some {| ns_used := []; ns_cfgs := cfgs; ns_changed := []; ns_names := [] |}) with
            | None => None
            | Some ns =>
              let majors := fold_left (fun l (gn : (gkey * list str) * (gkey * str)) =>
                               aset str_eqb (snd (snd gn)) (make_major alleles (ns_changed ns) (snd (snd gn)) (fst gn)) l)
                             (combine groups (ns_names ns)) [] in
              let cfgs' := ns_cfgs ns in
              let lefts := map fst (filter (fun kc : str * cnconf => match cc_kind (snd kc) with KLeft => true | _ => false end) cfgs') in
              match fold_left (partial_step regs cfgs') lefts (Some majors) with
              | None => None
              | Some withp =>
                let dd := map (fun kv : str * majorA => (fst kv, dedup_major (snd kv))) withp in
                let final := map (fun x => (fst x, fst (snd x))) dd in
                let removed := fold_left (fun r (x : str * (majorA * list (str * str))) =>
                                  fold_left (fun r2 (p : str * str) => aset str_eqb (fst p) (snd p) r2) (snd (snd x)) r) dd [] in
                (* back references: every major's configuration must exist *)
                if negb (forallb (fun kv : str * majorA => amem str_eqb (ma_cfg (snd kv)) cfgs') final) then None
                else
                let cfgs'' := map (fun kc : str * cnconf =>
                                (fst kc, {| cc_cn := cc_cn (snd kc); cc_kind := cc_kind (snd kc);
                                            cc_alleles := fold_left (fun l (kv : str * majorA) => if str_eqb (ma_cfg (snd kv)) (fst kc) then set_add (ma_name (snd kv)) l else l) final [] |})) cfgs' in
                Some {| cat_regions := regs; cat_muts := ps_muts st3; cat_alleles := final; cat_cfgs := cfgs''; cat_removed := removed |}
              end
            end
          end
        end
      end
    end
  end.

(* every aligned genome position lies in a named region (gene.py:489-493 raises otherwise): interval sweep over the blocks *)
Definition covered_upto (all : list region) (fuel : nat) (cur stop : Z) : bool :=
  (fix go (fuel : nat) (cur : Z) : bool :=
     if stop <=? cur then true
     else match fuel with
          | O => false
          | S f => match find (fun r : region => (fst (snd r) <=? cur) && (cur <? snd (snd r))) all with
                   | Some r => go f (snd (snd r))
                   | None => false
                   end
          end) fuel cur.
Definition regions_cover (al : align) (regs : list (list region)) : bool :=
  let all := concat regs in
  forallb (fun b : block => let '(c, _, n) := b in covered_upto all (S (length all)) c (c + n)) (blocks al).

(* ------------------------------------------------------------------ queries *)
Definition get_allele (c : catalogue) (n : str) : option (str * str) :=                  (* (major, minor) names *)
  let n' := match alookup str_eqb n (cat_removed c) with Some x => x | None => n end in
  match find (fun kv : str * majorA => existsb (fun m => str_eqb (mi_name m) n') (ma_minors (snd kv))) (cat_alleles c) with
  | Some kv => Some (fst kv, n')
  | None => None
  end.
Definition has_coverage (c : catalogue) (a : str) (pos : Z) : option bool :=             (* None = KeyError / IndexError *)
  match region_at (cat_regions c) pos with
  | None => Some false
  | Some gr =>
    match alookup str_eqb a (cat_alleles c) with
    | Some ma => match alookup str_eqb (ma_cfg ma) (cat_cfgs c) with
                 | Some conf => match nth_error (cc_cn conf) (fst gr) with
                                | Some v => match alookup str_eqb (snd gr) v with Some x => Some (0 <? x) | None => None end
                                | None => None
                                end
                 | None => None
                 end
    | None => None
    end
  end.

(* ------------------------------------------------------------------ the decidable clauses of the property, on any catalogue value
   (the model's, or the implementation's loaded Gene serialised by the harness) *)
Definition majors (c : catalogue) : list majorA := map snd (cat_alleles c).
Fixpoint pairwise {A} (ok : A -> A -> bool) (l : list A) : bool :=
  match l with [] => true | x :: r => forallb (ok x) r && pairwise ok r end.
(* two different majors never share (structure, core set); partials of one fusion are majors with that fusion's structure *)
Definition p_major_distinct (c : catalogue) : bool :=
  pairwise (fun a b => negb (str_eqb (ma_cfg a) (ma_cfg b) && mset_eqb (ma_core a) (ma_core b))) (majors c)
  && pairwise (fun a b => negb (str_eqb (fst a) (fst b))) (cat_alleles c)
  && forallb (fun kv : str * majorA => str_eqb (fst kv) (ma_name (snd kv))) (cat_alleles c).
Definition p_minor_distinct (c : catalogue) : bool :=
  forallb (fun a => pairwise (fun x y => negb (mset_eqb (mi_muts x) (mi_muts y)) && negb (str_eqb (mi_name x) (mi_name y))) (ma_minors a)) (majors c).
Definition p_core_split (c : catalogue) : bool :=
  forallb (fun a => forallb (is_functional (cat_muts c)) (ma_core a)
                    && forallb (fun m => forallb (fun x => negb (is_functional (cat_muts c) x)) (mi_muts m)) (ma_minors a)) (majors c).
Definition p_config_exists (c : catalogue) : bool :=
  forallb (fun a => match alookup str_eqb (ma_cfg a) (cat_cfgs c) with
                    | Some conf => memb str_eqb (ma_name a) (cc_alleles conf)
                    | None => false
                    end) (majors c).
(* every required database allele name resolves, and the resolved minor lies in exactly one major *)
Definition p_partition (c : catalogue) (names : list str) : bool :=
  forallb (fun n => match get_allele c n with
                    | Some (_, n') => (length (filter (fun a => existsb (fun m => str_eqb (mi_name m) n') (ma_minors a)) (majors c)) =? 1)%nat
                    | None => false
                    end) names.
(* a partial minor f#x carries exactly the variants of allele x that lie in regions f retains *)
Definition all_muts (a : majorA) (m : minorA) : list mut := mset_of (ma_core a ++ mi_muts m).
Definition p_partial_content (c : catalogue) : bool :=
  forallb (fun a =>
    match after_first 35 (ma_name a) with
    | None => true
    | Some _ =>
      let f := ma_cfg a in
      forallb (fun m =>
        match after_first 35 (mi_name m) with
        | None => false
        | Some x =>
          match get_allele c x with
          | Some (pa, pm) =>
            match alookup str_eqb pa (cat_alleles c) with
            | Some pma => match find (fun y => str_eqb (mi_name y) pm) (ma_minors pma) with
                          | Some pmi => mset_eqb (all_muts a m) (preserved (cat_regions c) (cat_cfgs c) f (all_muts pma pmi))
                                        && is_prefix (f ++ [35]) (mi_name m)
                          | None => false
                          end
            | None => false
            end
          | None => false
          end
        end) (ma_minors a)
    end) (majors c).
(* RefSeq view: every variant replaced by the notation it was written in *)
Definition to_refseq (c : catalogue) (m : mut) : mut :=
  match alookup mkey_eqb m (cat_muts c) with Some (_, _, _, p0, op) => (p0 + 1, op) | None => (-1, snd m) end.
Definition kind_z (k : cnkind) : Z := match k with KDefault => 0 | KLeft => 1 | KRight => 2 | KDeletion => 3 | KCustom => 4 end.
Definition rs_view (c : catalogue) : list (str * (str * Z) * list mut * list (str * list mut)) :=
  map (fun a => (ma_name a,
                 (ma_cfg a, match alookup str_eqb (ma_cfg a) (cat_cfgs c) with Some conf => kind_z (cc_kind conf) | None => -1 end),
                 mset_of (map (to_refseq c) (ma_core a)),
                 map (fun m => (mi_name m, mset_of (map (to_refseq c) (mi_muts m)))) (ma_minors a))) (majors c).
Definition minors_eqb (a b : list (str * list mut)) : bool :=
  (length a =? length b)%nat && forallb (fun p : (str * list mut) * (str * list mut) =>
      str_eqb (fst (fst p)) (fst (snd p)) && mset_eqb (snd (fst p)) (snd (snd p))) (combine a b).
Definition p_build_independent (c1 c2 : catalogue) : bool :=
  let v1 := rs_view c1 in let v2 := rs_view c2 in
  (length v1 =? length v2)%nat &&
  forallb (fun p : (str * (str * Z) * list mut * list (str * list mut)) * (str * (str * Z) * list mut * list (str * list mut)) =>
    let '(n1, (f1, k1), core1, mn1) := fst p in let '(n2, (f2, k2), core2, mn2) := snd p in
    str_eqb n1 n2 && str_eqb f1 f2 && (k1 =? k2) && mset_eqb core1 core2 && minors_eqb mn1 mn2) (combine v1 v2)
  && (length (cat_removed c1) =? length (cat_removed c2))%nat
  && forallb (fun p : (str * str) * (str * str) => str_eqb (fst (fst p)) (fst (snd p)) && str_eqb (snd (fst p)) (snd (snd p)))
             (combine (cat_removed c1) (cat_removed c2)).
(* Appendix D side conditions *)
Definition p_names_ok (names : list str) : bool :=                 (* no ':' or '#' in database names and labels *)
  forallb (fun n => negb (has_char 58 n) && negb (has_char 35 n)) names.

(* ------------------------------------------------------------------ encoders *)
Definition o_mut (m : mut) : out := OL [OZ (fst m); o_str (snd m)].
Definition o_minor (m : minorA) : out := OL [o_str (mi_name m); o_opt o_str (mi_alt m); o_list o_mut (mi_muts m)].
Definition o_major (a : majorA) : out := OL [o_str (ma_name a); o_str (ma_cfg a); o_list o_mut (ma_core a); o_list o_minor (ma_minors a)].
Definition o_conf (kc : str * cnconf) : out :=
  OL [o_str (fst kc); OZ (kind_z (cc_kind (snd kc))); o_list (o_list (o_pair o_str OZ)) (cc_cn (snd kc)); o_list o_str (cc_alleles (snd kc))].
Definition o_region (r : region) : out := OL [o_str (fst r); OZ (fst (snd r)); OZ (snd (snd r))].
Definition o_minfo9 (kv : mkey * minfo9) : out :=
  let '(k, (fn, rs, ri, p0, op)) := kv in OL [OZ (fst k); o_str (snd k); o_opt o_str fn; o_opt o_str rs; OZ ri; OZ p0; o_str op].
Definition o_cat (c : catalogue) : out :=
  OL [o_list (o_list o_region) (cat_regions c); o_list o_minfo9 (cat_muts c); o_list o_major (majors c);
      o_list o_conf (cat_cfgs c); o_list (o_pair o_str o_str) (cat_removed c)].
Definition o_clauses (c : catalogue) (names : list str) : out :=
  OL [o_bool (p_partition c names); o_bool (p_major_distinct c); o_bool (p_core_split c); o_bool (p_minor_distinct c);
      o_bool (p_config_exists c); o_bool (p_partial_content c)].
