(* MinorModel.v — the ILP of aldy/minor.py:solve_minor_model as ONE generator [gen] (C04).
   The instance is a serialisation of aldy's own Gene / Coverage / MajorSolution facts for one call of
   solve_minor_model, in the iteration order the implementation used.  No proofs here.

   minor.py anchors: allele copies 146-155, VA/CORD 157-163, CCNT/CCNT_OTHER 167-179, VKEEP/VNEW 185-220,
   VERR + products 223-234, reference sites + CONE 237-259, CCOV 265-272, rules 1-6 287-366, phase 369-430,
   objective 433-471. *)
From Aldy Require Import Base Consts Lp.
Open Scope Z_scope.

(* ---- instance ---- *)
Record mutn := {                  (* one element of the pooled [mutations] set *)
  m_id : Z;                       (* index in iteration order *)
  m_pos : Z;
  m_op : Z;                       (* code of the operation string (0 = "_"); only compared for equality *)
  m_ins : bool;                   (* op[:3] == "ins" *)
  m_func : bool;                  (* gene.is_functional(m) *)
  m_cov : Q;                      (* coverage[m]  (filtered) *)
  m_total : Q;                    (* coverage.total(m) *)
  m_pcn : Q }.                    (* cn_solution.position_cn(m.pos) *)

Record site := {                  (* one element of set(m.pos for m in mutations) *)
  s_pos : Z;
  s_pcn : Q;                      (* position_cn(pos) *)
  s_cov : Q;                      (* coverage[Mutation(pos, "_")] *)
  s_total : Q }.                  (* coverage.total(Mutation(pos, "_")) *)

Record cand := {                  (* one distinct element of alleles_list: a catalogued minor allele *)
  c_id : Z;
  c_major : Z;                    (* code of the major allele name *)
  c_def : list Z;                 (* ids of func_muts | neutral_muts *)
  c_core : list Z;                (* ids of gene.alleles[major].func_muts *)
  c_covpos : list Z }.            (* positions p among the sites with gene.has_coverage(major, p) *)

Record inst := {
  i_muts : list mutn;
  i_sites : list site;
  i_cands : list cand;
  i_majors : list (Z * Z);        (* major_sol.solution.items(): (major code, copies) *)
  i_phases : option (list (list (Z * Z)));   (* Sample.phases values in order: fragment = [(pos, op code)]; None = phase off / no sample *)
  i_miss : Q; i_add : Q; i_phase : Q;        (* profile.minor_miss / minor_add / minor_phase *)
  i_phase_vars : Z;               (* profile.minor_phase_vars *)
  i_maxcn : Q }.                  (* cn_solution.max_cn() *)

(* ---- allele copies (146-155): all candidates with index 0 first, then the extra copies ---- *)
Definition ainst := (cand * Z)%type.
Definition cnt_of (i : inst) (c : cand) : Z :=
  match alookup Z.eqb (c_major c) (i_majors i) with Some n => n | None => 0 end.
Definition extra_copies (i : inst) (c : cand) : list ainst :=
  map (fun k => (c, Z.of_nat k)) (seq 1 (Z.to_nat (cnt_of i c) - 1)).
Definition insts (i : inst) : list ainst :=
  map (fun c => (c, 0)) (i_cands i) ++ flat_map (extra_copies i) (i_cands i).

(* ---- variable roles ---- *)
Definition kA (a : ainst) : vkey := [1; c_id (fst a); snd a].
Definition kK (a : ainst) (m : mutn) : vkey := [2; c_id (fst a); snd a; m_id m].
Definition kMK (a : ainst) (m : mutn) : vkey := [3; c_id (fst a); snd a; m_id m].
Definition kN (a : ainst) (m : mutn) : vkey := [4; c_id (fst a); snd a; m_id m].
Definition kMN (a : ainst) (m : mutn) : vkey := [5; c_id (fst a); snd a; m_id m].
Definition kE (m : mutn) : vkey := [6; m_id m].
Definition kR (s : site) : vkey := [7; s_pos s].
Definition kPH (a : ainst) (ri : Z) : vkey := [8; c_id (fst a); snd a; ri].
Definition kP2 (a : ainst) (ri j : Z) : vkey := [9; c_id (fst a); snd a; ri; j].
Definition kP3 (a : ainst) (ri j : Z) : vkey := [10; c_id (fst a); snd a; ri; j].
Definition kVO (m : mutn) : vkey := [11; m_id m].

(* ---- membership facts ---- *)
Definition in_def (a : ainst) (m : mutn) : bool := memb Z.eqb (m_id m) (c_def (fst a)).
Definition in_core (a : ainst) (m : mutn) : bool := memb Z.eqb (m_id m) (c_core (fst a)).
Definition has_cov (a : ainst) (pos : Z) : bool := memb Z.eqb pos (c_covpos (fst a)).
Definition is_new (a : ainst) (m : mutn) : bool := has_cov a (m_pos m) && negb (in_def a m).
Definition defs (i : inst) (a : ainst) : list mutn := filter (in_def a) (i_muts i).      (* keys of VKEEP[a] *)
Definition news (i : inst) (a : ainst) : list mutn := filter (is_new a) (i_muts i).      (* keys of VNEW[a]  *)
Definition at_pos (pos : Z) (l : list mutn) : list mutn := filter (fun m => m_pos m =? pos) l.
Definition nonins_at (pos : Z) (l : list mutn) : list mutn := filter (fun m => (m_pos m =? pos) && negb (m_ins m)) l.

(* ---- small row constructors ---- *)
Definition mkrow (l : lin) (r : rel) (k : Q) : row := {| r_lin := l; r_rel := r; r_rhs := k |}.
Definition sumv (vs : list vkey) : lin := map (fun v => (1%Q, v)) vs.
Definition negv (vs : list vkey) : lin := map (fun v => ((-1)%Q, v)) vs.
Definition qlen {A} (l : list A) : Q := inject_Z (Z.of_nat (length l)).

(* observed copies: coverage[m] / single_copy(m)   (coverage.py:94-107, minor.py:266-269) *)
Definition obs (cov total pcn : Q) : Q :=
  if Qltb 0 pcn then (cov / (Qmax' 1 total / pcn))%Q else 0%Q.

(* ---- constraint families ---- *)
Definition rows_cord (i : inst) : list row :=
  flat_map (fun a : ainst => if 0 <? snd a then [mkrow [(1%Q, kA a); ((-1)%Q, kA (fst a, snd a - 1))] RLe 0%Q] else [])
           (insts i).

Definition of_major (mj : Z) (a : ainst) : bool := c_major (fst a) =? mj.
Definition rows_ccnt (i : inst) : list row :=
  flat_map (fun mc : Z * Z =>
              let e := sumv (map kA (filter (of_major (fst mc)) (insts i))) in
              [mkrow e RLe (inject_Z (snd mc)); mkrow e RGe (inject_Z (snd mc))]) (i_majors i).
Definition total_copies (i : inst) : Z := zsum (map snd (i_majors i)).
Definition rows_other (i : inst) : list row :=
  [mkrow (sumv (map kA (insts i))) RLe (inject_Z (total_copies i))].

(* products MUL_K = A * K, MUL_N = A * N (223-234) *)
Definition rows_prod (i : inst) : list row :=
  flat_map (fun m => flat_map (fun a =>
      if in_def a m then prod_rows (kMK a m) [kA a; kK a m]
      else if has_cov a (m_pos m) then prod_rows (kMN a m) [kA a; kN a m] else []) (insts i)) (i_muts i).

(* carriers of a variant: the expression of its coverage equation and of rule 5 *)
Definition mut_keys (i : inst) (m : mutn) : list vkey :=
  flat_map (fun a => if in_def a m then [kMK a m] else if has_cov a (m_pos m) then [kMN a m] else []) (insts i).
Definition mut_terms (i : inst) (m : mutn) : lin := sumv (mut_keys i m).

(* reference copies at a site (237-254) *)
Definition ref_terms_a (i : inst) (pos : Z) (a : ainst) : lin :=
  if has_cov a pos then
    match nonins_at pos (defs i a) with
    | [p] => [(1%Q, kA a); ((-1)%Q, kMK a p)]
    | _ => (1%Q, kA a) :: negv (map (kMN a) (nonins_at pos (news i a)))
    end
  else [].
Definition ref_terms (i : inst) (pos : Z) : lin := flat_map (ref_terms_a i pos) (insts i).

Definition rows_cone (i : inst) : list row :=
  flat_map (fun s => flat_map (fun a =>
      if has_cov a (s_pos s) then
        match nonins_at (s_pos s) (defs i a) with
        | [_] => []
        | _ => [mkrow (sumv (map (kN a) (nonins_at (s_pos s) (news i a)))) RLe 1%Q]
        end
      else []) (insts i)) (i_sites i).

Definition obs_mut (m : mutn) : Q := obs (m_cov m) (m_total m) (m_pcn m).
Definition obs_site (s : site) : Q := obs (s_cov s) (s_total s) (s_pcn s).
Definition rows_ccov (i : inst) : list row :=
  flat_map (fun m => let e := mut_terms i m ++ [(1%Q, kE m)] in
                     [mkrow e RGe (obs_mut m); mkrow e RLe (obs_mut m)]) (i_muts i) ++
  flat_map (fun s => let e := ref_terms i (s_pos s) ++ [(1%Q, kR s)] in
                     [mkrow e RGe (obs_site s); mkrow e RLe (obs_site s)]) (i_sites i).

(* rule 1: CVK / CVN *)
Definition rows_cvk (i : inst) : list row :=
  flat_map (fun a => map (fun m => mkrow [(1%Q, kK a m); ((-1)%Q, kA a)] RLe 0%Q) (defs i a)) (insts i).
Definition rows_cvn (i : inst) : list row :=
  flat_map (fun a => map (fun m => mkrow [(1%Q, kN a m); ((-1)%Q, kA a)] RLe 0%Q) (news i a)) (insts i).
(* rule 2: CFUNC *)
Definition rows_cfunc (i : inst) : list row :=
  flat_map (fun a => map (fun m => mkrow [(1%Q, kK a m); ((-1)%Q, kA a)] RGe 0%Q) (filter m_func (defs i a))) (insts i).
(* rule 3: CZERO *)
Definition rows_czero (i : inst) : list row :=
  flat_map (fun a => map (fun m => mkrow [(1%Q, kK a m)] RLe 0%Q)
                         (filter (fun m => negb (has_cov a (m_pos m))) (defs i a))) (insts i).
(* rule 4: CSINGLE / CSINGLEFULL *)
Definition site_mp (i : inst) (pos : Z) (a : ainst) : list vkey := map (kMK a) (at_pos pos (defs i a)).
Definition site_ma (i : inst) (pos : Z) (a : ainst) : list vkey := map (kMN a) (at_pos pos (news i a)).
Definition rows_csingle (i : inst) : list row :=
  flat_map (fun s => flat_map (fun a =>
      let mp := site_mp i (s_pos s) a in let ma := site_ma i (s_pos s) a in
      (if (1 <? length ma)%nat then [mkrow (sumv ma) RLe 1%Q] else []) ++
      (if (1 <? length ma + length mp)%nat then [mkrow (sumv (mp ++ ma)) RLe 1%Q] else [])) (insts i)) (i_sites i).
(* rule 5: CNOCOV / CMAXCOV / CMINONE *)
Definition no_reads (m : mutn) : bool := Qeqb (m_pcn m) 0 || Qeqb (m_cov m) 0.
Definition rows_cmut (i : inst) : list row :=
  flat_map (fun m => let e := mut_terms i m in
      if no_reads m then [mkrow e RLe 0%Q] else [mkrow e RLe (m_cov m); mkrow e RGe 1%Q]) (i_muts i).
(* rule 6: the same for reference sites *)
Definition site_e (i : inst) (pos : Z) (a : ainst) : list vkey := site_mp i pos a ++ site_ma i pos a.
Definition site_expr (i : inst) (pos : Z) : lin :=
  flat_map (fun a => (qlen (site_e i pos a), kA a) :: negv (site_e i pos a)) (insts i).
Definition max_mut (i : inst) (pos : Z) : Q :=
  fold_left (fun acc a => Qmax' acc (qlen (site_e i pos a))) (insts i) 0%Q.
Definition rows_cref (i : inst) : list row :=
  match insts i with
  | [] => []
  | _ => map (fun s => if Qeqb (s_pcn s) 0 then mkrow (site_expr i (s_pos s)) RLe 0%Q
                       else mkrow (site_expr i (s_pos s)) RLe (Qmax' (Qmax' (s_pcn s) (s_cov s)) (max_mut i (s_pos s))))
             (i_sites i)
  end.

(* ---- rule 7: phase ---- *)
Definition mode := list (Z * Z).                 (* [(pos, op code)] sorted by position *)
Fixpoint mode_ins (x : Z * Z) (l : mode) : mode :=
  match l with
  | [] => [x]
  | y :: t => if fst x <? fst y then x :: l else y :: mode_ins x t
  end.
Definition mode_sort (l : mode) : mode := fold_right mode_ins [] l.
Fixpoint mode_eqb (a b : mode) : bool :=
  match a, b with
  | [], [] => true
  | x :: a', y :: b' => (fst x =? fst y) && (snd x =? snd y) && mode_eqb a' b'
  | _, _ => false
  end.
Definition mut_positions (i : inst) : list Z := map m_pos (i_muts i).
Definition bump (k : mode) (l : list (mode * Z)) : list (mode * Z) :=
  match alookup mode_eqb k l with Some n => aset mode_eqb k (n + 1) l | None => l ++ [(k, 1)] end.
Definition all_modes (i : inst) : list (mode * Z) :=
  match i_phases i with
  | None => []
  | Some frags =>
      fold_left (fun acc fr =>
                   let c := mode_sort (filter (fun kv => memb Z.eqb (fst kv) (mut_positions i)) fr) in
                   if (1 <? length c)%nat then bump c acc else acc) frags []
  end.
Fixpoint every_nth {A} (fuel : nat) (step : nat) (l : list A) : list A :=
  match fuel, l with
  | S f, x :: _ => x :: every_nth f step (skipn step l)
  | _, _ => []
  end.
(* down-sampling (384-392): keep every floor(#modes * #alleles / minor_phase_vars)-th mode *)
Definition modes (i : inst) : list (mode * Z) :=
  let ms := all_modes i in
  let nm := Z.of_nat (length ms) in let na := Z.of_nat (length (insts i)) in
  if (i_phase_vars i <? nm * na) && (0 <? i_phase_vars i)
  then every_nth (length ms) (Z.to_nat (Z.max 1 ((nm * na) / i_phase_vars i))) ms
  else ms.
Fixpoint enumerate {A} (k : Z) (l : list A) : list (Z * A) :=
  match l with [] => [] | x :: t => (k, x) :: enumerate (k + 1) t end.

Definition mode_op (r : mode) (pos : Z) : option Z := alookup Z.eqb pos r.
Definition informative (i : inst) (a : ainst) (r : mode) : list mutn :=
  filter (fun m => amem Z.eqb (m_pos m) r && has_cov a (m_pos m)) (i_muts i).
Definition agrees (r : mode) (m : mutn) : bool :=
  match mode_op r (m_pos m) with Some o => m_op m =? o | None => false end.
Definition sel_var (a : ainst) (m : mutn) : vkey := if in_def a m then kK a m else kN a m.
Definition ph_pos (i : inst) (a : ainst) (r : mode) : list vkey := map (sel_var a) (filter (agrees r) (informative i a r)).
Definition ph_neg (i : inst) (a : ainst) (r : mode) : list vkey :=
  map (sel_var a) (filter (fun m => negb (agrees r m)) (informative i a r)).
Definition ph_active (i : inst) (a : ainst) (r : mode) : bool := (1 <? length (informative i a r))%nat.

Definition rows_phase (i : inst) : list row :=
  flat_map (fun rm : Z * (mode * Z) =>
    let ri := fst rm in let r := fst (snd rm) in
    flat_map (fun a =>
      if ph_active i a r then
        mkrow [(1%Q, kPH a ri); ((-1)%Q, kA a)] RLe 0%Q ::
        flat_map (fun jv : Z * vkey => prod_rows (kP2 a ri (fst jv)) [kPH a ri; snd jv]) (enumerate 0 (ph_pos i a r)) ++
        flat_map (fun jv : Z * vkey => prod_rows (kP3 a ri (fst jv)) [kPH a ri; snd jv]) (enumerate 0 (ph_neg i a r))
      else []) (insts i) ++
    (match filter (fun a => ph_active i a r) (insts i) with
     | [] => []
     | act => let e := sumv (map (fun a => kPH a ri) act) in [mkrow e RLe 1%Q; mkrow e RGe 1%Q]
     end)) (enumerate 0 (modes i)).

Definition phase_lin (i : inst) : lin :=
  flat_map (fun rm : Z * (mode * Z) =>
    let ri := fst rm in let r := fst (snd rm) in let w := (i_phase i * inject_Z (snd (snd rm)))%Q in
    flat_map (fun a =>
      if ph_active i a r then
        flat_map (fun jv : Z * vkey => [(w, kPH a ri); (Qopp w, kP2 a ri (fst jv))]) (enumerate 0 (ph_pos i a r)) ++
        map (fun jv : Z * vkey => (w, kP3 a ri (fst jv))) (enumerate 0 (ph_neg i a r))
      else []) (insts i)) (enumerate 0 (modes i)).

Definition vars_phase (i : inst) : list (vkey * vkind) :=
  flat_map (fun rm : Z * (mode * Z) =>
    let ri := fst rm in let r := fst (snd rm) in
    flat_map (fun a =>
      if ph_active i a r then
        (kPH a ri, KBin) ::
        map (fun jv : Z * vkey => (kP2 a ri (fst jv), KBin)) (enumerate 0 (ph_pos i a r)) ++
        map (fun jv : Z * vkey => (kP3 a ri (fst jv), KBin)) (enumerate 0 (ph_neg i a r))
      else []) (insts i)) (enumerate 0 (modes i)).

(* ---- objective (433-471) ---- *)
Definition err_keys (i : inst) : list vkey := map kE (i_muts i) ++ map kR (i_sites i).
Definition miss_lin (i : inst) : lin :=
  map (fun a => ((i_miss i * qlen (defs i a))%Q, kA a)) (insts i) ++
  flat_map (fun a => map (fun m => (Qopp (i_miss i), kMK a m)) (defs i a)) (insts i).
Definition new_pairs (i : inst) : list (ainst * mutn) :=
  flat_map (fun a => map (fun m => (a, m)) (news i a)) (insts i).
Definition add_lin (c : consts) (i : inst) : lin :=
  map (fun kp : Z * (ainst * mutn) =>
         ((i_add i * (1 + inject_Z (fst kp) / c_minor_tie_den c))%Q, kN (fst (snd kp)) (snd (snd kp))))
      (enumerate 0 (new_pairs i)).
(* novel functional additions: one OR variable per variant (452-465) *)
Definition vo_vars (i : inst) (m : mutn) : list vkey :=
  map (fun a => kN a m) (filter (fun a => is_new a m && m_func m && negb (in_core a m)) (insts i)).
Definition vo_muts (i : inst) : list mutn := filter (fun m => match vo_vars i m with [] => false | _ => true end) (i_muts i).
Definition rows_vnewor (i : inst) : list row :=
  flat_map (fun m => mkrow ((1%Q, kVO m) :: negv (vo_vars i m)) RLe 0%Q ::
                     map (fun v => mkrow [(1%Q, kVO m); ((-1)%Q, v)] RGe 0%Q) (vo_vars i m)) (vo_muts i).
Definition vo_lin (c : consts) (i : inst) : lin := map (fun m => ((i_add i / c_minor_vnewor_div c)%Q, kVO m)) (vo_muts i).

Definition pen_lin (c : consts) (i : inst) : lin := miss_lin i ++ add_lin c i ++ vo_lin c i ++ phase_lin i.

(* ---- the model ---- *)
Definition gen_vars (i : inst) : list (vkey * vkind) :=
  map (fun a => (kA a, KBin)) (insts i) ++
  flat_map (fun a => flat_map (fun m => [(kK a m, KBin); (kMK a m, KBin)]) (defs i a)) (insts i) ++
  flat_map (fun a => flat_map (fun m => [(kN a m, KBin); (kMN a m, KBin)]) (news i a)) (insts i) ++
  map (fun k => (k, KCont None None)) (err_keys i) ++
  vars_phase i ++
  abssum_vars (err_keys i) ++
  map (fun m => (kVO m, KBin)) (vo_muts i).

Definition gen_rows (i : inst) : list row :=
  rows_cord i ++ rows_ccnt i ++ rows_other i ++ rows_prod i ++ rows_cone i ++ rows_ccov i ++
  rows_cvk i ++ rows_cvn i ++ rows_cfunc i ++ rows_czero i ++ rows_csingle i ++ rows_cmut i ++ rows_cref i ++
  rows_phase i ++ abssum_rows (err_keys i) ++ rows_vnewor i.

Definition gen (c : consts) (i : inst) : lp :=
  {| lp_vars := gen_vars i;
     lp_rows := gen_rows i;
     lp_obj := abssum_lin (fun _ => 1%Q) (err_keys i) ++ pen_lin c i;
     lp_const := 0%Q |}.

(* ---- decidable side conditions of an instance (checked by the harness on every instance aldy produces) ---- *)
Fixpoint nodupb (l : list Z) : bool :=
  match l with [] => true | x :: t => negb (memb Z.eqb x t) && nodupb t end.
Definition inst_wf (i : inst) : bool :=
  nodupb (map m_id (i_muts i)) && nodupb (map c_id (i_cands i)) && nodupb (map fst (i_majors i)) &&
  nodupb (map s_pos (i_sites i)) &&
  forallb (fun m => memb Z.eqb (m_pos m) (map s_pos (i_sites i))) (i_muts i) &&
  forallb (fun s => memb Z.eqb (s_pos s) (mut_positions i)) (i_sites i) &&
  forallb (fun c => forallb (fun d => memb Z.eqb d (map m_id (i_muts i))) (c_def c) &&
                    forallb (fun d => memb Z.eqb d (c_def c)) (c_core c)) (i_cands i) &&
  (* one non-insertion variant per site in every definition (the assertion at minor.py:247) *)
  forallb (fun c => forallb (fun s => (length (nonins_at (s_pos s) (defs i (c, 0%Z))) <=? 1)%nat) (i_sites i)) (i_cands i) &&
  (* core = functional part of the definition (gene.py: func_muts / neutral_muts split) *)
  forallb (fun c => forallb (fun m => Bool.eqb (m_func m) (in_core (c, 0) m)) (defs i (c, 0))) (i_cands i).
