(* CnModel.v — the copy-number ILP exactly as aldy/cn.py:solve_cn_model builds it (C03), as an [Lp.lp]
   keyed by role.  One generator [gen], used by the proofs (membership in [lp_rows (gen i)]) and by the
   structural tie (harness/c03.py compares its canonical form with the rows read back from OR-Tools).
   No proofs here. *)
From Coq Require Import String.
From Aldy Require Import Base Consts Lp.
Import List.
Open Scope Z_scope.

(* ---- aldy's own Gene facts, serialised by the harness from the loaded Gene object ---- *)
Inductive ckind := CDefault | CLeft | CRight | CDeletion | CCustom.        (* gene.CNConfigType *)
Definition cnvec := list (list (str * Z)).          (* CNConfig.cn: per gene index, region -> copies *)
Record config := { cf_name : str; cf_kind : ckind; cf_cn : cnvec }.

Record cn_params := {                               (* Profile attributes read by solve_cn_model *)
  p_cn_max : Q; p_cn_diff : Q; p_cn_fit : Q; p_cn_pce : Q; p_cn_pars : Q;
  p_fus_left : Q; p_fus_right : Q; p_gap : Q }.

Record cn_inst := {
  i_gene_configs : list config;      (* gene.cn_configs (dict order) *)
  i_ngenes : Z;                      (* len(gene.regions): 1 + number of pseudogenes *)
  i_unique : list str;               (* gene.unique_regions *)
  i_configs : list config;           (* the cn_configs argument (after _filter_configs) *)
  i_max_cn : Z;
  i_cov : list (str * (Q * Q));      (* region_coverage, dict order *)
  i_fusion : option (list (str * Q));(* fusion_support *)
  i_par : cn_params }.

Definition is_default (k : ckind) : bool := match k with CDefault => true | _ => false end.
Definition is_deletion (k : ckind) : bool := match k with CDeletion => true | _ => false end.

(* gene.deletion_allele(): first configuration of kind DELETION *)
Definition deletion_allele (cfgs : list config) : option str :=
  match filter (fun c => is_deletion (cf_kind c)) cfgs with c :: _ => Some (cf_name c) | [] => None end.
Definition i_del (i : cn_inst) : option str := deletion_allele (i_gene_configs i).
Definition is_del_name (i : cn_inst) (n : str) : bool :=
  match i_del i with Some d => str_eqb n d | None => false end.

Definition PSEUDO : str := s "PSEUDO".
Definition ONE : str := s "1".
Definition PCE : str := s "pce".

(* ---- slots (cn.py:154-181) ---- *)
Definition slot := (str * Z)%type.                  (* (configuration name, number) *)
Definition slot_eqb (a b : slot) : bool := str_eqb (fst a) (fst b) && (snd a =? snd b).
Definition structure := (slot * cnvec)%type.

(* weak-fusion filter (cn.py:157-160) *)
Definition keep (i : cn_inst) (c : config) : bool :=
  match i_fusion i with
  | None => true
  | Some [] => true
  | Some fs =>
      str_eqb (cf_name c) ONE || is_del_name i (cf_name c) ||
      match alookup str_eqb (cf_name c) fs with
      | Some v => Qleb (1 / (2 * inZ (i_max_cn i))) v
      | None => false
      end
  end.
Definition kept (i : cn_inst) : list config := filter (keep i) (i_configs i).

Definition zrange (lo hi : Z) : list Z := map (fun k => lo + Z.of_nat k) (seq 0 (Z.to_nat (hi - lo))).  (* range(lo, hi) *)

(* "weak configuration": one copy removed in every pseudogene region *)
Definition weaken (cn : cnvec) : cnvec :=
  match cn with [] => [] | g0 :: rest => g0 :: map (map (fun rv => (fst rv, snd rv - 1))) rest end.

Definition second_and_extras (i : cn_inst) (c : config) : list structure :=
  ((cf_name c, -1), cf_cn c) ::
  (if is_default (cf_kind c) then map (fun k => ((cf_name c, k), weaken (cf_cn c))) (zrange 1 (i_max_cn i)) else []).

Definition pseudo_slots (i : cn_inst) : list structure :=
  match i_del i with
  | Some d =>
      if 1 <? i_ngenes i then
        match find (fun c => str_eqb (cf_name c) d) (kept i) with
        | Some c => map (fun k => ((PSEUDO, k + 1), cf_cn c)) (zrange 0 (i_max_cn i))
        | None => []                                  (* aldy: KeyError; excluded by [inst_ok] *)
        end
      else []
  | None => []
  end.

Definition structures (i : cn_inst) : list structure :=
  map (fun c => ((cf_name c, 0), cf_cn c)) (kept i) ++ flat_map (second_and_extras i) (kept i) ++ pseudo_slots i.
Definition slots (i : cn_inst) : list slot := map fst (structures i).

(* the instance does not make aldy raise KeyError / ZeroDivisionError *)
Definition inst_ok (i : cn_inst) : bool :=
  match i_del i with Some d => existsb (fun c => str_eqb (cf_name c) d) (i_configs i) | None => true end &&
  (1 <=? i_max_cn i) && negb (Nat.eqb (length (i_unique i)) 0) &&
  forallb (fun rc => Qleb 0 (fst (snd rc)) && Qleb 0 (snd (snd rc))) (i_cov i).

(* ---- variable roles ---- *)
Definition vcn (sl : slot) : vkey := 0 :: snd sl :: fst sl.       (* CN_<name>_<number> *)
Definition verr (r : str) : vkey := 1 :: r.                        (* E_<region> *)
Definition verrg (r : str) : vkey := 2 :: r.                       (* EG_<region> *)

Definition row_le (l : lin) (b : Q) : row := {| r_lin := l; r_rel := RLe; r_rhs := b |}.
Definition row_ge (l : lin) (b : Q) : row := {| r_lin := l; r_rel := RGe; r_rhs := b |}.

Definition is_complete (sl : slot) : bool := snd sl <=? 0.

(* CDIPLO (cn.py:189-191) *)
Definition diplo_lin (sl : list slot) : lin := map (fun x => (1%Q, vcn x)) (filter is_complete sl).
Definition cdiplo (sl : list slot) : list row := [row_le (diplo_lin sl) 2; row_ge (diplo_lin sl) 2].

(* CDEL (cn.py:194-197) *)
Definition cdel (d : option str) (sl : list slot) : list row :=
  match d with
  | None => []
  | Some d => map (fun x => row_le [(1%Q, vcn x); (1%Q, vcn (d, -1))] 1)
                  (filter (fun x => negb (str_eqb (fst x) d)) sl)
  end.

(* CORD (cn.py:200-206) *)
Definition cord_rows (x : slot) : list row :=
  if snd x =? -1 then [row_le [(1%Q, vcn x); ((-1)%Q, vcn (fst x, 0))] 0]
  else if 1 <? snd x then [row_le [(1%Q, vcn x); ((-1)%Q, vcn (fst x, snd x - 1))] 0]
  else [].
Definition cord (sl : list slot) : list row := flat_map cord_rows sl.

(* per-region fit equations (cn.py:209-236) *)
Definition cn_at (cn : cnvec) (g : nat) (r : str) : Z :=
  match nth_error cn g with
  | Some m => match alookup str_eqb r m with Some v => v | None => 0 end
  | None => 0
  end.
Definition gcopies (r : str) (st : structure) : Z := cn_at (snd st) 0 r.      (* structure.cn[0][r] *)
Definition pcopies (r : str) (st : structure) : Z := cn_at (snd st) 1 r.      (* structure.cn[1][r] *)
Definition gcoef (r : str) (st : structure) : Q := inZ (gcopies r st).
Definition pcoef (r : str) (st : structure) : Q := inZ (pcopies r st).
Definition scale_of (c : Q * Q) : Q := (Qmax' (fst c) (snd c) + 1)%Q.

Definition used_cov (i : cn_inst) : list (str * (Q * Q)) :=
  filter (fun rc => memb str_eqb (fst rc) (i_unique i)) (i_cov i).

Definition gene_lin (sts : list structure) (r : str) : lin :=
  map (fun st => (gcoef r st, vcn (fst st))) sts ++ [(1%Q, verrg r)].
Definition diff_lin (sts : list structure) (r : str) (c : Q * Q) : lin :=
  map (fun st => (((gcoef r st - pcoef r st) / scale_of c)%Q, vcn (fst st))) sts ++ [(1%Q, verr r)].
Definition region_rows (sts : list structure) (rc : str * (Q * Q)) : list row :=
  let r := fst rc in let c := snd rc in
  [ row_le (gene_lin sts r) (fst c); row_ge (gene_lin sts r) (fst c);
    row_le (diff_lin sts r c) ((fst c - snd c) / scale_of c)%Q;
    row_ge (diff_lin sts r c) ((fst c - snd c) / scale_of c)%Q ].

(* objective coefficients (cn.py:240-262) *)
Definition n_unique (i : cn_inst) : Q := inZ (Z.of_nat (length (i_unique i))).
Definition diff_coeff (i : cn_inst) : Q := (p_cn_diff (i_par i) / n_unique i)%Q.
Definition fit_coeff (i : cn_inst) : Q := (p_cn_fit (i_par i) / n_unique i)%Q.
Definition pars_penalty (c : consts) (i : cn_inst) : Q := (c_cn_pars_num c / n_unique i * c_cn_pars_factor c)%Q.
Definition pce_coeff (i : cn_inst) (r : str) : Q := if str_eqb r PCE then p_cn_pce (i_par i) else 1%Q.
Definition penalty (c : consts) (i : cn_inst) (n : str) : Q :=
  let P := pars_penalty c i in
  match find (fun g => str_eqb (cf_name g) n) (i_gene_configs i) with
  | Some g => match cf_kind g with
              | CRight => (P + P * p_fus_right (i_par i))%Q
              | CLeft => (P + P * p_fus_left (i_par i))%Q
              | _ => P
              end
  | None => P
  end.

Definition err_var (i : cn_inst) (k : vkey) : vkey * vkind :=
  (k, KCont (Some (- p_cn_max (i_par i))%Q) (Some (p_cn_max (i_par i)))).

Definition gen (c : consts) (i : cn_inst) : lp :=
  let sts := structures i in
  let sl := slots i in
  let regs := map fst (used_cov i) in
  {| lp_vars :=
       map (fun x => (vcn x, KBin)) sl ++
       flat_map (fun r => [err_var i (verrg r); err_var i (verr r)]) regs ++
       abssum_vars (map verr regs) ++ abssum_vars (map verrg regs);
     lp_rows :=
       cdiplo sl ++ cdel (i_del i) sl ++ cord sl ++ flat_map (region_rows sts) (used_cov i) ++
       abssum_rows (map verr regs) ++ abssum_rows (map verrg regs);
     lp_obj :=
       map (fun r => ((diff_coeff i * pce_coeff i r)%Q, abs_key (verr r))) regs ++
       map (fun r => (fit_coeff i, abs_key (verrg r))) regs ++
       map (fun x => ((p_cn_pars (i_par i) * penalty c i (fst x))%Q, vcn x)) sl;
     lp_const := 0%Q |}.
