(* NatSort.v — natsort 8.x default key (ns.DEFAULT = INT, unsigned) and Python's comparison of such keys.
   natsort.natsort_keygen()(name): the name is split at maximal runs of decimal digits, empty pieces are dropped,
   digit runs become ints, and '' is put in front when the first piece is a number, so a key always alternates
   str, int, str, ... starting with a str.  A list of names gets the tuple of the keys of its elements.
   Python compares tuples lexicographically (a proper prefix is smaller); str by code points; int by value;
   comparing a str with an int would raise TypeError ([key_typed] says it is never reached on keys).
   Restricted to ASCII names (natsort also treats other Unicode digits as numbers and NFD-normalises).
   [sorted]/[natsorted] are stable: [isort] is the stable insertion sort that uses `<` only, as Python does.
   No proofs here. *)
From Aldy Require Import Base.
Open Scope Z_scope.

Definition ns_digit (c : Z) : bool := (48 <=? c) && (c <=? 57).

Inductive kitem := KS (t : str) | KN (z : Z).

Fixpoint digits_val (acc : Z) (t : str) : Z :=
  match t with [] => acc | c :: r => digits_val (10 * acc + (c - 48)) r end.

(* maximal runs, flagged digit / non-digit  ( re.split(r"(\d+)", name) without the empty pieces ) *)
Fixpoint runs (t : str) : list (bool * str) :=
  match t with
  | [] => []
  | c :: r =>
    let d := ns_digit c in
    match runs r with
    | (d', run) :: rest => if Bool.eqb d d' then (d, c :: run) :: rest else (d, [c]) :: (d', run) :: rest
    | [] => [(d, [c])]
    end
  end.

Definition item_of (r : bool * str) : kitem := if fst r then KN (digits_val 0 (snd r)) else KS (snd r).

Definition nkey (t : str) : list kitem :=
  match runs t with
  | (true, r) :: rest => KS [] :: map item_of ((true, r) :: rest)
  | rs => map item_of rs
  end.

(* ---- comparison ---- *)
Fixpoint str_cmp (a b : str) : comparison :=
  match a, b with
  | [], [] => Eq
  | [], _ :: _ => Lt
  | _ :: _, [] => Gt
  | x :: a', y :: b' => match x ?= y with Eq => str_cmp a' b' | c => c end
  end.

(* mixed comparisons are a TypeError in Python; the arbitrary answer given here is never used on keys *)
Definition item_cmp (a b : kitem) : comparison :=
  match a, b with
  | KS x, KS y => str_cmp x y
  | KN x, KN y => x ?= y
  | KS _, KN _ => Lt
  | KN _, KS _ => Gt
  end.

Section Lex.
  Context {A : Type} (cmp : A -> A -> comparison).
  Fixpoint lex_cmp (a b : list A) : comparison :=
    match a, b with
    | [], [] => Eq
    | [], _ :: _ => Lt
    | _ :: _, [] => Gt
    | x :: a', y :: b' => match cmp x y with Eq => lex_cmp a' b' | c => c end
    end.
End Lex.

Definition key_cmp : list kitem -> list kitem -> comparison := lex_cmp item_cmp.          (* key of one name *)
Definition keys_cmp : list (list kitem) -> list (list kitem) -> comparison := lex_cmp key_cmp.  (* key of a list of names *)

Definition is_lt (c : comparison) : bool := match c with Lt => true | _ => false end.
Definition is_le (c : comparison) : bool := match c with Gt => false | _ => true end.

Definition name_ltb (a b : str) : bool := is_lt (key_cmp (nkey a) (nkey b)).
Definition name_leb (a b : str) : bool := is_le (key_cmp (nkey a) (nkey b)).
Definition names_ltb (a b : list str) : bool := is_lt (keys_cmp (map nkey a) (map nkey b)).
Definition names_leb (a b : list str) : bool := is_le (keys_cmp (map nkey a) (map nkey b)).

(* does Python reach a str/int comparison when it compares these two keys? (false = TypeError) *)
Definition same_kind (a b : kitem) : bool :=
  match a, b with KS _, KS _ => true | KN _, KN _ => true | _, _ => false end.
Fixpoint key_typed (a b : list kitem) : bool :=
  match a, b with
  | x :: a', y :: b' => same_kind x y && match item_cmp x y with Eq => key_typed a' b' | _ => true end
  | _, _ => true
  end.
(* the shape natsort promises: str, int, str, int, ... *)
Fixpoint alternates (want_str : bool) (k : list kitem) : bool :=
  match k with
  | [] => true
  | KS _ :: r => want_str && alternates false r
  | KN _ :: r => negb want_str && alternates true r
  end.

(* ---- stable sort that only uses `<` on the keys (Python's sorted / natsorted) ---- *)
Section Sort.
  Context {A : Type} (ltb : A -> A -> bool).
  Fixpoint insert (x : A) (l : list A) : list A :=
    match l with
    | [] => [x]
    | y :: l' => if ltb y x then y :: insert x l' else x :: l
    end.
  Definition isort (l : list A) : list A := fold_right insert [] l.
End Sort.

Definition natsorted (l : list str) : list str := isort name_ltb l.

(* ---- encoders ---- *)
Definition o_kitem (k : kitem) : out := match k with KS t => OL [OZ 0; o_str t] | KN z => OL [OZ 1; OZ z] end.
Definition o_key (k : list kitem) : out := o_list o_kitem k.
