(* Transport.v — C13: the same evidence expressed in two coordinate systems (genome builds / strands).

   A catalogue variant lives at a SITE (the genome position aldy stores it under) and has an operation.  Going from build A to
   build B moves every variant: [tr : variant -> variant].  For two builds on the same strand [tr] only moves positions
   (gene.py:407-438: ref_to_chr); for opposite strands the anchor of a multi-base variant moves to the other end of its
   footprint (gene.py:524-543: SNP/MNP and deletions are anchored at pos + len - 1, insertions at pos + 1) and the operation
   is reverse-complemented.

   The stage models of aldy group three things BY SITE: the reference evidence of a position (major.py:135-146,
   minor.py:237-259), the "one novel variant per site" rule (major.py:147-151) and the "one variant per site and allele" rule
   (minor.py:316-332).  [score] below is the small abstract stage that has exactly this shape: fit of every catalogue variant
   plus fit of the reference evidence of every site that carries a catalogue variant.  No proofs here. *)
From Aldy Require Import Base Consts.
Open Scope Z_scope.

Definition variant := (Z * Z)%type.            (* (site, operation id) *)
Definition site (v : variant) : Z := fst v.
Definition allele := list variant.
Definition combo := list allele.               (* one allele per gene copy *)

Definition veqb (a b : variant) : bool := (fst a =? fst b) && (snd a =? snd b).
Definition carries (a : allele) (v : variant) : bool := existsb (veqb v) a.
Definition covers (a : allele) (s : Z) : bool := existsb (fun v => site v =? s) a.
Definition carried (c : combo) (v : variant) : Z := Z.of_nat (length (filter (fun a => carries a v) c)).
Definition expected_ref (c : combo) (s : Z) : Z := Z.of_nat (length (filter (fun a => negb (covers a s)) c)).

(* evidence: observed copies of a variant, observed reference copies at a site *)
Record evidence := { e_var : variant -> Q; e_ref : Z -> Q }.

Definition var_term (e : evidence) (c : combo) (v : variant) : Q := Qabs' (e_var e v - inZ (carried c v)).
Definition ref_term (e : evidence) (c : combo) (s : Z) : Q := Qabs' (e_ref e s - inZ (expected_ref c s)).

(* reference rows: one per DISTINCT site of the catalogue variants, in order of first occurrence *)
Fixpoint ref_rows (e : evidence) (c : combo) (seen : list Z) (vars : list variant) : Q :=
  match vars with
  | [] => 0%Q
  | v :: r => ((if memb Z.eqb (site v) seen then 0 else ref_term e c (site v)) + ref_rows e c (site v :: seen) r)%Q
  end.
Definition score (vars : list variant) (e : evidence) (c : combo) : Q :=
  (qsum (map (var_term e c) vars) + ref_rows e c [] vars)%Q.

(* [c] is among the best of the candidates *)
Definition is_best (vars : list variant) (e : evidence) (cands : list combo) (c : combo) : bool :=
  forallb (fun c' => Qle_bool (score vars e c) (score vars e c')) cands.

(* the one-novel-variant-per-site rule: a set of novel variants is admissible iff no two share a site *)
Fixpoint one_per_site (novel : list variant) : bool :=
  match novel with
  | [] => true
  | v :: r => negb (existsb (fun w => site w =? site v) r) && one_per_site r
  end.

(* ---- transport ---- *)
Definition tr_allele (tr : variant -> variant) (a : allele) : allele := map tr a.
Definition tr_combo (tr : variant -> variant) (c : combo) : combo := map (tr_allele tr) c.

Definition injective_on (tr : variant -> variant) (vars : list variant) : Prop :=
  forall v w, In v vars -> In w vars -> tr v = tr w -> v = w.
Definition site_preserving (tr : variant -> variant) (vars : list variant) : Prop :=
  forall v w, In v vars -> In w vars -> (site v = site w <-> site (tr v) = site (tr w)).
Definition site_preserving_b (tr : variant -> variant) (vars : list variant) : bool :=
  forallb (fun v => forallb (fun w => Bool.eqb (site v =? site w) (site (tr v) =? site (tr w))) vars) vars.
Definition injective_b (tr : variant -> variant) (vars : list variant) : bool :=
  forallb (fun v => forallb (fun w => implb (veqb (tr v) (tr w)) (veqb v w)) vars) vars.
(* the evidence of build B is the evidence of build A seen through tr *)
Definition transported (tr : variant -> variant) (vars : list variant) (e e' : evidence) : Prop :=
  forall v, In v vars -> (e_var e' (tr v) == e_var e v)%Q /\ (e_ref e' (site (tr v)) == e_ref e (site v))%Q.
Definition within (vars : list variant) (c : combo) : Prop := forall a v, In a c -> In v a -> In v vars.

(* ---- the concrete transports of gene.py ---- *)
(* same strand: positions move through an (injective) position map, operations stay *)
Definition tr_pos (f : Z -> Z) (v : variant) : variant := (f (fst v), snd v).
(* opposite strand: a variant given in RefSeq terms (0-based position p, footprint length len, is-insertion flag) is stored at
   genome site  g (anchor)  where g is decreasing; anchor = p + 1 for insertions, p + len - 1 otherwise (gene.py:529-543) *)
Definition anchor_fwd (p len : Z) (ins : bool) : Z := p.
Definition anchor_rev (p len : Z) (ins : bool) : Z := if ins then p + 1 else p + len - 1.
Definition site_fwd (off : Z) (p len : Z) (ins : bool) : Z := off + anchor_fwd p len ins.
Definition site_rev (top : Z) (p len : Z) (ins : bool) : Z := top - anchor_rev p len ins.

(* ---- witness that site preservation cannot be dropped: T>A (id 1) and delTAC (id 2) at the same RefSeq base ----
   build A (+ strand): both at site 10.  build B (- strand, top = 30): SNP at 30 - 10 = 20, deletion at 30 - (10 + 3 - 1) = 18 *)
Definition w_vars : list variant := [(10, 1); (10, 2)].
Definition w_tr (v : variant) : variant := if snd v =? 1 then (20, 1) else (18, 2).
Definition w_combo : combo := [[(10, 1)]; [(10, 2)]].                 (* planted: one copy with the SNP, one with the deletion *)
Definition w_alt : combo := [[]; [(10, 2)]].                          (* a competitor: reference copy + deletion copy *)
Definition w_e : evidence := {| e_var := fun _ => 1%Q; e_ref := fun _ => 0%Q |}.      (* each variant on one copy, no reference copy at the site *)
Definition w_e' : evidence := {| e_var := fun _ => 1%Q; e_ref := fun _ => 0%Q |}.

(* ---- encoders ---- *)
Definition o_variant (v : variant) : out := OL [OZ (fst v); OZ (snd v)].
