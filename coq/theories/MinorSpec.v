(* MinorSpec.v — combinatorial specification of the minor stage (C04).
   An assignment names, for every selected allele copy, the catalogued minor allele (the copy's candidate), the kept
   subset of its definition and the added subset of the variants addable on it.  [admissible], [score] (with and
   without the tie-breaker), exhaustive [optimum], the post-solve read-out of minor.py:488-505 (homozygous additions),
   and the clause booleans of the property evaluated on a reported assignment.  No proofs here. *)
From Aldy Require Import Base Consts Lp MinorModel.
Open Scope Z_scope.

Record choice := { ch_a : ainst; ch_keep : list Z; ch_add : list Z }.     (* ids of kept / added variants *)
Definition assignment := list choice.

Definition ainst_eqb (a b : ainst) : bool := (c_id (fst a) =? c_id (fst b)) && (snd a =? snd b).
Definition kept (ch : choice) (m : mutn) : bool := memb Z.eqb (m_id m) (ch_keep ch).
Definition added (ch : choice) (m : mutn) : bool := memb Z.eqb (m_id m) (ch_add ch).
Definition carried (ch : choice) (m : mutn) : bool :=
  (in_def (ch_a ch) m && kept ch m) || (is_new (ch_a ch) m && added ch m).
Definition cnt {A} (p : A -> bool) (l : list A) : Q := inject_Z (Z.of_nat (length (filter p l))).
Definition b2q (b : bool) : Q := if b then 1%Q else 0%Q.

(* ---- the parts of the score ---- *)
Definition carriers (asg : assignment) (m : mutn) : Q := cnt (fun ch => carried ch m) asg.
Definition exp_ref_ch (i : inst) (pos : Z) (ch : choice) : Q :=
  let a := ch_a ch in
  if has_cov a pos then
    match nonins_at pos (defs i a) with
    | [p] => (1 - b2q (kept ch p))%Q
    | _ => (1 - cnt (added ch) (nonins_at pos (news i a)))%Q
    end
  else 0%Q.
Definition exp_ref (i : inst) (asg : assignment) (pos : Z) : Q := qsum (map (exp_ref_ch i pos) asg).
Definition fit_error (i : inst) (asg : assignment) : Q :=
  (qsum (map (fun m => Qabs' (obs_mut m - carriers asg m)) (i_muts i)) +
   qsum (map (fun s => Qabs' (obs_site s - exp_ref i asg (s_pos s))) (i_sites i)))%Q.
Definition dropped (i : inst) (asg : assignment) : Q :=
  qsum (map (fun ch => (qlen (defs i (ch_a ch)) - cnt (kept ch) (defs i (ch_a ch)))%Q) asg).
Definition find_ch (asg : assignment) (a : ainst) : option choice := find (fun ch => ainst_eqb (ch_a ch) a) asg.
Definition is_added (asg : assignment) (am : ainst * mutn) : bool :=
  match find_ch asg (fst am) with Some ch => added ch (snd am) | None => false end.
(* additions, each weighted 1 + (index of its selector in construction order) / tie_den when [tie] *)
Definition add_weight (c : consts) (i : inst) (tie : bool) (asg : assignment) : Q :=
  qsum (map (fun kp : Z * (ainst * mutn) =>
               if is_added asg (snd kp) then (if tie then 1 + inject_Z (fst kp) / c_minor_tie_den c else 1)%Q else 0%Q)
            (enumerate 0 (new_pairs i))).
Definition novel_core (i : inst) (asg : assignment) : Q :=
  cnt (fun m => existsb (fun ch => added ch m && is_new (ch_a ch) m && m_func m && negb (in_core (ch_a ch) m)) asg) (i_muts i).
(* phase: every read mode that is informative for some allele copy is assigned to exactly one SELECTED copy with at least
   two informative sites; cost = reads * (agreeing sites not carried + disagreeing sites carried) *)
Definition mismatches (i : inst) (ch : choice) (r : mode) : Q :=
  let inf := informative i (ch_a ch) r in
  (cnt (fun m => agrees r m && negb (carried ch m)) inf + cnt (fun m => negb (agrees r m) && carried ch m) inf)%Q.
Definition qmin_list (l : list Q) : option Q :=
  match l with [] => None | x :: t => Some (fold_left Qmin' t x) end.
Definition phase_mode (i : inst) (asg : assignment) (rm : mode * Z) : option Q :=
  let r := fst rm in
  if existsb (fun a => ph_active i a r) (insts i) then
    match qmin_list (map (fun ch => mismatches i ch r) (filter (fun ch => ph_active i (ch_a ch) r) asg)) with
    | Some q => Some (inject_Z (snd rm) * q)%Q
    | None => None
    end
  else Some 0%Q.
Definition phase_disagreement (i : inst) (asg : assignment) : option Q :=
  fold_left (fun acc rm => match acc, phase_mode i asg rm with Some x, Some y => Some (x + y)%Q | _, _ => None end)
            (modes i) (Some 0%Q).

Definition score (c : consts) (i : inst) (tie : bool) (asg : assignment) : option Q :=
  match phase_disagreement i asg with
  | None => None
  | Some ph => Some (fit_error i asg + i_miss i * dropped i asg + i_add i * add_weight c i tie asg +
                     i_add i / c_minor_vnewor_div c * novel_core i asg + i_phase i * ph)%Q
  end.

(* ---- admissibility ---- *)
Definition sub_ids (ids : list Z) (l : list mutn) : bool := forallb (fun d => memb Z.eqb d (map m_id l)) ids && nodupb ids.
Definition sel_ok (i : inst) (asg : assignment) : bool :=
  forallb (fun ch => existsb (ainst_eqb (ch_a ch)) (insts i)) asg &&
  forallb (fun ch => (length (filter (fun ch' => ainst_eqb (ch_a ch') (ch_a ch)) asg) =? 1)%nat) asg &&
  forallb (fun ch => (snd (ch_a ch) =? 0) || existsb (fun ch' => ainst_eqb (ch_a ch') (fst (ch_a ch), snd (ch_a ch) - 1)) asg) asg &&
  forallb (fun mc : Z * Z => Z.of_nat (length (filter (fun ch => of_major (fst mc) (ch_a ch)) asg)) =? snd mc) (i_majors i) &&
  (Z.of_nat (length asg) <=? total_copies i).
Definition carried_at (i : inst) (ch : choice) (pos : Z) : list mutn := filter (carried ch) (at_pos pos (i_muts i)).
Definition choice_ok (i : inst) (ch : choice) : bool :=
  let a := ch_a ch in
  sub_ids (ch_keep ch) (defs i a) && sub_ids (ch_add ch) (news i a) &&
  forallb (kept ch) (filter m_func (defs i a)) &&                                       (* rule 2 *)
  forallb (fun m => negb (kept ch m) || has_cov a (m_pos m)) (defs i a) &&              (* rule 3 *)
  forallb (fun s => (length (carried_at i ch (s_pos s)) <=? 1)%nat) (i_sites i).        (* rule 4 (+ CONE) *)
Definition reads_ok (asg : assignment) (m : mutn) : bool :=
  if no_reads m then Qeqb (carriers asg m) 0 else Qleb 1 (carriers asg m) && Qleb (carriers asg m) (m_cov m).   (* rule 5 *)
Definition ref_ok (i : inst) (asg : assignment) (s : site) : bool :=                     (* rule 6 *)
  let e := qsum (map (fun ch => (qlen (site_e i (s_pos s) (ch_a ch)) - qlen (carried_at i ch (s_pos s)))%Q) asg) in
  match insts i with
  | [] => true
  | _ => if Qeqb (s_pcn s) 0 then Qleb e 0 else Qleb e (Qmax' (Qmax' (s_pcn s) (s_cov s)) (max_mut i (s_pos s)))
  end.
Definition admissible_core (i : inst) (asg : assignment) : bool :=
  sel_ok i asg && forallb (choice_ok i) asg && forallb (reads_ok asg) (i_muts i) && forallb (ref_ok i asg) (i_sites i).
Definition admissible (i : inst) (asg : assignment) : bool :=
  admissible_core i asg && match phase_disagreement i asg with Some _ => true | None => false end.

(* ---- exhaustive enumeration ---- *)
Fixpoint sublists {A} (l : list A) : list (list A) :=
  match l with [] => [[]] | x :: t => let r := sublists t in map (cons x) r ++ r end.
Fixpoint comps (parts n : nat) : list (list nat) :=
  match parts with
  | O => match n with O => [[]] | _ => [] end
  | S p => flat_map (fun k => map (cons k) (comps p (n - k))) (seq 0 (S n))
  end.
Definition cross {A} (xs : list (list A)) (ys : list (list A)) : list (list A) :=
  flat_map (fun x => map (fun y => x ++ y) ys) xs.
Definition selections (i : inst) : list (list ainst) :=
  fold_right (fun (mc : Z * Z) acc =>
      let cs := filter (fun c => c_major c =? fst mc) (i_cands i) in
      let per := map (fun ns => flat_map (fun cn : cand * nat => map (fun k => (fst cn, Z.of_nat k)) (seq 0 (snd cn)))
                                         (combine cs ns))
                     (comps (length cs) (Z.to_nat (snd mc))) in
      cross per acc) [[]] (i_majors i).
Definition options (i : inst) (a : ainst) : list choice :=
  let d := defs i a in
  let must := filter m_func d in
  if existsb (fun m => negb (has_cov a (m_pos m)) || no_reads m) must then [] else
  let free := filter (fun m => negb (m_func m) && has_cov a (m_pos m) && negb (no_reads m)) d in
  let addable := filter (fun m => negb (no_reads m)) (news i a) in
  filter (fun ch => forallb (fun s => (length (carried_at i ch (s_pos s)) <=? 1)%nat) (i_sites i))
    (flat_map (fun k => map (fun n => {| ch_a := a; ch_keep := map m_id (must ++ k); ch_add := map m_id n |}) (sublists addable))
              (sublists free)).
Definition expand (i : inst) (sel : list ainst) : list assignment :=
  fold_right (fun a acc => flat_map (fun ch => map (cons ch) acc) (options i a)) [[]] sel.
Definition candidates (i : inst) : list assignment := flat_map (expand i) (selections i).
Definition n_candidates (i : inst) : Z :=
  zsum (map (fun sel => fold_right (fun a acc => Z.of_nat (length (options i a)) * acc) 1 sel) (selections i)).

(* the tie-breaker part of the objective: sum over additions of (construction index / tie_den) *)
Definition tie_extra (c : consts) (i : inst) (asg : assignment) : Q :=
  qsum (map (fun kp : Z * (ainst * mutn) => if is_added asg (snd kp) then (inject_Z (fst kp) / c_minor_tie_den c)%Q else 0%Q)
            (enumerate 0 (new_pairs i))).
(* best score (tie-breaker included), number of assignments attaining it exactly, the first such assignment, and the best
   score with the tie-breaker left out (the objective the property speaks about) *)
Definition optimum (c : consts) (i : inst) : option (Q * Z * assignment * Q) :=
  fold_left (fun best asg =>
      if admissible_core i asg then
        match score c i false asg with
        | Some q0 =>
            let q := (q0 + i_add i * tie_extra c i asg)%Q in
            match best with
            | None => Some (q, 1, asg, q0)
            | Some (b, n, w, b0) =>
                let b0' := Qmin' b0 q0 in
                if Qltb q b then Some (q, 1, asg, b0') else if Qeqb q b then Some (b, n + 1, w, b0') else Some (b, n, w, b0')
            end
        | None => best
        end
      else best) (candidates i) None.

(* ---- read-out (minor.py:488-505).  AsShipped: variants whose observed copies equal the total copy number are added to
        every selected allele that could carry them, after the solve and without re-checking any rule ("HACK: add
        homozygous mutation to _all_ alleles").  Fixed: the solver's assignment is reported as it is. ---- *)
Inductive rvariant := AsShipped | Fixed.
Definition homozygous (c : consts) (i : inst) (m : mutn) : bool :=
  Qleb (Qabs' (obs_mut m - i_maxcn i)) (c_homozygous_eps c).
Definition readout_ch (v : rvariant) (c : consts) (i : inst) (ch : choice) : choice :=
  match v with
  | Fixed => ch
  | AsShipped =>
      {| ch_a := ch_a ch; ch_keep := ch_keep ch;
         ch_add := map m_id (filter (fun m => added ch m || homozygous c i m) (news i (ch_a ch))) |}
  end.
Definition readout (v : rvariant) (c : consts) (i : inst) (asg : assignment) : assignment := map (readout_ch v c i) asg.

(* ---- the clauses of the property on a reported assignment ---- *)
Definition cl_one_minor (i : inst) (asg : assignment) : bool := sel_ok i asg.
Definition cl_core_kept (i : inst) (asg : assignment) : bool :=
  forallb (fun ch => forallb (kept ch) (filter (in_core (ch_a ch)) (defs i (ch_a ch)))) asg.
Definition cl_add_copies (i : inst) (asg : assignment) : bool :=
  forallb (fun ch => forallb (fun m => negb (added ch m) || has_cov (ch_a ch) (m_pos m)) (i_muts i) &&
                     forallb (fun d => memb Z.eqb d (map m_id (i_muts i))) (ch_add ch)) asg.
Definition cl_add_reads (i : inst) (asg : assignment) : bool :=
  forallb (fun ch => forallb (fun m => negb (added ch m) || negb (no_reads m)) (i_muts i)) asg.
Definition cl_carried_reads (i : inst) (asg : assignment) : bool :=
  forallb (fun ch => forallb (fun m => negb (carried ch m) || negb (no_reads m)) (i_muts i)) asg.
Definition cl_one_per_site (i : inst) (asg : assignment) : bool :=
  forallb (fun ch => forallb (fun s => (length (carried_at i ch (s_pos s)) <=? 1)%nat) (i_sites i)) asg.
Definition cl_supported (i : inst) (asg : assignment) : bool :=
  forallb (fun m => no_reads m || Qleb 1 (carriers asg m)) (i_muts i).
Definition clauses (i : inst) (asg : assignment) : list bool :=
  [cl_one_minor i asg; cl_core_kept i asg; cl_add_copies i asg; cl_add_reads i asg; cl_carried_reads i asg;
   cl_one_per_site i asg; cl_supported i asg].

(* ---- the score of a POINT of the ILP, written over its selector values only (A, K, N, PH): what the objective of
        MinorModel.gen amounts to once every helper variable (products, error terms, absolute values, OR variables) is
        eliminated.  MinorProofs.minor_objective relates it to [objective (gen c i)]. ---- *)
Definition carr (x : asg) (i : inst) (m : mutn) : Q :=                      (* copies carrying variant m *)
  qsum (map (fun a => if in_def a m then x (kK a m) else if has_cov a (m_pos m) then x (kN a m) else 0%Q) (insts i)).
Definition refc_a (x : asg) (i : inst) (pos : Z) (a : ainst) : Q :=          (* reference copies contributed by one allele copy *)
  if has_cov a pos then
    match nonins_at pos (defs i a) with
    | [p] => (x (kA a) - x (kK a p))%Q
    | _ => (x (kA a) - qsum (map (fun m => x (kN a m)) (nonins_at pos (news i a))))%Q
    end
  else 0%Q.
Definition refc (x : asg) (i : inst) (pos : Z) : Q := qsum (map (refc_a x i pos) (insts i)).
Definition pt_fit (x : asg) (i : inst) : Q :=
  (qsum (map (fun m => Qabs' (obs_mut m - carr x i m)) (i_muts i)) +
   qsum (map (fun s => Qabs' (obs_site s - refc x i (s_pos s))) (i_sites i)))%Q.
Definition pt_dropped (x : asg) (i : inst) : Q :=                            (* definition variants dropped on selected copies *)
  qsum (map (fun a => qsum (map (fun m => (x (kA a) - x (kK a m))%Q) (defs i a))) (insts i)).
Definition pt_added (c : consts) (x : asg) (i : inst) : Q :=                 (* additions, each weighted 1 + index / tie_den *)
  qsum (map (fun kp : Z * (ainst * mutn) =>
               ((1 + inject_Z (fst kp) / c_minor_tie_den c) * x (kN (fst (snd kp)) (snd (snd kp))))%Q)
            (enumerate 0 (new_pairs i))).
Definition qmax_list (l : list Q) : Q := fold_right Qmax' 0%Q l.
Definition pt_novel (x : asg) (i : inst) : Q :=                              (* functional variants added to some copy *)
  qsum (map (fun m => qmax_list (map x (vo_vars i m))) (vo_muts i)).
Definition pt_phase_a (x : asg) (i : inst) (ri : Z) (r : mode) (a : ainst) : Q :=
  if ph_active i a r then
    (x (kPH a ri) * (qsum (map (fun v => (1 - x v)%Q) (ph_pos i a r)) + qsum (map x (ph_neg i a r))))%Q
  else 0%Q.
Definition pt_phase (x : asg) (i : inst) : Q :=                              (* read modes times disagreeing sites of the chosen copy *)
  qsum (map (fun rm : Z * (mode * Z) =>
               (inject_Z (snd (snd rm)) * qsum (map (pt_phase_a x i (fst rm) (fst (snd rm))) (insts i)))%Q)
            (enumerate 0 (modes i))).
Definition pt_score (c : consts) (x : asg) (i : inst) : Q :=
  (pt_fit x i + i_miss i * pt_dropped x i + i_add i * pt_added c x i +
   i_add i / c_minor_vnewor_div c * pt_novel x i + i_phase i * pt_phase x i)%Q.

(* ---- the canonical point of an assignment: selectors as the assignment says, every helper variable at the value the
        rows force (products, error terms, OR variables), absolute values tight, each read mode on the first selected
        copy with the fewest disagreements.  Executable; the harness evaluates [feasibleb (gen c i) (point_of c i a)] and
        the objective there on every instance (the direction "admissible => feasible with objective = score"). ---- *)
Definition sel_on (asg : assignment) (a : ainst) : bool := match find_ch asg a with Some _ => true | None => false end.
Definition kept_on (asg : assignment) (a : ainst) (m : mutn) : bool :=
  match find_ch asg a with Some ch => kept ch m | None => false end.
Definition added_on (asg : assignment) (a : ainst) (m : mutn) : bool :=
  match find_ch asg a with Some ch => added ch m | None => false end.
Definition ph_choice (i : inst) (asg : assignment) (r : mode) : option ainst :=
  let act := filter (fun ch => ph_active i (ch_a ch) r) asg in
  match qmin_list (map (fun ch => mismatches i ch r) act) with
  | None => None
  | Some q => match find (fun ch => Qeqb (mismatches i ch r) q) act with Some ch => Some (ch_a ch) | None => None end
  end.
Definition point_list (c : consts) (i : inst) (asg : assignment) : list (vkey * Q) :=
  let base :=
    map (fun a => (kA a, b2q (sel_on asg a))) (insts i) ++
    flat_map (fun a => flat_map (fun m => [(kK a m, b2q (kept_on asg a m)); (kMK a m, b2q (kept_on asg a m))]) (defs i a)) (insts i) ++
    flat_map (fun a => flat_map (fun m => [(kN a m, b2q (added_on asg a m)); (kMN a m, b2q (added_on asg a m))]) (news i a)) (insts i) in
  let x0 := asg_of base in
  let errs := map (fun m => (kE m, (obs_mut m - carr x0 i m)%Q)) (i_muts i) ++
              map (fun s => (kR s, (obs_site s - refc x0 i (s_pos s))%Q)) (i_sites i) in
  let abss := map (fun kv : vkey * Q => (abs_key (fst kv), Qabs' (snd kv))) errs in
  let vos := map (fun m => (kVO m, qmax_list (map x0 (vo_vars i m)))) (vo_muts i) in
  let phs :=
    flat_map (fun rm : Z * (mode * Z) =>
      let ri := fst rm in let r := fst (snd rm) in
      flat_map (fun a =>
        if ph_active i a r then
          let p := b2q (match ph_choice i asg r with Some a' => ainst_eqb a a' | None => false end) in
          (kPH a ri, p) ::
          map (fun jv : Z * vkey => (kP2 a ri (fst jv), (p * x0 (snd jv))%Q)) (enumerate 0 (ph_pos i a r)) ++
          map (fun jv : Z * vkey => (kP3 a ri (fst jv), (p * x0 (snd jv))%Q)) (enumerate 0 (ph_neg i a r))
        else []) (insts i)) (enumerate 0 (modes i)) in
  base ++ errs ++ abss ++ vos ++ phs.
Definition point_of (c : consts) (i : inst) (asg : assignment) : Lp.asg := asg_of (point_list c i asg).

(* ---- the assignment an ILP point denotes (minor.py:478-495: getValue(VA) > 0, missing = K off, added = N on) ---- *)
Definition on (x : Lp.asg) (k : vkey) : bool := Qeqb (x k) 1.
Definition point_asg (i : inst) (x : Lp.asg) : assignment :=
  map (fun a => {| ch_a := a; ch_keep := map m_id (filter (fun m => on x (kK a m)) (defs i a));
                   ch_add := map m_id (filter (fun m => on x (kN a m)) (news i a)) |})
      (filter (fun a => on x (kA a)) (insts i)).

(* ---- harness interface ---- *)
Definition lookup_cand (i : inst) (cid : Z) : option cand := find (fun c => c_id c =? cid) (i_cands i).
Definition mk_asg (i : inst) (l : list (Z * Z * list Z * list Z)) : option assignment :=
  fold_right (fun x acc =>
      match x, acc with
      | (cid, idx, k, n), Some t =>
          match lookup_cand i cid with Some c => Some ({| ch_a := (c, idx); ch_keep := k; ch_add := n |} :: t) | None => None end
      | _, None => None
      end) (Some []) l.
(* decidable premise of the noise-free clause (MinorNoiseFreeProofs.minor_noise_free_b), evaluated by the harness on every
   noise-free case: the planted assignment is admissible and scores 0, the weights are positive *)
Definition noise_free_b (c : consts) (i : inst) (l : list (Z * Z * list Z * list Z)) : bool :=
  inst_wf i && Qltb 0%Q (c_minor_tie_den c) && Qltb 0%Q (c_minor_vnewor_div c) && Qltb 0%Q (i_miss i) && Qltb 0%Q (i_add i) && Qleb 0%Q (i_phase i) &&
  match mk_asg i l with
  | Some b => admissible i b && match score c i true b with Some q => Qeqb q 0%Q | None => false end
  | None => false
  end.

Definition o_choice (ch : choice) : out :=
  OL [OZ (c_id (fst (ch_a ch))); OZ (snd (ch_a ch)); OL (map OZ (ch_keep ch)); OL (map OZ (ch_add ch))].
Definition o_asg (a : assignment) : out := o_list o_choice a.
(* everything the harness asks about one assignment: admissible, score with tie, score without tie, clause booleans,
   the read-out of it *)
Definition o_eval (v : rvariant) (c : consts) (i : inst) (l : list (Z * Z * list Z * list Z)) : out :=
  match mk_asg i l with
  | None => OL []
  | Some asg => OL [o_bool (admissible i asg); o_opt o_q (score c i true asg); o_opt o_q (score c i false asg);
                    OL (map o_bool (clauses i asg)); o_asg (readout v c i asg)]
  end.
(* the canonical point of an assignment: feasible? objective there *)
Definition o_point (c : consts) (i : inst) (l : list (Z * Z * list Z * list Z)) : out :=
  match mk_asg i l with
  | None => OL []
  | Some a => let x := point_of c i a in OL [o_bool (feasibleb (gen c i) x); o_q (objective (gen c i) x)]
  end.
Definition o_optimum (c : consts) (i : inst) : out :=
  match optimum c i with
  | Some (q, n, w, q0) => let x := point_of c i w in
                          OL [o_q q; OZ n; o_asg w; o_bool (feasibleb (gen c i) x); o_q (objective (gen c i) x); o_q q0]
  | None => OL []
  end.

(* ---- witness instances (TOY gene).  The text between the markers is what harness/c04.py:witness_terms produces from the
        implementation's own objects for its cases WITNESS_A / WITNESS_C / WITNESS_P (variants renumbered in (position,
        operation) order); the harness compares the two on every run and replays the cases on the implementation.
        witness_a: *1/*3, novel 147.A>C, insA seen on every read; witness_c: *1/*2, insTT seen on every read;
        witness_p: *1/*3 with four phased fragments. ---- *)
(* BEGIN witness_a *)
Definition witness_a : inst :=
  {| i_muts := [{| m_id := 0; m_pos := 100000114; m_op := 3; m_ins := false; m_func := false; m_cov := (0 # 1)%Q; m_total := (40 # 1)%Q; m_pcn := (2 # 1)%Q |}; {| m_id := 1; m_pos := 100000147; m_op := 1; m_ins := false; m_func := false; m_cov := (20 # 1)%Q; m_total := (40 # 1)%Q; m_pcn := (2 # 1)%Q |}; {| m_id := 2; m_pos := 100000147; m_op := 4; m_ins := true; m_func := false; m_cov := (40 # 1)%Q; m_total := (40 # 1)%Q; m_pcn := (2 # 1)%Q |}; {| m_id := 3; m_pos := 100000150; m_op := 2; m_ins := false; m_func := true; m_cov := (20 # 1)%Q; m_total := (40 # 1)%Q; m_pcn := (2 # 1)%Q |}]; i_sites := [{| s_pos := 100000114; s_pcn := (2 # 1)%Q; s_cov := (40 # 1)%Q; s_total := (40 # 1)%Q |}; {| s_pos := 100000147; s_pcn := (2 # 1)%Q; s_cov := (20 # 1)%Q; s_total := (40 # 1)%Q |}; {| s_pos := 100000150; s_pcn := (2 # 1)%Q; s_cov := (20 # 1)%Q; s_total := (40 # 1)%Q |}]; i_cands := [{| c_id := 0; c_major := 0; c_def := []; c_core := []; c_covpos := [100000114; 100000147; 100000150] |}; {| c_id := 1; c_major := 0; c_def := [0]; c_core := []; c_covpos := [100000114; 100000147; 100000150] |}; {| c_id := 2; c_major := 1; c_def := [2; 3]; c_core := [3]; c_covpos := [100000114; 100000147; 100000150] |}]; i_majors := [(0, 1); (1, 1)]; i_phases := None; i_miss := (3 # 2)%Q; i_add := (1 # 1)%Q; i_phase := (2 # 5)%Q; i_phase_vars := 3000; i_maxcn := (2 # 1)%Q |}.
Definition witness_a_solver : list (Z * Z * list Z * list Z) := [(0, 0, [], [1]); (2, 0, [2; 3], [])].
(* END witness_a *)
(* BEGIN witness_c *)
Definition witness_c : inst :=
  {| i_muts := [{| m_id := 0; m_pos := 100000110; m_op := 2; m_ins := false; m_func := true; m_cov := (20 # 1)%Q; m_total := (40 # 1)%Q; m_pcn := (2 # 1)%Q |}; {| m_id := 1; m_pos := 100000114; m_op := 1; m_ins := false; m_func := false; m_cov := (0 # 1)%Q; m_total := (40 # 1)%Q; m_pcn := (2 # 1)%Q |}; {| m_id := 2; m_pos := 100000118; m_op := 3; m_ins := true; m_func := true; m_cov := (40 # 1)%Q; m_total := (40 # 1)%Q; m_pcn := (2 # 1)%Q |}]; i_sites := [{| s_pos := 100000110; s_pcn := (2 # 1)%Q; s_cov := (20 # 1)%Q; s_total := (40 # 1)%Q |}; {| s_pos := 100000114; s_pcn := (2 # 1)%Q; s_cov := (40 # 1)%Q; s_total := (40 # 1)%Q |}; {| s_pos := 100000118; s_pcn := (2 # 1)%Q; s_cov := (40 # 1)%Q; s_total := (40 # 1)%Q |}]; i_cands := [{| c_id := 0; c_major := 0; c_def := []; c_core := []; c_covpos := [100000110; 100000114; 100000118] |}; {| c_id := 1; c_major := 0; c_def := [1]; c_core := []; c_covpos := [100000110; 100000114; 100000118] |}; {| c_id := 2; c_major := 1; c_def := [0; 2]; c_core := [0; 2]; c_covpos := [100000110; 100000114; 100000118] |}]; i_majors := [(0, 1); (1, 1)]; i_phases := None; i_miss := (3 # 2)%Q; i_add := (1 # 1)%Q; i_phase := (2 # 5)%Q; i_phase_vars := 3000; i_maxcn := (2 # 1)%Q |}.
Definition witness_c_solver : list (Z * Z * list Z * list Z) := [(0, 0, [], []); (2, 0, [0; 2], [])].
(* END witness_c *)
(* BEGIN witness_p *)
Definition witness_p : inst :=
  {| i_muts := [{| m_id := 0; m_pos := 100000114; m_op := 2; m_ins := false; m_func := false; m_cov := (20 # 1)%Q; m_total := (40 # 1)%Q; m_pcn := (2 # 1)%Q |}; {| m_id := 1; m_pos := 100000147; m_op := 3; m_ins := true; m_func := false; m_cov := (20 # 1)%Q; m_total := (40 # 1)%Q; m_pcn := (2 # 1)%Q |}; {| m_id := 2; m_pos := 100000150; m_op := 1; m_ins := false; m_func := true; m_cov := (20 # 1)%Q; m_total := (40 # 1)%Q; m_pcn := (2 # 1)%Q |}]; i_sites := [{| s_pos := 100000114; s_pcn := (2 # 1)%Q; s_cov := (20 # 1)%Q; s_total := (40 # 1)%Q |}; {| s_pos := 100000147; s_pcn := (2 # 1)%Q; s_cov := (40 # 1)%Q; s_total := (40 # 1)%Q |}; {| s_pos := 100000150; s_pcn := (2 # 1)%Q; s_cov := (20 # 1)%Q; s_total := (40 # 1)%Q |}]; i_cands := [{| c_id := 0; c_major := 0; c_def := []; c_core := []; c_covpos := [100000114; 100000147; 100000150] |}; {| c_id := 1; c_major := 0; c_def := [0]; c_core := []; c_covpos := [100000114; 100000147; 100000150] |}; {| c_id := 2; c_major := 1; c_def := [1; 2]; c_core := [2]; c_covpos := [100000114; 100000147; 100000150] |}]; i_majors := [(0, 1); (1, 1)]; i_phases := (Some [[(100000114, 2); (100000150, 0)]; [(100000114, 0); (100000150, 1)]; [(100000147, 3); (100000150, 1)]; [(100000114, 2); (100000150, 0)]]); i_miss := (3 # 2)%Q; i_add := (1 # 1)%Q; i_phase := (2 # 5)%Q; i_phase_vars := 3000; i_maxcn := (2 # 1)%Q |}.
Definition witness_p_solver : list (Z * Z * list Z * list Z) := [(1, 0, [0], []); (2, 0, [1; 2], [])].
(* END witness_p *)
Definition solver_asg (i : inst) (l : list (Z * Z * list Z * list Z)) : assignment :=
  match mk_asg i l with Some a => a | None => [] end.

