(* VcfIn.v — model of VCF input (C16).
   sam.py _load_vcf (216-295): reference pseudo-reads on [wide.start-500, wide.end], get_mut, REF-mismatch re-expression,
   diploid filter, N positions skipped, support per alternate copy, multi-substitution merge; _make_coverage (579-608) and
   Coverage.__init__ (46-55: insertion cells are dropped when the indel table is truthy), Coverage.coverage/total.
   Every pseudo-observation has the same quality pair (c_vcf_q), so a cell is modelled by its LENGTH.
   [AsShipped] follows the code step by step; [Fixed] is the behaviour the property states, given as counts of allele uses.
   No proofs here. *)
From Coq Require Import String.
From Aldy Require Import Base Consts Pileup.
Import List.
Open Scope Z_scope.

Inductive vvariant := AsShipped | Fixed.

Record vrec := {
  v_pos : Z;                      (* POS, 1-based *)
  v_ref : str;
  v_alts : list str;
  v_gt : list (option Z)          (* GT of the selected sample; None = "." *)
}.

(* pseudo-read multiplicities: c_vcf_reads = [per alternate copy; reference] *)
Definition alt_n (c : consts) : Z := nth 0 (c_vcf_reads c) 0.
Definition ref_n (c : consts) : Z := nth 1 (c_vcf_reads c) 0.
Definition vcf_consts_ok (c : consts) : bool :=
  match c_vcf_reads c with [a; r] => (0 <? a) && (r =? 2 * a) | _ => false end.
Definition in_range (g : gview) (p : Z) : bool := (fst (g_wide g) - 500 <=? p) && (p <=? snd (g_wide g)).

Fixpoint prefix_len (a b : str) : nat :=
  match a, b with x :: a', y :: b' => if x =? y then S (prefix_len a' b') else O | _, _ => O end.
Definition zlen (t : str) : Z := Z.of_nat (length t).

(* g = sorted(y for y in GT if y is not None); kept only if len(g) == 2 *)
Definition diploid (r : vrec) : option (Z * Z) :=
  match flat_map (fun o => match o with Some z => [z] | None => [] end) (v_gt r) with
  | [a; b] => Some (Z.min a b, Z.max a b)
  | _ => None
  end.
Definition usable (g : gview) (r : vrec) : bool :=
  match diploid r with Some _ => negb (base g (v_pos r - 1) =? 78) | None => false end.

(* ================================================================== AsShipped: the code, step by step *)
Definition okey := (Z * option str)%type.         (* (pos, op); op = None is get_mut's "ignored" answer *)
Definition okey_eqb (a b : okey) : bool :=
  (fst a =? fst b) && match snd a, snd b with Some x, Some y => str_eqb x y | None, None => true | _, _ => false end.

Definition get_mut (g : gview) (pos : Z) (ref alt : str) : okey :=
  let off := prefix_len ref alt in let zo := Z.of_nat off in
  if (zlen ref - zo =? 1) && (zlen alt - zo =? 1) then
    let a := nth off alt 0 in
    if a =? base g (zo + pos) then (zo + pos, Some ref_op) else (zo + pos, Some (sub_op (base g (zo + pos)) a))
  else if (zlen alt <? zlen ref) && (zlen alt - zo =? 0) then
    (zo + pos, Some (del_op (gslice g (zo + pos) (Z.to_nat (zlen ref - zo)))))
  else if (zlen ref <? zlen alt) && (zlen ref - zo =? 0) then
    (zo + pos, Some (ins_op (skipn off alt)))
  else (pos, None).

Definition hgvs (g : gview) (r : vrec) : list okey :=
  let p := v_pos r - 1 in
  (match v_ref r with
   | [x] => if x =? base g p then (p, Some ref_op) else (p, Some (sub_op (base g p) x))
   | _ => (p, Some ref_op)
   end) :: map (get_mut g p (v_ref r)) (v_alts r).

(* state: norm = overrides of the default (ref_n on the range), muts = (pos, op) -> length; [bad] = a KeyError happened *)
Record vstate := { vs_norm : list (Z * Z); vs_muts : list (okey * Z); vs_bad : bool }.
Definition norm_get (g : gview) (c : consts) (st : vstate) (p : Z) : option Z :=
  match alookup Z.eqb p (vs_norm st) with
  | Some n => Some n
  | None => if in_range g p then Some (ref_n c) else None
  end.
Definition muts_get (st : vstate) (k : okey) : Z := match alookup okey_eqb k (vs_muts st) with Some n => n | None => 0 end.
Definition norm_upd (g : gview) (c : consts) (st : vstate) (p : Z) (f : Z -> Z) : vstate :=
  match norm_get g c st p with
  | Some n => {| vs_norm := aset Z.eqb p (f n) (vs_norm st); vs_muts := vs_muts st; vs_bad := vs_bad st |}
  | None => {| vs_norm := vs_norm st; vs_muts := vs_muts st; vs_bad := true |}       (* KeyError *)
  end.
Definition muts_upd (st : vstate) (k : okey) (f : Z -> Z) : vstate :=
  {| vs_norm := vs_norm st; vs_muts := aset okey_eqb k (f (muts_get st k)) (vs_muts st); vs_bad := vs_bad st |}.
Definition cut (a : Z) (n : Z) : Z := Z.max 0 (n - a).       (* len(l[:-a]) *)

Definition is_ref_o (o : option str) : bool := match o with Some t => str_eqb t ref_op | None => false end.

(* one genotype entry: muts[pos, op] += alt; norm[pos] = norm[pos][:-alt]; dump_arr[pos] = op *)
(* [skipnone]: the candidate repair `if op is None or op == "_": continue` is in place *)
Definition use_allele (skipnone : bool) (g : gview) (c : consts) (acc : vstate * list (Z * option str)) (k : okey) : vstate * list (Z * option str) :=
  if is_ref_o (snd k) || (skipnone && match snd k with None => true | Some _ => false end) then acc
  else let st := muts_upd (fst acc) k (fun n => n + alt_n c) in
       (norm_upd g c st (fst k) (cut (alt_n c)), aset Z.eqb (fst k) (snd k) (snd acc)).

Definition okey_of (k : key) : okey := (fst k, Some (snd k)).
Definition multi_hit (dump : list (Z * option str)) (m : Z * (str * str)) : bool :=
  amem Z.eqb (fst m) dump &&
  forallb (fun ck => match alookup Z.eqb (fst (snd ck)) dump with
                     | Some (Some t) => str_eqb t (snd (snd ck))
                     | _ => false end) (comps m).
Definition multi_apply (g : gview) (c : consts) (dump : list (Z * option str)) (st : vstate) (m : Z * (str * str)) : vstate :=
  if multi_hit dump m then
    let st1 := fold_left (fun st ck =>
                 let st' := muts_upd st (okey_of (snd ck)) (cut (alt_n c)) in
                 match fst ck with O => st' | S _ => norm_upd g c st' (fst (snd ck)) (fun n => n + alt_n c) end) (comps m) st in
    muts_upd st1 (fst m, Some (multi_op (fst (snd m)) (snd (snd m)))) (fun n => n + alt_n c)
  else st.

Definition shipped_record (skipnone : bool) (g : gview) (c : consts) (st : vstate) (r : vrec) : vstate :=
  match diploid r with
  | Some (a, b) =>
    if base g (v_pos r - 1) =? 78 then st else
    let h := hgvs g r in
    let pick (i : Z) : okey := nth (Z.to_nat i) h (v_pos r - 1, None) in
    let '(st1, dump) := fold_left (use_allele skipnone g c) [pick a; pick b] (st, []) in
    fold_left (multi_apply g c dump) (g_multi g) st1
  | None => st
  end.
Definition shipped_load (skipnone : bool) (g : gview) (c : consts) (rs : list vrec) : vstate :=
  fold_left (shipped_record skipnone g c) rs {| vs_norm := []; vs_muts := []; vs_bad := false |}.

(* the table, restricted to the positions that were touched (every other position of the range holds ref_n "_" cells):
   _make_coverage folding + dropped empty cells + Coverage.__init__ dropping insertion cells under a truthy indel table.
   A None operation makes Coverage.__init__ (truthy table) or Coverage.total (otherwise) fail: [VCrash]. *)
Inductive vres (A : Type) := VOk (a : A) | VCrash.
Arguments VOk {A} a. Arguments VCrash {A}.
Definition ctable := list (Z * list (str * Z)).

Fixpoint ccell_add (op : str) (n : Z) (cs : list (str * Z)) : list (str * Z) :=
  match cs with
  | [] => [(op, n)]
  | (op', n') :: t => if str_eqb op op' then (op', n' + n) :: t else (op', n') :: ccell_add op n t
  end.
Fixpoint ctable_add (p : Z) (op : str) (n : Z) (t : ctable) : ctable :=
  match t with
  | [] => [(p, [(op, n)])]
  | (p', cs) :: t' => if p =? p' then (p', ccell_add op n cs) :: t' else (p', cs) :: ctable_add p op n t'
  end.
Definition shipped_table (skipnone : bool) (g : gview) (c : consts) (rs : list vrec) : vres ctable :=
  let st := shipped_load skipnone g c rs in
  if vs_bad st || existsb (fun kn => match snd (fst kn) with None => true | Some _ => false end) (vs_muts st) then VCrash
  else
    let t1 := fold_left (fun t pn => if 0 <? snd pn then ctable_add (fst pn) ref_op (snd pn) t else ctable_add (fst pn) ref_op 0 t)
                        (vs_norm st) [] in
    let t2 := fold_left (fun t kn => match snd (fst kn) with
                                     | Some op => let k := fold_key g (fst (fst kn), op) in ctable_add (fst k) (snd k) (snd kn) t
                                     | None => t end) (vs_muts st) t1 in
    VOk (map (fun pc => (fst pc, filter (fun cl => (0 <? snd cl) && negb (g_has_indels g && is_ins (fst cl))) (snd pc))) t2).

Definition ccell (t : ctable) (k : key) : Z :=
  match alookup Z.eqb (fst k) t with
  | Some cs => match alookup str_eqb (snd k) cs with Some n => n | None => 0 end
  | None => 0
  end.
(* accessors of the full table: untouched positions of the range hold ref_n reference observations *)
Definition shipped_coverage (g : gview) (c : consts) (t : ctable) (k : key) : Z :=
  match alookup Z.eqb (fst k) t with
  | Some _ => ccell t k
  | None => if in_range g (fst k) && str_eqb (snd k) ref_op then ref_n c else 0
  end.
Definition shipped_total (g : gview) (c : consts) (t : ctable) (p : Z) : Z :=
  match alookup Z.eqb p t with
  | Some cs => zsum (map (fun cl => if is_ins (fst cl) then 0 else snd cl) cs)
  | None => if in_range g p then ref_n c else 0
  end.

(* ================================================================== Fixed: what the property states *)
(* allele uses of a record: substitutions against the gene's own base (equal-length alleles are read base by base, so an
   MNP record and adjacent SNP records mean the same), deletions, insertions keyed like the catalogue (after base p) *)
Fixpoint subs_of (g : gview) (p : Z) (alt : str) : list key :=
  match alt with
  | [] => []
  | a :: t => (if (a =? base g p) || (base g p =? 78) then [] else [(p, sub_op (base g p) a)]) ++ subs_of g (p + 1) t
  end.
Inductive ause := USub (k : key) | UDel (k : key) | UIns (k : key).
Definition same_keys (a b : list key) : bool :=
  forallb (fun x => memb key_eqb x b) a && forallb (fun x => memb key_eqb x a) b.
(* an equal-length allele of two or more bases counts when it is a left-padded single-base substitution (REF and ALT share
   all bases but the last: the standard spelling of a substitution inside a multi-allelic record, e.g. CT -> C,CG) or when its
   differences from the gene are exactly the components of one catalogued multi-substitution; any other multi-base replacement
   is a record "of another shape" *)
Definition padded_sub (ref alt : str) : bool := zlen ref - Z.of_nat (prefix_len ref alt) =? 1.
Definition mnp_catalogued (g : gview) (cs : list key) : bool :=
  existsb (fun m => same_keys (map (fun ck : nat * key => snd ck) (comps m)) cs) (g_all_multi g).
Definition alt_uses (g : gview) (pos : Z) (ref alt : str) : list ause :=
  let off := prefix_len ref alt in let zo := Z.of_nat off in
  if (length ref =? length alt)%nat then
    let cs := subs_of g pos alt in
    if (length alt <=? 1)%nat || padded_sub ref alt || mnp_catalogued g cs then map USub cs else []
  else if (zlen alt <? zlen ref) && (zlen alt - zo =? 0) && (0 <? zo) then
    [UDel (zo + pos, del_op (gslice g (zo + pos) (Z.to_nat (zlen ref - zo))))]
  else if (zlen ref <? zlen alt) && (zlen ref - zo =? 0) && (0 <? zo) then
    [UIns (zo + pos - 1, ins_op (skipn off alt))]
  else [].
Definition allele_uses (g : gview) (r : vrec) (i : Z) : list ause :=
  let p := v_pos r - 1 in
  if i =? 0 then match v_ref r with [x] => map USub (subs_of g p [x]) | _ => [] end
  else match nth_error (v_alts r) (Z.to_nat (i - 1)) with Some alt => alt_uses g p (v_ref r) alt | None => [] end.
Definition record_uses (g : gview) (r : vrec) : list ause :=
  match diploid r with
  | Some (a, b) => if usable g r then allele_uses g r a ++ allele_uses g r b else []
  | None => []
  end.
Definition uses (g : gview) (rs : list vrec) : list ause := flat_map (record_uses g) rs.

Definition n_sub (us : list ause) (k : key) : Z := count (fun u => match u with USub k' | UDel k' => key_eqb k k' | UIns _ => false end) us.
Definition n_ins (us : list ause) (k : key) : Z := count (fun u => match u with UIns k' => key_eqb k k' | _ => false end) us.
Definition n_at (us : list ause) (p : Z) : Z := count (fun u => match u with USub k' | UDel k' => fst k' =? p | UIns _ => false end) us.

(* copies of a catalogued multi-substitution = the fewest copies any of its components has *)
Definition multi_copies (us : list ause) (m : Z * (str * str)) : Z :=
  match map (fun ck => n_sub us (snd ck)) (comps m) with
  | [] => 0
  | x :: t => fold_left Z.min t x
  end.
Definition multi_key (m : Z * (str * str)) : key := (fst m, multi_op (fst (snd m)) (snd (snd m))).
Definition comp_of (g : gview) (k : key) : option (nat * (Z * (str * str))) :=     (* (index, multi-substitution) k is a component of *)
  match flat_map (fun m => match find (fun ck => key_eqb (snd ck) k) (comps m) with Some ck => [(fst ck, m)] | None => [] end) (g_all_multi g) with
  | x :: _ => Some x | [] => None end.
Definition later_comp_at (g : gview) (p : Z) : option (Z * (str * str)) :=
  match flat_map (fun m => match find (fun ck => (fst (snd ck) =? p) && negb (Nat.eqb (fst ck) 0)) (comps m) with Some _ => [m] | None => [] end) (g_all_multi g) with
  | x :: _ => Some x | [] => None end.

(* support of a key (number of pseudo-observations), reference support of a position, Coverage.coverage / total *)
Definition fixed_support (g : gview) (c : consts) (rs : list vrec) (k : key) : Z :=
  let us := uses g rs in
  if is_ins (snd k) then alt_n c * n_ins us k
  else match find (fun m => key_eqb (multi_key m) k) (g_all_multi g) with
       | Some m => alt_n c * multi_copies us m
       | None => match comp_of g k with
                 | Some (_, m) => alt_n c * (n_sub us k - multi_copies us m)
                 | None => alt_n c * n_sub us k
                 end
       end.
Definition fixed_ref (g : gview) (c : consts) (rs : list vrec) (p : Z) : Z :=
  if in_range g p then
    Z.max 0 (ref_n c - alt_n c * n_at (uses g rs) p)
    + match later_comp_at g p with Some m => alt_n c * multi_copies (uses g rs) m | None => 0 end
  else 0.
Definition fixed_coverage (g : gview) (c : consts) (rs : list vrec) (k : key) : Z :=
  if str_eqb (snd k) ref_op then fixed_ref g c rs (fst k) else fixed_support g c rs k.
(* Coverage.total(Mutation): an insertion is weighed against the full reference depth of its anchor base *)
Definition fixed_total (g : gview) (c : consts) (rs : list vrec) (k : key) : Z :=
  if is_ins (snd k) then (if in_range g (fst k) then ref_n c else 0)
  else if in_range g (fst k) then Z.max (ref_n c) (alt_n c * n_at (uses g rs) (fst k)) else 0.

(* ================================================================== encoders *)
Definition o_ctable (t : ctable) : out := o_list (o_pair OZ (o_list (o_pair o_str OZ))) t.
Definition o_vres {A} (f : A -> out) (r : vres A) : out := match r with VOk a => OL [OZ 0; f a] | VCrash => OL [OZ 1] end.
Definition mk_vrec (pos : Z) (ref : str) (alts : list str) (gt : list (option Z)) : vrec :=
  {| v_pos := pos; v_ref := ref; v_alts := alts; v_gt := gt |}.
Definition o_shipped (skipnone : bool) (g : gview) (c : consts) (rs : list vrec) (ks : list key) (ps : list Z) : out :=
  match shipped_table skipnone g c rs with
  | VCrash => OL [OZ 1]
  | VOk t => OL [OZ 0; o_ctable t; OL (map (fun k => OZ (shipped_coverage g c t k)) ks); OL (map (fun p => OZ (shipped_total g c t p)) ps)]
  end.
Definition o_fixed (g : gview) (c : consts) (rs : list vrec) (ks : list key) : out :=
  OL (map (fun k => OL [OZ (fixed_coverage g c rs k); OZ (fixed_total g c rs k)]) ks).
