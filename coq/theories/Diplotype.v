(* Diplotype.v — model of aldy/diplotype.py:estimate_diplotype (224-308) and of the name rendering in
   aldy/solutions.py (SolvedAllele.__str__/major_repr, MinorSolution.get_major_name/get_minor_name/
   get_major_diplotype/get_minor_diplotype/_solution_nice).

   Python's insertion-ordered dict `major_dict` is an association list [mdict]; it is a defaultdict(list):
   *reading* an absent key inserts it with [] — this happens in the tandem loop (`while major_dict[ta] and
   major_dict[tb]`, where `and` short-cuts) and changes the later `len(major_dict) == 1` test.  [ensure] is that
   side effect.  `dc` is only ever used as `dc % 2`: the model keeps its parity ([false] = even).
   Outcomes that are exceptions in Python are [Error]: IndexError (empty allele name: `components[1]`; a tandem
   (a, a) with an odd number of copies: second `del`), AssertionError (`assert len(items) == 1`), TypeError
   (`diplotype = diplotype[0][0]` makes the next line iterate over an int).
   No proofs here. *)
From Coq Require Import String Decimal DecimalZ.
From Aldy Require Import Base Consts NatSort.
Import List.
Open Scope Z_scope.

(* ------------------------------------------------------------------ inputs *)
(* one variant with what the catalogue says about it (gene.mutations[pos, op]) *)
Record variant := {
  v_pos : Z;                 (* 0-based genome position *)
  v_op : str;                (* "X>Y" | "insX" | "delX" *)
  v_rs : str;                (* gene.mutations[m][1] if catalogued else "-" *)
  v_effect : option str;     (* gene.get_functional(m, infer=False) *)
  v_solo : option str        (* first allele whose func_muts is exactly {m} (display format only) *)
}.
Record allele := {
  a_major : str;             (* SolvedAllele.major, e.g. "4", "79#2" *)
  a_minor : str;             (* SolvedAllele.minor *)
  a_added : list variant;
  a_missing : list variant;
  a_alt : str                (* minors[minor].alt_name or "" (legacy notation) *)
}.
Record dgene := {
  g_del : option str;        (* gene.deletion_allele() *)
  g_tandems : list (str * str)   (* gene.common_tandems *)
}.

Inductive derr := EIndex | EAssert | EType.
Inductive dres (A : Type) := Ok (a : A) | Error (e : derr).
Arguments Ok {A} a. Arguments Error {A} e.
Definition bind {A B} (r : dres A) (f : A -> dres B) : dres B := match r with Ok a => f a | Error e => Error e end.

(* ------------------------------------------------------------------ small string helpers *)
Fixpoint join (sep : str) (l : list str) : str :=
  match l with [] => [] | [x] => x | x :: r => x ++ sep ++ join sep r end.
Fixpoint take_while (p : Z -> bool) (t : str) : str :=
  match t with [] => [] | c :: r => if p c then c :: take_while p r else [] end.
(* str(n).split("#")[0] *)
Definition chop (n : str) : str := take_while (fun c => negb (c =? 35)) n.
(* components = re.split(r"(\d+)", n); components[0] if components[0] != "" else components[1] *)
Definition real (n : str) : option str :=
  match n with
  | [] => None                                   (* [''][1] : IndexError *)
  | c :: _ => Some (if ns_digit c then take_while ns_digit n else take_while (fun x => negb (ns_digit x)) n)
  end.

(* decimal rendering of an int: str(n) *)
Fixpoint uint_str (u : Decimal.uint) : str :=
  match u with
  | Nil => []
  | D0 r => 48 :: uint_str r | D1 r => 49 :: uint_str r | D2 r => 50 :: uint_str r | D3 r => 51 :: uint_str r
  | D4 r => 52 :: uint_str r | D5 r => 53 :: uint_str r | D6 r => 54 :: uint_str r | D7 r => 55 :: uint_str r
  | D8 r => 56 :: uint_str r | D9 r => 57 :: uint_str r
  end.
Definition z_str (n : Z) : str :=
  match Z.to_int n with Decimal.Pos u => uint_str u | Decimal.Neg u => 45 :: uint_str u end.

(* sorted(list of Mutation): by (pos, op) *)
Definition var_ltb (a b : variant) : bool :=
  if v_pos a <? v_pos b then true else if v_pos b <? v_pos a then false else str_ltb (v_op a) (v_op b).
Definition sort_vars (l : list variant) : list variant := isort var_ltb l.

(* gene.get_rsid(m) (default=True): rsID, or "pos+1.op" *)
Definition rsid (v : variant) : str :=
  if str_eqb (v_rs v) (s "-") then z_str (v_pos v + 1) ++ s "." ++ v_op v else v_rs v.
Definition is_func (v : variant) : bool := match v_effect v with Some _ => true | None => false end.

(* ------------------------------------------------------------------ names *)
Definition nice_snp (display : bool) (v : variant) : str :=
  if negb display then rsid v
  else match v_solo v with
       | Some al => al ++ s "." ++ rsid v
       | None => match v_effect v with
                 | Some (c :: e) => (c :: e) ++ s "." ++ rsid v
                 | _ => rsid v
                 end
       end.

Definition del_name (g : dgene) : str := match g_del g with Some d => d | None => s "None" end.

(* MinorSolution.get_major_name(i) *)
Definition allele_major_name (display : bool) (a : allele) : str :=
  let n := chop (a_major a) :: map (nice_snp display) (filter is_func (sort_vars (a_added a))) in
  if negb display then join (s "+") n
  else match n with [x] => x | _ => s "(" ++ join (s " ^") n ++ s ")" end.
Definition major_name (display : bool) (g : dgene) (sol : list allele) (i : Z) : str :=
  if i =? -1 then del_name g
  else match nth_error sol (Z.to_nat i) with Some a => allele_major_name display a | None => [] end.

(* MinorSolution.get_minor_name(i, legacy) *)
Definition allele_minor_name (legacy : bool) (a : allele) : str :=
  let base := if legacy then match a_alt a with [] => a_minor a | alt => alt end else a_minor a in
  join (s " ") (base :: map (fun v => s "+" ++ rsid v) (sort_vars (a_added a))
                     ++ map (fun v => s "-" ++ rsid v) (sort_vars (a_missing a))).
Definition minor_name (legacy : bool) (g : dgene) (sol : list allele) (i : Z) : str :=
  if i =? -1 then del_name g
  else match nth_error sol (Z.to_nat i) with Some a => allele_minor_name legacy a | None => [] end.

(* SolvedAllele.__str__ and major_repr *)
Definition allele_str (a : allele) : str :=
  let extra := concat (map (fun v => s " +" ++ rsid v) (sort_vars (a_added a))) in
  let miss := concat (map (fun v => s " -" ++ rsid v) (sort_vars (a_missing a))) in
  let t := (match a_minor a with [] => a_major a | m => m end) ++ extra ++ miss in
  match extra ++ miss with [] => s "*" ++ t | _ => s "*(" ++ t ++ s ")" end.
Definition allele_major_repr (a : allele) : str :=
  let extra := concat (map (fun v => s " +" ++ rsid v) (filter is_func (sort_vars (a_added a)))) in
  match extra with [] => s "*" ++ a_major a | _ => s "*(" ++ a_major a ++ extra ++ s ")" end.
(* MinorSolution._solution_nice: natsorted by minor name *)
Definition solution_nice (sol : list allele) : str :=
  join (s ", ") (map allele_str (isort (fun a b => name_ltb (a_minor a) (a_minor b)) sol)).

(* ------------------------------------------------------------------ estimate_diplotype *)
Definition mdict := list (str * list Z).
Definition mget (k : str) (md : mdict) : list Z := match alookup str_eqb k md with Some l => l | None => [] end.
(* major_dict[k].append(i) *)
Definition mappend (k : str) (i : Z) (md : mdict) : mdict := aset str_eqb k (mget k md ++ [i]) md.
(* reading major_dict[k] : the defaultdict inserts an empty group at the end when k is absent *)
Definition ensure (k : str) (md : mdict) : mdict := if amem str_eqb k md then md else md ++ [(k, [])].

(* an entry of a haplotype: one copy, or a tandem tuple *)
Inductive unit_ := U1 (i : Z) | U2 (i j : Z).
Definition usize (u : unit_) : Z := match u with U1 _ => 1 | U2 _ _ => 2 end.
Definition xlen (d : list unit_) : Z := zsum (map usize d).
Definition uflat (u : unit_) : list Z := match u with U1 i => [i] | U2 i j => [i; j] end.
Definition uhead (u : unit_) : Z := match u with U1 i => i | U2 i _ => i end.
Definition dip := (list unit_ * list unit_)%type.
Definition side (p : bool) (d : dip) : list unit_ := if p then snd d else fst d.
(* diplotype[dc % 2] += us *)
Definition place (p : bool) (us : list unit_) (d : dip) : dip :=
  if p then (fst d, snd d ++ us) else (fst d ++ us, snd d).
(* if xlen(diplotype[dc % 2]) > xlen(diplotype[(dc + 1) % 2]): dc += 1 *)
Definition balance (p : bool) (d : dip) : bool :=
  if xlen (side p d) >? xlen (side (negb p) d) then negb p else p.

(* grouping by allele number (224-232) *)
Fixpoint group_from (i : Z) (sol : list allele) (md : mdict) : dres mdict :=
  match sol with
  | [] => Ok md
  | a :: r => match real (chop (a_major a)) with
              | None => Error EIndex
              | Some k => group_from (i + 1) r (mappend k i md)
              end
  end.
Definition has_del (g : dgene) : option str := match g_del g with Some (c :: d) => Some (c :: d) | _ => None end.
(* deletion placeholders (233-238) *)
Definition add_del (g : dgene) (n : nat) (md : mdict) : mdict :=
  match has_del g with
  | None => md
  | Some d => match n with
              | O => mappend d (-1) (mappend d (-1) md)
              | S O => mappend d (-1) md
              | _ => md
              end
  end.

(* the while loop for two different names: both lists lose their heads until one is empty *)
Fixpoint pair_up (la lb : list Z) (d : dip) (p : bool) : list Z * list Z * dip * bool :=
  match la, lb with
  | x :: la', y :: lb' => pair_up la' lb' (place p [U2 x y] d) (negb p)
  | _, _ => (la, lb, d, p)
  end.
(* ... and for a tandem (a, a): the tuple is (l[0], l[0]), then two elements are deleted; IndexError when only one is left *)
Fixpoint pair_same (l : list Z) (d : dip) (p : bool) : dres (list Z * dip * bool) :=
  match l with
  | [] => Ok ([], d, p)
  | [x] => Error EIndex
  | x :: _ :: l' => pair_same l' (place p [U2 x x] d) (negb p)
  end.
Definition tandem_step (t : str * str) (st : mdict * dip * bool) : dres (mdict * dip * bool) :=
  let '(md, d, p) := st in
  let '(ta, tb) := t in
  let md := ensure ta md in
  match mget ta md with
  | [] => Ok (md, d, p)
  | _ :: _ =>
    let md := ensure tb md in
    if str_eqb ta tb then
      bind (pair_same (mget ta md) d p) (fun r => let '(l, d', p') := r in Ok (aset str_eqb ta l md, d', p'))
    else
      let '(la, lb, d', p') := pair_up (mget ta md) (mget tb md) d p in
      Ok (aset str_eqb tb lb (aset str_eqb ta la md), d', p')
  end.
Fixpoint tandem_loop (ts : list (str * str)) (st : mdict * dip * bool) : dres (mdict * dip * bool) :=
  match ts with
  | [] => Ok st
  | t :: r => bind (tandem_step t st) (tandem_loop r)
  end.

(* one group only, of even size: split it in halves (257-264) *)
Definition split_single (st : mdict * dip * bool) : mdict * dip * bool :=
  let '(md, d, p) := st in
  match md with
  | [(_, items)] =>
    if Nat.even (length items) then
      let h := Nat.div2 (length items) in
      ([], place (negb p) (map U1 (skipn h items)) (place p (map U1 (firstn h items)) d), p)
    else st
  | _ => st
  end.

(* groups of more than one copy go together on the currently shorter side (265-271) *)
Fixpoint dups (md : mdict) (d : dip) (p : bool) : mdict * dip * bool :=
  match md with
  | [] => ([], d, p)
  | (k, items) :: rest =>
    if (1 <? Z.of_nat (length items)) then
      let p' := balance p d in
      let '(rest', d', p'') := dups rest (place p' (map U1 items) d) (negb p') in
      ((k, []) :: rest', d', p'')
    else
      let '(rest', d', p'') := dups rest d p in
      ((k, items) :: rest', d', p'')
  end.
(* the rest (274-280) *)
Fixpoint singles (md : mdict) (d : dip) (p : bool) : dres (dip * bool) :=
  match md with
  | [] => Ok (d, p)
  | (_, []) :: rest => singles rest d p
  | (_, [i]) :: rest => let p' := balance p d in singles rest (place p' [U1 i] d) (negb p')
  | (_, _ :: _ :: _) :: _ => Error EAssert
  end.
(* each haplotype should have at least one item (284-288) *)
Definition fixup (d : dip) : dres dip :=
  match snd d with
  | [] => match fst d with
          | _ :: _ :: _ => Ok (removelast (fst d), [last (fst d) (U1 0)])
          | [U2 _ _] => Error EType
          | _ => Ok d
          end
  | _ :: _ => Ok d
  end.

(* the arrangement before sorting: two lists of units *)
Definition arrange_units (g : dgene) (sol : list allele) : dres dip :=
  bind (group_from 0 sol []) (fun md =>
  let md := add_del g (length sol) md in
  bind (if (2 <? Z.of_nat (length sol)) then tandem_loop (g_tandems g) (md, ([], []), false)
        else Ok (md, ([], []), false)) (fun st =>
  let '(md, d, p) := split_single st in
  let '(md, d, p) := dups md d p in
  bind (singles md d p) (fun dp => fixup (fst dp)))).

(* flatten: natsorted by the name of the (first) copy, tuples kept together (290-300) *)
Definition sort_units (name : Z -> str) (us : list unit_) : list unit_ :=
  isort (fun a b => name_ltb (name (uhead a)) (name (uhead b))) us.
Definition flatten (name : Z -> str) (us : list unit_) : list Z := concat (map uflat (sort_units name us)).
(* natsorted([flat0, flat1], key = names) (303-306) *)
Definition sort_haps (name : Z -> str) (hs : list (list Z)) : list (list Z) :=
  isort (fun a b => names_ltb (map name a) (map name b)) hs.

(* estimate_diplotype: the value stored by set_diplotype *)
Definition arrange (display : bool) (g : dgene) (sol : list allele) : dres (list (list Z)) :=
  bind (arrange_units g sol) (fun d =>
  let name := major_name display g sol in
  Ok (sort_haps name [flatten name (fst d); flatten name (snd d)])).

(* get_major_diplotype / get_minor_diplotype *)
Definition render (pre post : str) (name : Z -> str) (dipl : list (list Z)) : str :=
  join (s " / ") (map (fun h => join (s " + ") (map (fun i => pre ++ name i ++ post) h))
                      (filter (fun h => match h with [] => false | _ => true end) dipl)).
Definition major_diplotype (display : bool) (g : dgene) (sol : list allele) (dipl : list (list Z)) : str :=
  render (s "*") [] (major_name display g sol) dipl.
Definition minor_diplotype (legacy : bool) (g : dgene) (sol : list allele) (dipl : list (list Z)) : str :=
  render (s "[*") (s "]") (minor_name legacy g sol) dipl.

(* ------------------------------------------------------------------ side conditions on a database *)
(* gene.common_tandems: pairs of two different names *)
Definition tandems_ok (g : dgene) : bool := forallb (fun t => negb (str_eqb (fst t) (snd t))) (g_tandems g).
(* every called allele has a non-empty name before '#' *)
Definition names_ok (sol : list allele) : bool :=
  forallb (fun a => match chop (a_major a) with [] => false | _ => true end) sol.

(* ------------------------------------------------------------------ vocabulary of the statements in props/C11.v *)
Definition uflats (us : list unit_) : list Z := concat (map uflat us).
Fixpoint zrange (i : Z) (n : nat) : list Z := match n with O => [] | S m => i :: zrange (i + 1) m end.
(* number of deletion placeholders: max(0, 2 - n) when the gene has a deletion allele *)
Definition ndel (g : dgene) (n : nat) : nat := match has_del g with None => O | Some _ => (2 - n)%nat end.
(* the group a copy belongs to: the allele number of its major name *)
Definition key_of (sol : list allele) (i : Z) : option str :=
  if i <? 0 then None
  else match nth_error sol (Z.to_nat i) with Some a => real (chop (a_major a)) | None => None end.
Definition isU1 (u : unit_) : Prop := match u with U1 _ => True | U2 _ _ => False end.
(* natural order of two units: by the name of their (first) copy *)
Definition unit_le (name : Z -> str) (a b : unit_) : Prop := name_leb (name (uhead a)) (name (uhead b)) = true.
(* the name shown for a called copy: fusion suffix removed, "+rsid" of every functional added variant appended *)
Definition spec_name (g : dgene) (sol : list allele) (i : Z) : str :=
  if i =? -1 then del_name g
  else match nth_error sol (Z.to_nat i) with
       | Some a => chop (a_major a) ++ concat (map (fun v => s "+" ++ rsid v) (filter is_func (sort_vars (a_added a))))
       | None => []
       end.

(* ------------------------------------------------------------------ encoders *)
Definition o_derr (e : derr) : out := OZ (match e with EIndex => 1 | EAssert => 2 | EType => 3 end).
Definition o_dres {A} (f : A -> out) (r : dres A) : out :=
  match r with Ok a => OL [OZ 0; f a] | Error e => OL [o_derr e] end.
Definition o_dip (d : list (list Z)) : out := o_list (o_list OZ) d.
(* everything the harness compares for one call *)
Definition o_run (display : bool) (g : dgene) (sol : list allele) : out :=
  match arrange display g sol with
  | Ok d => OL [OZ 0; o_dip d; o_str (major_diplotype display g sol d);
                o_str (minor_diplotype false g sol d); o_str (minor_diplotype true g sol d)]
  | Error e => OL [o_derr e]
  end.

(* all orders of a list, in itertools.permutations order *)
Fixpoint remove_nth {A} (n : nat) (l : list A) : list A :=
  match l, n with [], _ => [] | _ :: r, O => r | x :: r, S m => x :: remove_nth m r end.
Fixpoint perms_fuel {A} (fuel : nat) (l : list A) : list (list A) :=
  match fuel with
  | O => [[]]
  | S f => match l with
           | [] => [[]]
           | _ => flat_map (fun i => match nth_error l i with
                                     | Some x => map (cons x) (perms_fuel f (remove_nth i l))
                                     | None => [] end) (seq 0 (length l))
           end
  end.
Definition perms {A} (l : list A) : list (list A) := perms_fuel (length l) l.
Definition o_run_perms (display : bool) (g : dgene) (sol : list allele) : out :=
  OL (map (o_run display g) (perms sol)).
