(* Lp.v — the vocabulary shared by the ILP layer (C05) and the three stage models (C02, C03, C04):
   variables identified by a structured key, linear expressions over Q, rows, models, assignments,
   feasibility and objective, and the two helpers of lpinterface.py (abssum, prod). No proofs here. *)
From Aldy Require Import Base.
Open Scope Z_scope.

Definition vkey := list Z.                       (* role of a variable: [tag; i; j; ...] *)
Definition vkey_eqb : vkey -> vkey -> bool := str_eqb.

Inductive vkind :=
  | KBin                                          (* model.addVar(vtype="B") *)
  | KInt (lb ub : Q)                              (* vtype="I" with bounds *)
  | KCont (lb ub : option Q).                     (* continuous; None = infinite *)

Definition lin := list (Q * vkey).                (* sum of coef * var *)
Inductive rel := RLe | RGe | REq.
Record row := { r_lin : lin; r_rel : rel; r_rhs : Q }.
Record lp := { lp_vars : list (vkey * vkind); lp_rows : list row; lp_obj : lin; lp_const : Q }.

Definition asg := vkey -> Q.                      (* an assignment of values *)

Fixpoint eval_lin (a : asg) (l : lin) : Q :=
  match l with [] => 0%Q | (c, v) :: t => (c * a v + eval_lin a t)%Q end.

Definition sat_row (a : asg) (r : row) : Prop :=
  match r_rel r with
  | RLe => (eval_lin a (r_lin r) <= r_rhs r)%Q
  | RGe => (r_rhs r <= eval_lin a (r_lin r))%Q
  | REq => (eval_lin a (r_lin r) == r_rhs r)%Q
  end.
Definition sat_rowb (a : asg) (r : row) : bool :=
  match r_rel r with
  | RLe => Qleb (eval_lin a (r_lin r)) (r_rhs r)
  | RGe => Qleb (r_rhs r) (eval_lin a (r_lin r))
  | REq => Qeqb (eval_lin a (r_lin r)) (r_rhs r)
  end.

Definition is_bin (q : Q) : Prop := (q == 0)%Q \/ (q == 1)%Q.
Definition is_binb (q : Q) : bool := Qeqb q 0 || Qeqb q 1.
Definition is_intb (q : Q) : bool := (Zpos (Qden (Qred q)) =? 1).
Definition is_int (q : Q) : Prop := exists z : Z, (q == inject_Z z)%Q.

Definition in_kind (k : vkind) (q : Q) : Prop :=
  match k with
  | KBin => is_bin q
  | KInt lb ub => is_int q /\ (lb <= q)%Q /\ (q <= ub)%Q
  | KCont lb ub => match lb with Some l => (l <= q)%Q | None => True end /\
                   match ub with Some u => (q <= u)%Q | None => True end
  end.
Definition in_kindb (k : vkind) (q : Q) : bool :=
  match k with
  | KBin => is_binb q
  | KInt lb ub => is_intb q && Qleb lb q && Qleb q ub
  | KCont lb ub => match lb with Some l => Qleb l q | None => true end &&
                   match ub with Some u => Qleb q u | None => true end
  end.

Definition feasible (m : lp) (a : asg) : Prop :=
  Forall (fun kv => in_kind (snd kv) (a (fst kv))) (lp_vars m) /\ Forall (sat_row a) (lp_rows m).
Definition feasibleb (m : lp) (a : asg) : bool :=
  forallb (fun kv => in_kindb (snd kv) (a (fst kv))) (lp_vars m) && forallb (sat_rowb a) (lp_rows m).
Definition objective (m : lp) (a : asg) : Q := (eval_lin a (lp_obj m) + lp_const m)%Q.

(* binaries of a model and the active set of an assignment (what solutions() yields and cuts on) *)
Definition binaries (m : lp) : list vkey :=
  map fst (filter (fun kv => match snd kv with KBin => true | _ => false end) (lp_vars m)).
Definition active (m : lp) (a : asg) : list vkey := filter (fun v => Qeqb (a v) 1) (binaries m).

(* the exclusion cut of solutions():  sum_{v in vv} v <= |vv| - 1 *)
Definition cut_row (vv : list vkey) : row :=
  {| r_lin := map (fun v => (1%Q, v)) vv; r_rel := RLe; r_rhs := inject_Z (Z.of_nat (length vv) - 1) |}.
Definition add_rows (m : lp) (rs : list row) : lp :=
  {| lp_vars := lp_vars m; lp_rows := lp_rows m ++ rs; lp_obj := lp_obj m; lp_const := lp_const m |}.

(* assignments given as association lists (executable side) *)
Definition asg_of (l : list (vkey * Q)) : asg :=
  fun v => match alookup vkey_eqb v l with Some q => q | None => 0%Q end.

(* ---- lpinterface.abssum: for each term v_i a fresh non-negative a_i with  a_i + v_i >= 0,  a_i - v_i >= 0;
        the value is sum c_i * a_i.  [abs_key v] is the key of the helper of v. ---- *)
Definition abs_key (v : vkey) : vkey := (-1) :: v.
Definition abssum_vars (vs : list vkey) : list (vkey * vkind) :=
  map (fun v => (abs_key v, KCont (Some 0%Q) None)) vs.
Definition abssum_rows (vs : list vkey) : list row :=
  flat_map (fun v => [ {| r_lin := [(1%Q, abs_key v); (1%Q, v)]; r_rel := RGe; r_rhs := 0%Q |};
                       {| r_lin := [(1%Q, abs_key v); ((-1)%Q, v)]; r_rel := RGe; r_rhs := 0%Q |} ]) vs.
Definition abssum_lin (coef : vkey -> Q) (vs : list vkey) : lin := map (fun v => (coef v, abs_key v)) vs.

(* ---- lpinterface.prod: res <= t for every factor, res >= sum t - (n - 1) ---- *)
Definition prod_rows (res : vkey) (ts : list vkey) : list row :=
  map (fun t => {| r_lin := [(1%Q, res); ((-1)%Q, t)]; r_rel := RLe; r_rhs := 0%Q |}) ts ++
  [ {| r_lin := (1%Q, res) :: map (fun t => ((-1)%Q, t)) ts; r_rel := RGe;
       r_rhs := Qopp (inject_Z (Z.of_nat (length ts) - 1)) |} ].

(* ---- output encoders ---- *)
Definition o_key (k : vkey) : out := OL (map OZ k).
Definition o_lin (l : lin) : out := o_list (fun cv => OL [o_q (fst cv); o_key (snd cv)]) l.
Definition o_rel (r : rel) : out := OZ (match r with RLe => 0 | RGe => 1 | REq => 2 end).
Definition o_row (r : row) : out := OL [o_lin (r_lin r); o_rel (r_rel r); o_q (r_rhs r)].
Definition o_kind (k : vkind) : out :=
  match k with
  | KBin => OL [OZ 0]
  | KInt l u => OL [OZ 1; o_q l; o_q u]
  | KCont l u => OL [OZ 2; o_opt o_q l; o_opt o_q u]
  end.
Definition o_lp (m : lp) : out :=
  OL [o_list (fun kv => OL [o_key (fst kv); o_kind (snd kv)]) (lp_vars m); o_list o_row (lp_rows m);
      o_lin (lp_obj m); o_q (lp_const m)].
