(* Dump.v — the debug dump of a sample: writer aldy/sam.py:427-444, reader aldy/sam.py:297-334, genome marker
   aldy/sam.py:1010-1018 + aldy/__main__.py:417-441, parameter re-application aldy/genotype.py:185-190.
   A sample state is what Sample.__init__ holds just before _make_coverage: name, profile object, neutral depth table,
   per-position observation lists (reference and variant cells), phase records per fragment, fusion and indel tables.
   No proofs here. *)
From Coq Require Import String Permutation.
From Aldy Require Import Base Consts Params.
Import List.
Open Scope Z_scope.

Definition qual := (Z * Z)%type.                     (* (binned mapping quality, binned base quality) *)
Definition qual_eqb (a b : qual) : bool := (fst a =? fst b) && (snd a =? snd b).
Definition mkey := (Z * str)%type.                   (* (position, operation) *)
Definition site := (Z * str)%type.                   (* one entry of a phase record: position -> observed operation *)

Record sample := {
  s_name : str;
  s_profile : dict;                                  (* every scalar attribute of the Profile object (the model parameters) *)
  s_payload : out;                                   (* rest of the pickled Profile (name, cn_region, data, cn_solution): verbatim *)
  s_neutral : list (Z * Z);                          (* _dump_cn: position -> depth in the copy-number-neutral region *)
  s_norm : list (Z * list qual);                     (* norm: position -> reference observations *)
  s_muts : list (mkey * list qual);                  (* muts: (position, op) -> variant observations *)
  s_phases : list (str * list site);                 (* phases: fragment name -> sites, in insertion order *)
  s_fusion : list (str * (Z * Z));                   (* _fusion_counter *)
  s_indel : list (mkey * (Z * Z))                    (* _indel_sites: (pos, op) -> [against, for] *)
}.

(* collections.Counter(list): distinct values in first-occurrence order with their counts *)
Fixpoint cnt_add (q : qual) (c : list (qual * Z)) : list (qual * Z) :=
  match c with
  | [] => [(q, 1)]
  | (q', n) :: t => if qual_eqb q q' then (q', n + 1) :: t else (q', n) :: cnt_add q t
  end.
Definition counter (l : list qual) : list (qual * Z) := fold_left (fun c q => cnt_add q c) l [].
(* [q for q, n in c.items() for _ in range(n)] *)
Definition expand (c : list (qual * Z)) : list qual := flat_map (fun qn => repeat (fst qn) (Z.to_nat (snd qn))) c.

Record dumpfile := {
  d_genome : str;                                    (* content of <prefix>.<gene>.genome *)
  d_name : str;
  d_profile : dict;
  d_payload : out;
  d_neutral : list (Z * Z);
  d_norm : list (Z * list (qual * Z));
  d_muts : list (mkey * list (qual * Z));
  d_phases : list (list site);                       (* records with more than one site, names dropped *)
  d_fusion : list (str * (Z * Z));
  d_indel : list (mkey * (Z * Z))
}.

Definition multi (r : list site) : bool := 1 <? Z.of_nat (length r).

(* ---- what _make_coverage (sam.py:579-608) does with variant observations outside the RefSeq window ----
   A variant cell (pos, op) with pos outside [lo, hi] (the mapped RefSeq range) whose op is not an insertion is counted as
   reference: its observations are appended to the reference cell "_" of pos. *)
Definition is_ins (op : str) : bool := match op with 105 :: 110 :: 115 :: _ => true | _ => false end.
Definition outside (lo hi : Z) (k : mkey) : bool := negb ((lo <=? fst k) && (fst k <=? hi)) && negb (is_ins (snd k)).
Definition folded (lo hi : Z) (muts : list (mkey * list qual)) (pos : Z) : list qual :=
  flat_map (fun kc => if (fst (fst kc) =? pos) && outside lo hi (fst kc) then snd kc else []) muts.
Definition norm_at (x : sample) (pos : Z) : list qual :=
  match alookup Z.eqb pos (s_norm x) with Some l => l | None => [] end.
(* the reference cell of the coverage table at pos: a Coverage observable (total depth, region depth, copy-number evidence) *)
Definition ref_cell (lo hi : Z) (x : sample) (pos : Z) : list qual := norm_at x pos ++ folded lo hi (s_muts x) pos.

(* Variant switch for the writer.  The shipped _make_coverage stores the list object norm[pos] itself as the "_" cell and
   extends it IN PLACE, and Sample.__init__ writes the dump AFTER _make_coverage (sam.py:122-124): the dumped reference lists
   already contain the folded observations, and the reader folds them in again.  [Fixed] dumps norm as parsed. *)
Definition nonempty {A} (l : list A) : bool := match l with [] => false | _ => true end.
Definition norm_after_coverage (lo hi : Z) (x : sample) : list (Z * list qual) :=
  map (fun pc => (fst pc, if nonempty (snd pc) then snd pc ++ folded lo hi (s_muts x) (fst pc) else snd pc)) (s_norm x).
Definition written_norm (v : bvariant) (lo hi : Z) (x : sample) : list (Z * list qual) :=
  match v with Fixed => s_norm x | AsShipped => norm_after_coverage lo hi x end.

Definition encode (v : bvariant) (lo hi : Z) (genome : str) (x : sample) : dumpfile := {|
  d_genome := genome;
  d_name := s_name x;
  d_profile := s_profile x;
  d_payload := s_payload x;
  d_neutral := s_neutral x;
  d_norm := map (fun pc => (fst pc, counter (snd pc))) (written_norm v lo hi x);
  d_muts := map (fun pc => (fst pc, counter (snd pc))) (s_muts x);
  d_phases := filter multi (map snd (s_phases x));
  d_fusion := s_fusion x;
  d_indel := s_indel x
|}.

(* the parameters the reader overwrites and the values it gives them *)
Definition resets (c : consts) : dict :=
  [ (s "display_format", VBool false); (s "debug_probe", VStr []); (s "debug_novel", VBool false);
    (s "min_avg_coverage", VFloat (c_dump_min_avg c)) ].
Definition reset_names (c : consts) : list str := map fst (resets c).
Definition apply_resets (c : consts) (d : dict) : dict :=
  fold_left (fun acc kv => aset str_eqb (fst kv) (snd kv) acc) (resets c) d.

(* f"r{i}" *)
Definition rname (i : Z) : str := 114 :: print_nat i.
Fixpoint number_from (i : Z) (l : list (list site)) : list (str * list site) :=
  match l with [] => [] | r :: t => (rname i, r) :: number_from (i + 1) t end.

Definition decode (c : consts) (d : dumpfile) : sample := {|
  s_name := d_name d;
  s_profile := apply_resets c (d_profile d);
  s_payload := d_payload d;
  s_neutral := d_neutral d;
  s_norm := map (fun pc => (fst pc, expand (snd pc))) (d_norm d);
  s_muts := map (fun pc => (fst pc, expand (snd pc))) (d_muts d);
  s_phases := number_from 0 (d_phases d);
  s_fusion := d_fusion d;
  s_indel := d_indel d
|}.

(* genome of a dump = the marker (sam.py detect_genome) *)
Definition dump_genome (d : dumpfile) : str := d_genome d.

(* ---- what the rest of aldy can see of a sample ---- *)
(* Coverage accessors: number of observations of a cell, and after the quality filter (coverage.py:63-70,221-229) *)
Definition cell_count (l : list qual) : Z := Z.of_nat (length l).
Definition cell_count_q (min_mapq min_q : Z) (l : list qual) : Z :=
  Z.of_nat (length (filter (fun mq => (min_q <=? snd mq) && (min_mapq <=? fst mq)) l)).
(* the minor stage reads phase records restricted to the variant positions and uses those with more than one site left
   (minor.py:373-381); names are irrelevant, order and multiplicity are kept *)
Definition restrict (positions : list Z) (r : list site) : list site := filter (fun kv => memb Z.eqb (fst kv) positions) r.
Definition phase_modes (positions : list Z) (ph : list (str * list site)) : list (list site) :=
  filter multi (map (fun kv => restrict positions (snd kv)) ph).

(* ---- the equivalence the round trip preserves ---- *)
(* same keys in the same order, every cell the same multiset of observations *)
Definition cells_equiv {K : Type} (a b : list (K * list qual)) : Prop :=
  Forall2 (fun x y => fst x = fst y /\ Permutation (snd x) (snd y)) a b.
(* the ordered list of phase records with at least two sites *)
Definition multi_records (x : sample) : list (list site) := filter multi (map snd (s_phases x)).
(* equal on every observable; parameters compared by lookup, except the listed names *)
Definition sample_equiv (except : list str) (a b : sample) : Prop :=
  s_name a = s_name b /\ s_payload a = s_payload b /\ s_neutral a = s_neutral b /\
  s_fusion a = s_fusion b /\ s_indel a = s_indel b /\
  cells_equiv (s_norm a) (s_norm b) /\ cells_equiv (s_muts a) (s_muts b) /\
  multi_records a = multi_records b /\
  (forall n, ~ In n except -> alookup str_eqb n (s_profile a) = alookup str_eqb n (s_profile b)).

(* ---- encoders for the harness ---- *)
Definition o_qual (q : qual) : out := OL [OZ (fst q); OZ (snd q)].
Definition o_mkey (k : mkey) : out := OL [OZ (fst k); o_str (snd k)].
Definition o_site (x : site) : out := OL [OZ (fst x); o_str (snd x)].
Definition o_zz (p : Z * Z) : out := OL [OZ (fst p); OZ (snd p)].
Definition o_dump (d : dumpfile) : out :=
  OL [ o_str (d_genome d); o_str (d_name d); o_dict (d_profile d); d_payload d; o_list o_zz (d_neutral d);
       o_list (fun pc => OL [OZ (fst pc); o_list (fun qn => OL [o_qual (fst qn); OZ (snd qn)]) (snd pc)]) (d_norm d);
       o_list (fun pc => OL [o_mkey (fst pc); o_list (fun qn => OL [o_qual (fst qn); OZ (snd qn)]) (snd pc)]) (d_muts d);
       o_list (o_list o_site) (d_phases d);
       o_list (fun kv => OL [o_str (fst kv); o_zz (snd kv)]) (d_fusion d);
       o_list (fun kv => OL [o_mkey (fst kv); o_zz (snd kv)]) (d_indel d) ].
Definition o_sample (x : sample) : out :=
  OL [ o_str (s_name x); o_dict (s_profile x); s_payload x; o_list o_zz (s_neutral x);
       o_list (fun pc => OL [OZ (fst pc); o_list o_qual (snd pc)]) (s_norm x);
       o_list (fun pc => OL [o_mkey (fst pc); o_list o_qual (snd pc)]) (s_muts x);
       o_list (fun kv => OL [o_str (fst kv); o_list o_site (snd kv)]) (s_phases x);
       o_list (fun kv => OL [o_str (fst kv); o_zz (snd kv)]) (s_fusion x);
       o_list (fun kv => OL [o_mkey (fst kv); o_zz (snd kv)]) (s_indel x) ].
(* one term per case: the dump the writer produces and the sample the reader makes of it *)
Definition o_roundtrip (v : bvariant) (lo hi : Z) (c : consts) (genome : str) (x : sample) (probe : list Z) : out :=
  OL [ o_dump (encode v lo hi genome x); o_sample (decode c (encode v lo hi genome x));
       o_list (fun p => OZ (cell_count (ref_cell lo hi x p))) probe;
       o_list (fun p => OZ (cell_count (ref_cell lo hi (decode c (encode v lo hi genome x)) p))) probe ].
