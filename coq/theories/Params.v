(* Params.v — model of aldy's parameter handling (C18).
   profile.py: Profile.__init__ (defaults), Profile.update (typed conversion), Profile.load (options merge),
   get_sam_profile_data (options written), __main__.py (--param k=v split). *)
From Coq Require Import String.
From Aldy Require Import Base Consts.
Import List.  (* List.length etc. win over String.length *)
Open Scope Z_scope.

(* a value as the user gives it: a string (command line), or a native Python / YAML value *)
Inductive ival := IStr (t : str) | IBool (b : bool) | IInt (z : Z) | IFloat (q : Q) | INone.

Inductive bvariant := AsShipped | Fixed.      (* boolean reading: `not (v in ["False","0"])` vs the repaired parser *)

Inductive res (A : Type) := Ok (a : A) | Err (n : str) | Unsupported.
Arguments Ok {A} a. Arguments Err {A} n. Arguments Unsupported {A}.

(* ---- Python's int(str) / float(str) on the decimal grammar (oracle restricted to this grammar) ---- *)
Definition is_ws (c : Z) : bool := (c =? 32) || ((9 <=? c) && (c <=? 13)).
Definition is_digit (c : Z) : bool := (48 <=? c) && (c <=? 57).
Fixpoint lstrip (t : str) : str := match t with c :: r => if is_ws c then lstrip r else t | [] => [] end.
Definition strip (t : str) : str := rev (lstrip (rev (lstrip t))).

Fixpoint digits_val (acc : Z) (t : str) : option Z :=
  match t with
  | [] => Some acc
  | c :: r => if is_digit c then digits_val (10 * acc + (c - 48)) r else None
  end.
Definition parse_nat (t : str) : option Z := match t with [] => None | _ => digits_val 0 t end.
Definition split_sign (t : str) : bool * str :=     (* (negative?, rest) *)
  match t with
  | c :: r => if c =? 45 then (true, r) else if c =? 43 then (false, r) else (false, t)
  | [] => (false, t)
  end.
Definition parse_int (t : str) : option Z :=
  let '(neg, r) := split_sign (strip t) in
  match parse_nat r with Some n => Some (if neg then - n else n) | None => None end.

(* split at the first character satisfying p *)
Fixpoint break (p : Z -> bool) (t : str) : str * option str :=
  match t with
  | [] => ([], None)
  | c :: r => if p c then ([], Some r) else let '(a, b) := break p r in (c :: a, b)
  end.
Definition pow10 (e : Z) : Q := if 0 <=? e then inject_Z (10 ^ e) else (1 # Z.to_pos (10 ^ (- e)))%Q.
Definition parse_float (t : str) : option Q :=
  let '(neg, r) := split_sign (strip t) in
  let '(mant, ex) := break (fun c => (c =? 101) || (c =? 69)) r in
  let '(ip, fp) := break (fun c => c =? 46) mant in
  let fp' := match fp with Some f => f | None => [] end in
  match ip, fp' with
  | [], [] => None
  | _, _ =>
    match digits_val 0 ip, digits_val 0 fp' with
    | Some i, Some f =>
      let m := (inject_Z i + inject_Z f * pow10 (- Z.of_nat (length fp')))%Q in
      let e := match ex with
               | None => Some 0
               | Some es => let '(eneg, er) := split_sign es in
                            match parse_nat er with Some n => Some (if eneg then - n else n) | None => None end
               end in
      match e with
      | Some e => Some (let v := (m * pow10 e)%Q in if neg then Qopp v else v)
      | None => None
      end
    | _, _ => None
    end
  end.

Definition lower_c (c : Z) : Z := if (65 <=? c) && (c <=? 90) then c + 32 else c.
Definition lower (t : str) : str := map lower_c t.

(* ---- boolean reading ---- *)
Definition parse_bool (bv : bvariant) (v : ival) : option bool :=
  match bv with
  | AsShipped =>      (* not (v in ["False", "0"]) : any value is accepted *)
    match v with
    | IStr t => Some (negb (str_eqb t (s "False") || str_eqb t (s "0")))
    | _ => Some true
    end
  | Fixed =>
    match v with
    | IBool b => Some b
    | IInt z => if z =? 1 then Some true else if z =? 0 then Some false else None
    | IStr t => let l := lower (strip t) in
                if str_eqb l (s "true") || str_eqb l (s "1") then Some true
                else if str_eqb l (s "false") || str_eqb l (s "0") then Some false else None
    | _ => None
    end
  end.

Definition q_trunc (q : Q) : Z := Z.quot (Qnum q) (Zpos (Qden q)).     (* Python int(float): toward zero *)

(* decimal printing of an integer: Python str(int) *)
Fixpoint digits_of (fuel : nat) (n : Z) (acc : str) : str :=
  match fuel with
  | O => acc
  | S f => let acc' := (48 + n mod 10) :: acc in if n <? 10 then acc' else digits_of f (n / 10) acc'
  end.
Definition print_nat (n : Z) : str := digits_of (S (Z.to_nat (Z.log2 n))) n [].
Definition print_int (z : Z) : str := if z <? 0 then 45 :: print_nat (- z) else print_nat z.

(* typ(v) for the type of the current attribute value *)
Definition convert (bv : bvariant) (cur : pval) (v : ival) : res pval :=
  match cur with
  | VBool _ => match parse_bool bv v with Some b => Ok (VBool b) | None => Err [] end
  | VInt _ =>
    match v with
    | IStr t => match parse_int t with Some z => Ok (VInt z) | None => Err [] end
    | IInt z => Ok (VInt z)
    | IBool b => Ok (VInt (if b then 1 else 0))
    | IFloat q => Ok (VInt (q_trunc q))
    | INone => Err []
    end
  | VFloat _ =>
    match v with
    | IStr t => match parse_float t with Some q => Ok (VFloat q) | None => Err [] end
    | IInt z => Ok (VFloat (inject_Z z))
    | IBool b => Ok (VFloat (if b then 1 else 0)%Q)
    | IFloat q => Ok (VFloat q)
    | INone => Err []
    end
  | VStr _ =>
    match v with
    | IStr t => Ok (VStr t)
    | IInt z => Ok (VStr (print_int z))
    | IBool b => Ok (VStr (if b then s "True" else s "False"))
    | IFloat _ => Unsupported      (* repr(float) is not modelled; the generator never sends it *)
    | INone => Ok (VStr (s "None"))
    end
  | VNone => Err []                (* type(None)(v) raises TypeError *)
  end.

Definition dict := list (str * pval).

(* Profile.update: (new __dict__, returned params) *)
Fixpoint update (bv : bvariant) (d : dict) (params : dict) (kw : list (str * ival)) : res (dict * dict) :=
  match kw with
  | [] => Ok (d, params)
  | (n, v) :: rest =>
    match v, alookup str_eqb n d with
    | INone, _ => update bv d params rest
    | _, None => update bv d params rest
    | _, Some cur =>
      if str_eqb n (s "cn_solution") then Unsupported   (* taken verbatim; not a scalar: outside this model *)
      else match convert bv cur v with
           | Ok pv => update bv (aset str_eqb n pv d) (aset str_eqb n pv params) rest
           | Err _ => Err n
           | Unsupported => Unsupported
           end
    end
  end.

(* Python keyword dictionary: later duplicates replace the value, first position kept *)
Definition mkdict {V} (kw : list (str * V)) : list (str * V) := fold_left (fun acc kv => aset str_eqb (fst kv) (snd kv) acc) kw [].

(* route 1: Profile(name, kwargs...) — programming interface *)
Definition route_api (bv : bvariant) (c : consts) (kw : list (str * ival)) : res (dict * dict) :=
  update bv (c_params c) [] (mkdict kw).

(* route 2: --param k=v ... ; __main__.py splits at the first '=', replaces '-' by '_' in the key *)
Definition split_param (p : str) : option (str * str) :=
  match break (fun ch => ch =? 61) p with
  | (k, Some v) => Some (map (fun ch => if ch =? 45 then 95 else ch) k, v)
  | (_, None) => None
  end.
Fixpoint split_params (ps : list str) : res (list (str * ival)) :=
  match ps with
  | [] => Ok []
  | p :: r => match split_param p with
              | None => Err p
              | Some (k, v) => match split_params r with Ok l => Ok ((k, IStr v) :: l) | e => e end
              end
  end.
Definition route_cli (bv : bvariant) (c : consts) (ps : list str) : res (dict * dict) :=
  match split_params ps with
  | Ok kw => route_api bv c kw
  | Err p => Err p
  | Unsupported => Unsupported
  end.

(* route 3: options section of a profile file merged with call parameters (profile.py:296-302):
   Profile(name, cn_region, data, neutral_value=nv, dict(options, params)); [nv] is the profile's neutral value.
   (genotype.py re-applies the call parameters with update only for debug dumps.) *)
Definition route_profile (bv : bvariant) (c : consts) (nv : ival) (options params : list (str * ival)) : res (dict * dict) :=
  update bv (c_params c) [] ((s "neutral_value", nv) :: mkdict (options ++ params)).

(* the profile command writes Profile("").update(params) under "options"; YAML keeps native types *)
Definition native (p : pval) : ival :=
  match p with VBool b => IBool b | VInt z => IInt z | VFloat q => IFloat q | VStr t => IStr t | VNone => INone end.
Definition write_options (bv : bvariant) (c : consts) (kw : list (str * ival)) : res (list (str * ival)) :=
  match update bv (c_params c) [] (mkdict kw) with
  | Ok (_, ps) => Ok (map (fun kv => (fst kv, native (snd kv))) ps)
  | Err n => Err n
  | Unsupported => Unsupported
  end.

(* ---- the specification the property states: the value a spelling denotes at the documented type ---- *)
Definition denotes (cur : pval) (v : ival) : res pval := convert Fixed cur v.

(* ---- output encoders for the harness ---- *)
Definition o_pval (p : pval) : out :=
  match p with
  | VBool b => OL [OZ 0; o_bool b]
  | VInt z => OL [OZ 1; OZ z]
  | VFloat q => OL [OZ 2; o_q q]
  | VStr t => OL [OZ 3; o_str t]
  | VNone => OL [OZ 4]
  end.
Definition o_dict (d : dict) : out := o_list (o_pair o_str o_pval) d.
Definition o_res {A} (f : A -> out) (r : res A) : out :=
  match r with Ok a => OL [OZ 0; f a] | Err n => OL [OZ 1; o_str n] | Unsupported => OL [OZ 2] end.
Definition o_upd (r : res (dict * dict)) : out := o_res (o_pair o_dict o_dict) r.
Definition o_opts (r : res (list (str * ival))) : out :=
  o_res (o_list (o_pair o_str (fun v => match v with
     | IBool b => OL [OZ 0; o_bool b] | IInt z => OL [OZ 1; OZ z] | IFloat q => OL [OZ 2; o_q q]
     | IStr t => OL [OZ 3; o_str t] | INone => OL [OZ 4] end))) r.
