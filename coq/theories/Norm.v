(* Norm.v — depth normalisation (C07): the per-position pileups aldy sums (sam.py:_load_cn_region,
   profile.py:get_sam_profile_data, Coverage.total), the neutral depth, the ratio, the region values
   (coverage.py:_normalize_coverage) and profile generation.  No proofs here. *)
From Aldy Require Import Base Consts.
Open Scope Z_scope.

(* a pileup as a multiset of contributions (position, reads): `cov[pos] += n` *)
Definition contrib := list (Z * Z).
Definition in_range (s e p : Z) : bool := (s <=? p) && (p <? e).
(* sum(cov[i] for i in range(s, e)) *)
Definition range_sum (d : contrib) (s e : Z) : Z := zsum (map snd (filter (fun pc => in_range s e (fst pc)) d)).
Definition scale (k : Z) (d : contrib) : contrib := map (fun pc => (fst pc, k * snd pc)) d.

(* reads: start and CIGAR as (operation code, size); M/=/X (0,7,8) and D (2) are counted and advance,
   I (1) and S (4) neither; the same walk in get_sam_profile_data, _load_cn_region and _parse_read *)
Definition cigar := list (Z * Z).
Record read := { rd_start : Z; rd_cigar : cigar }.
Definition counted (op : Z) : bool := (op =? 0) || (op =? 7) || (op =? 8) || (op =? 2).
Definition span (start n : Z) : contrib := map (fun k => (start + Z.of_nat k, 1)) (seq 0 (Z.to_nat n)).
Fixpoint walk (start : Z) (cg : cigar) : contrib :=
  match cg with
  | [] => []
  | (op, n) :: t => if counted op then span start n ++ walk (start + n) t else walk start t
  end.
Definition pileup (reads : list read) : contrib := flat_map (fun r => walk (rd_start r) (rd_cigar r)) reads.
Definition dup (k : nat) (reads : list read) : list read := flat_map (fun r => repeat r k) reads.

(* regions of the gene and its pseudogene: (gene index, name), [start, end) *)
Record nregion := { nr_gene : Z; nr_name : str; nr_start : Z; nr_end : Z }.

Inductive nres :=
  | NOk (l : list ((Z * str) * Q))      (* Coverage._region_coverage *)
  | NNeutralEmpty                        (* "CN-neutral region ... has no reads" *)
  | NBadProfile.                         (* "Invalid CN-neutral region in the provided profile" *)

(* one region: (ratio * s / p) if p != 0 else 0.0, p = profile depth / 2 *)
Definition region_value (ratio : Q) (s : Z) (pdepth : Q) : Q :=
  let p := (pdepth / 2)%Q in if Qeqb p 0 then 0%Q else (ratio * inZ s / p)%Q.

(* Coverage._normalize_coverage: [regions] carries the profile depth of each region (profile.data[gene][region][index]),
   [dg] is the sample's pileup over the gene regions (Coverage.total), [dn] its pileup over the neutral region *)
Definition normalize (neutral_value : Q) (regions : list (nregion * Q)) (cn : Z * Z) (dg dn : contrib) : nres :=
  let sam_ref := range_sum dn (fst cn) (snd cn) in
  if sam_ref =? 0 then NNeutralEmpty
  else
    let ratio := (neutral_value / inZ sam_ref)%Q in
    if Qeqb ratio 0 then NBadProfile
    else NOk (map (fun rp => ((nr_gene (fst rp), nr_name (fst rp)),
                              region_value ratio (range_sum dg (nr_start (fst rp)) (nr_end (fst rp))) (snd rp))) regions).

(* Profile.get_sam_profile_data: neutral value and per-region depth sums of one pileup *)
Definition profile_of (regions : list nregion) (cn : Z * Z) (d : contrib) : Q * list (nregion * Q) :=
  (inZ (range_sum d (fst cn) (snd cn)), map (fun r => (r, inZ (range_sum d (nr_start r) (nr_end r)))) regions).

(* sample normalised against the profile made from pileup [dp] *)
Definition normalize_against (regions : list nregion) (cn : Z * Z) (dp dg dn : contrib) : nres :=
  let p := profile_of regions cn dp in normalize (fst p) (snd p) cn dg dn.

(* Coverage.diploid_avg_coverage and the floor of sam.py:130 *)
Definition diploid_avg (cn : Z * Z) (dn : contrib) : Q :=
  (inZ (zsum (map snd dn)) / inZ (Z.abs (snd cn - fst cn)))%Q.

(* ---- encoders ---- *)
Definition o_nres (r : nres) : out :=
  match r with
  | NOk l => OL [OZ 0; o_list (fun e => OL [OZ (fst (fst e)); o_str (snd (fst e)); o_q (snd e)]) l]
  | NNeutralEmpty => OL [OZ 1]
  | NBadProfile => OL [OZ 2]
  end.
Definition o_profile (p : Q * list (nregion * Q)) : out :=
  OL [o_q (fst p); o_list (fun e => OL [OZ (nr_gene (fst e)); o_str (nr_name (fst e)); o_q (snd e)]) (snd p)].
Definition o_depths (d : contrib) (s e : Z) : out :=
  o_list (fun k => OZ (range_sum d (s + Z.of_nat k) (s + Z.of_nat k + 1))) (seq 0 (Z.to_nat (e - s))).
