(* Pileup.v — model of aldy's read pileup (C06, used by C07/C16).
   sam.py: _load_sam eligibility (176-188) + _in_region (1026-1036), _parse_read (610-730: bin_quality, CIGAR walk,
   phase record, multi-substitution merge), _make_coverage (579-608); coverage.py: Coverage.__init__ (46-55),
   coverage() (63-70), total() (72-85).
   Table cells are kept in arrival order; the harness compares them as multisets.  No proofs here. *)
From Coq Require Import String.
From Aldy Require Import Base Consts.
Import List.
Open Scope Z_scope.

(* ---------------------------------------------------------------- vocabulary *)
Definition qual := (Q * Q)%type.                    (* (binned mapping quality, binned base quality) *)
Definition key := (Z * str)%type.                   (* (0-based genome position, operation) *)
Definition obs := (key * qual)%type.                (* one observation *)

Definition ref_op : str := [95].                    (* "_" *)
Definition gap_op : str := [45].                    (* "-" : one deleted base *)
Definition sub_op (a b : Z) : str := [a; 62; b].    (* "A>C" *)
Definition ins_op (x : str) : str := 105 :: 110 :: 115 :: x.       (* "ins" ++ x *)
Definition del_op (x : str) : str := 100 :: 101 :: 108 :: x.       (* "del" ++ x *)
Definition multi_op (l r : str) : str := l ++ 62 :: r.              (* "AC>TG", "A.C>T.G" *)
Definition is_ins (op : str) : bool :=              (* op[:3] == "ins" / op.startswith("ins") *)
  match op with a :: b :: c :: _ => (a =? 105) && (b =? 110) && (c =? 115) | _ => false end.
Definition key_eqb (a b : key) : bool := (fst a =? fst b) && str_eqb (snd a) (snd b).

(* what _parse_read needs to know of the gene *)
Record gview := {
  g_lo : Z;                           (* Gene._lookup_range[0] *)
  g_seq : list Z;                     (* Gene._lookup_seq (code points) *)
  g_mapped : list (Z * Z);            (* keys of Gene.chr_to_ref as half-open intervals, ascending *)
  g_wide : Z * Z;                     (* Gene.get_wide_region(): (start, end) *)
  g_phaseable : list Z;               (* Sample.phaseable (positions of catalogued variants) *)
  g_multi : list (Z * (str * str));   (* Sample._multi_sites in dictionary order: pos -> (l, r) of "l>r" *)
  g_all_multi : list (Z * (str * str)); (* every catalogued multi-substitution (gene.mutations), functional or not *)
  g_has_indels : bool                 (* Sample._indel_sites is non-empty (the indel table is truthy) *)
}.

Definition base (g : gview) (p : Z) : Z :=          (* Gene.__getitem__(int): 'N' outside the lookup range *)
  if (g_lo g <=? p) && (p <? g_lo g + Z.of_nat (length (g_seq g)))
  then nth (Z.to_nat (p - g_lo g)) (g_seq g) 78 else 78.
Definition in_gene (g : gview) (p : Z) : bool :=    (* Gene.__contains__ : p in chr_to_ref *)
  existsb (fun ab => (fst ab <=? p) && (p <? snd ab)) (g_mapped g).
Definition in_bounds (g : gview) (p : Z) : bool :=  (* min(chr_to_ref) <= p <= max(chr_to_ref) *)
  match g_mapped g with
  | [] => false
  | ab :: t => (fold_left Z.min (map fst t) (fst ab) <=? p) && (p <=? fold_left Z.max (map snd t) (snd ab) - 1)
  end.
Definition phaseable (g : gview) (p : Z) : bool := memb Z.eqb p (g_phaseable g).
Fixpoint zseq (p : Z) (n : nat) : list Z := match n with O => [] | S k => p :: zseq (p + 1) k end.
Definition gslice (g : gview) (p : Z) (n : nat) : str := map (base g) (zseq p n).   (* Gene.__getitem__(slice) *)

(* ---------------------------------------------------------------- quality binning (sam.py:639-654) *)
Definition q_int (q : Q) : Z := Z.quot (Qnum q) (Zpos (Qden q)).       (* Python int(): toward zero *)
Fixpoint bin_from (bins : list (Z * Z)) (top : Z) (q : Q) : Z :=
  match bins with
  | [] => top
  | (b, v) :: t => if Qltb q (inject_Z b) then (if v =? -1 then q_int q else v) else bin_from t top q
  end.
Definition bin_quality (c : consts) (q : Q) : Z := bin_from (c_bins c) (c_bin_top c) q.
Definition binq (c : consts) (q : Q) : Q := inject_Z (bin_quality c q).
Definition qmean (l : list Q) : Q := Qred (qsum l / inject_Z (Z.of_nat (length l))).   (* statistics.mean *)
Definition prev_q0 : Q := 10.                       (* sam.py: prev_q = 10 *)

(* ---------------------------------------------------------------- reads *)
Inductive cop := CM | CI | CD | CN | CS | CH | CP | CEq | CX.       (* BAM codes 0..8 *)
Definition is_match (o : cop) : bool := match o with CM | CEq | CX => true | _ => false end.

Record read := {
  r_name : str;                       (* fragment = query name *)
  r_start : Z;                        (* reference_start *)
  r_cigar : list (cop * Z);           (* cigartuples; [] = none *)
  r_seq : list Z;                     (* query_sequence; [] = none *)
  r_qual : option (list Z);           (* query_qualities *)
  r_mapq : Z;
  r_offtarget : bool;                 (* reference_id == -1 or reference_name <> prefix + gene.chr *)
  r_funmap : bool;                    (* flag 0x4 (pysam: reference_end is None) *)
  r_supp : bool                       (* flag 0x800 *)
}.

Definition len_of (n : Z) : nat := Z.to_nat n.
Definition ref_consuming (o : cop) : bool := match o with CM | CD | CN | CEq | CX => true | _ => false end.
Fixpoint ref_len (cg : list (cop * Z)) : Z :=
  match cg with [] => 0 | (o, n) :: t => (if ref_consuming o then Z.of_nat (len_of n) else 0) + ref_len t end.
Definition ref_end (r : read) : Z := r_start r + Z.max 1 (ref_len (r_cigar r)).      (* htslib bam_endpos *)
Definition in_region (g : gview) (r : read) : bool :=
  negb (r_offtarget r) && negb (r_funmap r) &&
  let a0 := r_start r in let a1 := ref_end r in let b0 := fst (g_wide g) in let b1 := snd (g_wide g) in
  ((a0 <=? b0) && (b0 <=? a1)) || ((b0 <=? a0) && (a0 <=? b1)).
Definition eligible (g : gview) (r : read) : bool :=
  negb (match r_cigar r with [] => true | _ => false end) &&
  negb (r_supp r) &&
  negb (existsb (fun on => match fst on with CH => true | _ => false end) (r_cigar r)) &&
  negb (match r_seq r with [] => true | _ => false end) &&
  in_region g r.

(* ---------------------------------------------------------------- the CIGAR walk (sam.py:656-703) *)
Inductive event := Ob (o : obs) | Du (k : key) | Ph (k : key).   (* table append | dump_arr append | phase write *)
Definition wstate := (list Z * option (list Z) * Q)%type.        (* remaining query bases, remaining qualities, prev_q *)

Definition classify (g : gview) (p b : Z) : str :=
  if in_gene g p && negb (base g p =? b) then sub_op (base g p) b else ref_op.

Fixpoint m_run (g : gview) (c : consts) (mqb : Q) (n : nat) (p : Z) (sq : list Z) (ql : option (list Z)) (pq : Q)
  : list event * wstate :=
  match n with
  | O => ([], (sq, ql, pq))
  | S k =>
    let b := hd 78 sq in
    let q := match ql with Some l => inject_Z (hd 0 l) | None => pq end in
    let op := classify g p b in
    let '(ev, st) := m_run g c mqb k (p + 1) (tl sq) (option_map (@tl Z) ql) q in
    (Ob ((p, op), (mqb, binq c q))
       :: (if str_eqb op ref_op then [] else [Du (p, op)])
       ++ (if phaseable g p then [Ph (p, op)] else [])
       ++ ev, st)
  end.

Fixpoint walk (g : gview) (c : consts) (mqb : Q) (cg : list (cop * Z)) (p : Z) (sq : list Z) (ql : option (list Z)) (pq : Q)
  : list event :=
  match cg with
  | [] => []
  | (o, n) :: t =>
    let k := len_of n in
    match o with
    | CM | CEq | CX =>
      let '(ev, (sq', ql', pq')) := m_run g c mqb k p sq ql pq in
      ev ++ walk g c mqb t (p + Z.of_nat k) sq' ql' pq'
    | CD =>
      let d := (p, del_op (gslice g p k)) in
      map (fun x => Ob ((x, gap_op), (mqb, binq c pq))) (zseq p k)
        ++ Du d :: (if phaseable g p then [Ph d] else [])
        ++ walk g c mqb t (p + Z.of_nat k) sq ql pq
    | CI =>
      let i := (p, ins_op (firstn k sq)) in
      let q := match ql with Some l => qmean (map inject_Z (firstn k l)) | None => pq end in
      Ob (i, (mqb, binq c q)) :: Du i :: (if phaseable g p then [Ph i] else [])
        ++ walk g c mqb t p (skipn k sq) (option_map (skipn k) ql) q
    | CS => walk g c mqb t p (skipn k sq) (option_map (skipn k) ql) pq
    | CN | CH | CP => walk g c mqb t p sq ql pq          (* not handled by the loop: no effect *)
    end
  end.

Definition obs_of (ev : list event) : list obs := flat_map (fun e => match e with Ob o => [o] | _ => [] end) ev.
Definition dump_of (ev : list event) : list key := flat_map (fun e => match e with Du k => [k] | _ => [] end) ev.
Definition phase_of (ev : list event) : list key := flat_map (fun e => match e with Ph k => [k] | _ => [] end) ev.

Definition mapq_bin (c : consts) (r : read) : Q := binq c (inject_Z (r_mapq r)).
Definition read_events (g : gview) (c : consts) (r : read) : list event :=
  walk g c (mapq_bin c r) (r_cigar r) (r_start r) (r_seq r) (r_qual r) prev_q0.
Definition raw_obs (g : gview) (c : consts) (r : read) : list obs := obs_of (read_events g c r).

(* ---------------------------------------------------------------- multi-substitution merge (sam.py:704-723)
   The code pops the read's own component observations, re-appends the components after the first as reference
   observations and appends one merged observation at the first position: a relabelling of the read's observations. *)
Fixpoint comps_from (pos : Z) (i : nat) (l r : str) : list (nat * key) :=
  match l with
  | [] => []
  | a :: l' => (if a =? 46 then [] else [(i, (pos + Z.of_nat i, sub_op a (nth i r 0)))]) ++ comps_from pos (S i) l' r
  end.
Definition comps (m : Z * (str * str)) : list (nat * key) := comps_from (fst m) O (fst (snd m)) (snd (snd m)).
Definition matched (dump : list key) (m : Z * (str * str)) : bool :=
  memb Z.eqb (fst m) (map fst dump) && forallb (fun ck => memb key_eqb (snd ck) dump) (comps m).
Definition comp_index (cs : list (nat * key)) (k : key) : option nat :=
  match find (fun ck => key_eqb (snd ck) k) cs with Some ck => Some (fst ck) | None => None end.
Definition merge_one (dump : list key) (os : list obs) (m : Z * (str * str)) : list obs :=
  if matched dump m then
    let cs := comps m in
    let items := flat_map (fun ck => match find (fun o => key_eqb (fst o) (snd ck)) os with Some o => [snd o] | None => [] end) cs in
    let mq := (qmean (map fst items), qmean (map snd items)) in
    map (fun o => match comp_index cs (fst o) with
                  | Some O => ((fst (fst o), multi_op (fst (snd m)) (snd (snd m))), mq)
                  | Some (S _) => ((fst (fst o), ref_op), snd o)
                  | None => o
                  end) os
  else os.
Definition merge (g : gview) (dump : list key) (os : list obs) : list obs := fold_left (merge_one dump) (g_multi g) os.

Definition read_obs (g : gview) (c : consts) (r : read) : list obs :=
  let ev := read_events g c r in merge g (dump_of ev) (obs_of ev).
Definition read_phase (g : gview) (c : consts) (r : read) : list key := phase_of (read_events g c r).
(* _parse_read: (additions to norm/muts, dump_arr, phase writes) *)
Definition parse_read (g : gview) (c : consts) (r : read) : list obs * list key * list key :=
  let ev := read_events g c r in (merge g (dump_of ev) (obs_of ev), dump_of ev, phase_of ev).

(* database side conditions under which the merge is a relabelling (evaluated on every gene used) *)
Definition multi_wf1 (m : Z * (str * str)) : bool :=
  let '(pos, (l, r)) := m in
  (length l =? length r)%nat && (2 <=? length l)%nat && negb (hd 46 l =? 46) && negb (is_ins (multi_op l r)).
Definition disjoint_keys (a b : list (nat * key)) : bool :=
  forallb (fun x => negb (existsb (fun y => fst (snd x) =? fst (snd y)) b)) a.
Fixpoint pairwise {A} (f : A -> A -> bool) (l : list A) : bool :=
  match l with [] => true | x :: t => forallb (f x) t && pairwise f t end.
Definition multi_wf (g : gview) : bool :=
  forallb multi_wf1 (g_multi g) && pairwise (fun a b => disjoint_keys (comps a) (comps b)) (g_multi g).

(* ---------------------------------------------------------------- all reads (sam.py:177-214) *)
Definition pile (g : gview) (c : consts) (rs : list read) : list obs :=
  flat_map (fun r => if eligible g r then read_obs g c r else []) rs.

Definition pdict := list (Z * str).                 (* one fragment's phase record: pos -> op, insertion ordered *)
Definition phase_write (d : pdict) (w : key) : pdict := aset Z.eqb (fst w) (snd w) d.
Definition phases_add (ph : list (str * pdict)) (frag : str) (ws : list key) : list (str * pdict) :=
  let cur := match alookup str_eqb frag ph with Some d => d | None => [] end in
  aset str_eqb frag (fold_left phase_write ws cur) ph.
Definition phases (g : gview) (c : consts) (rs : list read) : list (str * pdict) :=
  fold_left (fun ph r => if eligible g r then phases_add ph (r_name r) (read_phase g c r) else ph) rs [].

(* ---------------------------------------------------------------- table assembly (sam.py:579-608, coverage.py:46-55) *)
Definition entry := (key * list qual)%type.         (* one item of norm (op "_") or muts *)
Definition cell := (str * list qual)%type.
Definition table := list (Z * list cell).           (* Coverage._coverage : pos -> op -> observations *)

Definition fold_key (g : gview) (k : key) : key :=  (* substitutions outside the RefSeq window count as reference *)
  if negb (in_bounds g (fst k)) && negb (is_ins (snd k)) then (fst k, ref_op) else k.

Fixpoint cell_add (op : str) (qs : list qual) (cs : list cell) : list cell :=
  match cs with
  | [] => [(op, qs)]
  | (op', qs') :: t => if str_eqb op op' then (op', qs' ++ qs) :: t else (op', qs') :: cell_add op qs t
  end.
Fixpoint table_add (e : entry) (t : table) : table :=
  match t with
  | [] => [(fst (fst e), [(snd (fst e), snd e)])]
  | (p, cs) :: t' => if fst (fst e) =? p then (p, cell_add (snd (fst e)) (snd e) cs) :: t' else (p, cs) :: table_add e t'
  end.
Definition nonempty {A} (l : list A) : bool := match l with [] => false | _ => true end.

(* norm : pos -> list, muts : (pos, op) -> list, as item lists; [indel_table] = the indel table is truthy *)
Definition make_coverage (g : gview) (indel_table : bool) (norm : list (Z * list qual)) (muts : list entry) : table :=
  let es := map (fun pl => ((fst pl, ref_op), snd pl)) (filter (fun pl => nonempty (snd pl)) norm)
            ++ map (fun e => (fold_key g (fst e), snd e)) muts in
  let t := fold_left (fun t e => table_add e t) es [] in
  map (fun pc => (fst pc, filter (fun cl => nonempty (snd cl) && negb (indel_table && is_ins (fst cl))) (snd pc))) t.

Definition cells_at (t : table) (p : Z) : list cell := match alookup Z.eqb p t with Some cs => cs | None => [] end.
Definition cell_at (t : table) (k : key) : list qual :=
  match alookup str_eqb (snd k) (cells_at t (fst k)) with Some l => l | None => [] end.

(* Coverage.coverage / Coverage.total; [indels] = Coverage._indels ((pos, op) -> (off, on), entries with on > 0) *)
Definition indel_tab := list (key * (Z * Z)).
Definition cov_coverage (t : table) (indels : indel_tab) (k : key) : Z :=
  match alookup key_eqb k indels with
  | Some (_, y) => y
  | None => Z.of_nat (length (cell_at t k))
  end.
Definition depth_at (t : table) (p : Z) : Z :=
  zsum (map (fun cl => if is_ins (fst cl) then 0 else Z.of_nat (length (snd cl))) (cells_at t p)).
Definition cov_total_pos (t : table) (p : Z) : Z := depth_at t p.
Definition cov_total_mut (t : table) (indels : indel_tab) (k : key) : Z :=
  match alookup key_eqb k indels with
  | Some (n, y) => n + y
  | None => depth_at t (fst k)
  end.

(* the evidence of a read set: every observation is one singleton item; norm = the "_" items *)
Definition is_ref (o : obs) : bool := str_eqb (snd (fst o)) ref_op.
Definition norm_of (os : list obs) : list (Z * list qual) := map (fun o => (fst (fst o), [snd o])) (filter is_ref os).
Definition muts_of (os : list obs) : list entry := map (fun o => (fst o, [snd o])) (filter (fun o => negb (is_ref o)) os).
Definition sample_table (g : gview) (c : consts) (rs : list read) : table :=
  let os := pile g c rs in make_coverage g (g_has_indels g) (norm_of os) (muts_of os).

(* ---------------------------------------------------------------- specification side (what the property speaks of) *)
(* p lies under an M/=/X/D run of the alignment *)
Fixpoint covered (cg : list (cop * Z)) (start p : Z) : bool :=
  match cg with
  | [] => false
  | (o, n) :: t =>
    let k := Z.of_nat (len_of n) in
    match o with
    | CM | CEq | CX | CD => ((start <=? p) && (p <? start + k)) || covered t (start + k) p
    | _ => covered t start p
    end
  end.
Definition spans (r : read) (p : Z) : bool := covered (r_cigar r) (r_start r) p.

(* the query base (and its index in the query) aligned to p by an M/=/X run *)
Fixpoint aligned (cg : list (cop * Z)) (start : Z) (qi : nat) (p : Z) : option nat :=
  match cg with
  | [] => None
  | (o, n) :: t =>
    let k := len_of n in
    match o with
    | CM | CEq | CX => if (start <=? p) && (p <? start + Z.of_nat k) then Some (qi + Z.to_nat (p - start))%nat
                       else aligned t (start + Z.of_nat k) (qi + k)%nat p
    | CD => aligned t (start + Z.of_nat k) qi p
    | CI | CS => aligned t start (qi + k)%nat p
    | _ => aligned t start qi p
    end
  end.
Definition base_at (r : read) (p : Z) : option Z :=
  match aligned (r_cigar r) (r_start r) O p with Some j => Some (nth j (r_seq r) 78) | None => None end.
Definition shows (r : read) (p b : Z) : bool := match base_at r p with Some x => x =? b | None => false end.

Definition std_cigar (cg : list (cop * Z)) : bool :=
  forallb (fun on => match fst on with CM | CEq | CX | CI | CD | CS => true | _ => false end) cg.
Definition query_len (cg : list (cop * Z)) : nat :=
  fold_right (fun on acc => match fst on with CM | CEq | CX | CI | CS => (len_of (snd on) + acc)%nat | _ => acc end) O cg.

Definition count {A} (f : A -> bool) (l : list A) : Z := Z.of_nat (length (filter f l)).
Definition depth (os : list obs) (p : Z) : Z := count (fun o => (fst (fst o) =? p) && negb (is_ins (snd (fst o)))) os.
Definition kcount (os : list obs) (k : key) : Z := count (fun o => key_eqb (fst o) k) os.

(* ---------------------------------------------------------------- encoders for the harness *)
Definition o_qual (q : qual) : out := OL [o_q (fst q); o_q (snd q)].
Definition o_key (k : key) : out := OL [OZ (fst k); o_str (snd k)].
Definition o_obs (o : obs) : out := OL [o_key (fst o); o_qual (snd o)].
Definition o_parse (x : list obs * list key * list key) : out :=
  OL [o_list o_obs (fst (fst x)); o_list o_key (snd (fst x)); o_list o_key (snd x)].
Definition o_table (t : table) : out := o_list (o_pair OZ (o_list (o_pair o_str (o_list o_qual)))) t.
Definition o_phases (ph : list (str * pdict)) : out := o_list (o_pair o_str (o_list o_key)) ph.
Definition cop_of (z : Z) : cop :=
  match z with 0 => CM | 1 => CI | 2 => CD | 3 => CN | 4 => CS | 5 => CH | 6 => CP | 7 => CEq | _ => CX end.
Definition mk_read (name : str) (start : Z) (cg : list (Z * Z)) (sq : list Z) (ql : option (list Z)) (mapq : Z)
                   (off funmap supp : bool) : read :=
  {| r_name := name; r_start := start; r_cigar := map (fun on => (cop_of (fst on), snd on)) cg; r_seq := sq; r_qual := ql;
     r_mapq := mapq; r_offtarget := off; r_funmap := funmap; r_supp := supp |}.
