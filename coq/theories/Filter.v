(* Filter.v — the evidence table of aldy.coverage.Coverage and its filters (C15, used by C02).
   coverage.py: coverage / total (59-85), filtered (143-176), basic_filter (212-219), quality_filter (221-229);
   major.py: filter_fns and the two-step filter of _filter_alleles (247-253, 277-278);
   minor.py: default_filter_fn and the same two steps (57-74).

   An observation is a pair (mapq, baseq) exactly as sam.py stores it; a table is the dict-of-dicts
   `Coverage._coverage` (insertion ordered), the indel table is `Coverage._indels` ((pos,op) -> (off,on); None = []).

   One normalisation, stated here and applied by the harness when it compares with the implementation:
   `Coverage.filtered` keeps a position whose cells were all dropped as `pos: {}`; the model drops such positions.
   Nothing in aldy can tell the difference through coverage()/total()/single_copy(), the only accessors the stages use. *)
From Aldy Require Import Base.
Open Scope Z_scope.

Definition mut := (Z * str)%type.                       (* gene.Mutation: (pos, op) *)
Definition mut_eqb (a b : mut) : bool := (fst a =? fst b) && str_eqb (snd a) (snd b).
Definition is_ins (op : str) : bool := match op with 105 :: 110 :: 115 :: _ => true | _ => false end.   (* op[:3] == "ins" *)
Definition is_ref (op : str) : bool := str_eqb op [95].                                                (* op == "_" *)
Definition ref_mut (pos : Z) : mut := (pos, [95]).

Definition obs := (Z * Z)%type.                         (* (mapping quality, base quality) *)
Definition cell := (str * list obs)%type.               (* op -> observations *)
Definition table := list (Z * list cell).               (* pos -> cells *)
Definition indel_tab := list (mut * (Z * Z)).           (* (pos, op) -> (reads without, reads with) *)
Record cover := { cv_tab : table; cv_ind : indel_tab }.

Record fparams := {
  p_min_quality : Q;          (* profile.min_quality *)
  p_min_mapq : Q;             (* profile.min_mapq *)
  p_min_coverage : Q;         (* profile.min_coverage *)
  p_threshold : Q;            (* profile.threshold *)
  p_cn_max : Q                (* profile.cn_max *)
}.

(* ---- accessors ---- *)
Definition tab_ops (t : table) (pos : Z) : list cell :=
  match alookup Z.eqb pos t with Some o => o | None => [] end.
Definition tab_cell (t : table) (m : mut) : list obs :=
  match alookup str_eqb (snd m) (tab_ops t (fst m)) with Some l => l | None => [] end.
Definition ind_get (c : cover) (m : mut) : option (Z * Z) := alookup mut_eqb m (cv_ind c).

(* Coverage.coverage *)
Definition coverage (c : cover) (m : mut) : Z :=
  match ind_get c m with
  | Some ny => snd ny
  | None => Z.of_nat (length (tab_cell (cv_tab c) m))
  end.
(* Coverage.total(pos): all non-insertion observations at the position *)
Definition total_pos (c : cover) (pos : Z) : Z :=
  zsum (map (fun cl : cell => Z.of_nat (length (snd cl)))
            (filter (fun cl : cell => negb (is_ins (fst cl))) (tab_ops (cv_tab c) pos))).
(* Coverage.total(mutation) *)
Definition total (c : cover) (m : mut) : Z :=
  match ind_get c m with
  | Some ny => fst ny + snd ny
  | None => total_pos c (fst m)
  end.

(* ---- Coverage.quality_filter ---- *)
Definition q_ok (p : fparams) (o : obs) : bool :=
  Qleb (p_min_quality p) (inZ (snd o)) && Qleb (p_min_mapq p) (inZ (fst o)).
Definition quality_filter (p : fparams) (l : list obs) : list obs := filter (q_ok p) l.

Definition nonempty_cell (cl : cell) : bool := match snd cl with [] => false | _ => true end.
Definition nonempty_pos (po : Z * list cell) : bool := match snd po with [] => false | _ => true end.
Definition drop_empty (t : table) : table := filter nonempty_pos t.

(* filtered(Coverage.quality_filter): a cell keeps its passing observations and disappears when none passes;
   every indel entry stays (the filter function returns a list for it, never the boolean False) *)
Definition fq_ops (p : fparams) (ops : list cell) : list cell :=
  filter nonempty_cell (map (fun cl : cell => (fst cl, quality_filter p (snd cl))) ops).
Definition fq_tab (p : fparams) (t : table) : table :=
  drop_empty (map (fun po : Z * list cell => (fst po, fq_ops p (snd po))) t).
Definition filtered_q (p : fparams) (c : cover) : cover :=
  {| cv_tab := fq_tab p (cv_tab c); cv_ind := cv_ind c |}.

(* ---- Coverage.basic_filter(mut, cn): thres = threshold / (cn or 1) ---- *)
Definition basic_filter (p : fparams) (c : cover) (m : mut) (cn : Q) : bool :=
  let thres := (p_threshold p / (if Qeqb cn 0 then 1 else cn))%Q in
  Qleb (Qmax' (p_min_coverage p) (inZ (total c m) * thres)%Q) (inZ (coverage c m)).

(* filtered(f) for a boolean filter: cells and indel entries are kept whole or dropped; f looks at the table being filtered *)
Definition filtered_b (f : cover -> mut -> bool) (c : cover) : cover :=
  {| cv_tab := drop_empty (map (fun po : Z * list cell =>
                                  (fst po, filter (fun cl : cell => f c (fst po, fst cl)) (snd po))) (cv_tab c));
     cv_ind := filter (fun kv : mut * (Z * Z) => f c (fst kv)) (cv_ind c) |}.

(* major.py filter_fns: the cn_max threshold for every cell, the (copy number at the site + 1/2) threshold for variants *)
Definition major_filter (p : fparams) (pcn : Z -> Q) (c : cover) (m : mut) : bool :=
  basic_filter p c m (p_cn_max p) &&
  (if is_ref (snd m) then true else basic_filter p c m (pcn (fst m) + (1 # 2))%Q).
Definition major_cov (p : fparams) (pcn : Z -> Q) (c : cover) : cover :=
  filtered_b (major_filter p pcn) (filtered_q p c).

(* minor.py default_filter_fn: a variant must in addition be one of the stage's variants or lie in an allowed region *)
Definition minor_filter (p : fparams) (pcn : Z -> Q) (allowed : mut -> bool) (c : cover) (m : mut) : bool :=
  if negb (is_ref (snd m)) && negb (allowed m) then false else major_filter p pcn c m.
Definition minor_cov (p : fparams) (pcn : Z -> Q) (allowed : mut -> bool) (c : cover) : cover :=
  filtered_b (minor_filter p pcn allowed) (filtered_q p c).

(* the statement of "supported" used by C15: enough qualifying reads and both fraction thresholds *)
Definition supported (p : fparams) (pcn : Z -> Q) (c : cover) (m : mut) : bool :=
  let q := filtered_q p c in
  (0 <? coverage q m) && major_filter p pcn q m.

(* dict well-formedness (keys unique); true of every Python dict, evaluated on every serialised instance *)
Fixpoint nodupb {A} (eqb : A -> A -> bool) (l : list A) : bool :=
  match l with [] => true | x :: t => negb (memb eqb x t) && nodupb eqb t end.
Definition table_wf (t : table) : bool :=
  nodupb Z.eqb (map fst t) && forallb (fun po : Z * list cell => nodupb str_eqb (map fst (snd po))) t.
Definition cover_wf (c : cover) : bool := table_wf (cv_tab c) && nodupb mut_eqb (map fst (cv_ind c)).

(* ---- encoders ---- *)
Definition o_mut (m : mut) : out := OL [OZ (fst m); o_str (snd m)].
Definition o_obs (o : obs) : out := OL [OZ (fst o); OZ (snd o)].
Definition o_table (t : table) : out :=
  o_list (fun po : Z * list cell => OL [OZ (fst po); o_list (fun cl : cell => OL [o_str (fst cl); o_list o_obs (snd cl)]) (snd po)]) t.
Definition o_cover (c : cover) : out :=
  OL [o_table (cv_tab c); o_list (fun kv : mut * (Z * Z) => OL [o_mut (fst kv); OZ (fst (snd kv)); OZ (snd (snd kv))]) (cv_ind c)].
