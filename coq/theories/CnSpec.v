(* CnSpec.v — combinatorial specification of the copy-number stage (C03): canonical internal forms
   (active sets of slots), their feasibility and documented objective, the enumeration with exclusion cuts
   (every superset of a yielded active set is removed) and the folding of internal assignments into
   configuration multisets (cn.py:268-289); the branches of estimate_cn (cn.py:46-103), the low-depth
   guard, max_observed_cn and _filter_configs (cn.py:292-315).  No proofs here. *)
From Coq Require Import String Qround.
From Aldy Require Import Base Consts Lp CnModel.
Import List.
Open Scope Z_scope.

Definition form := list structure.                 (* the active slots, each with its copy vector *)
Definition has (F : list slot) (x : slot) : bool := memb slot_eqb x F.

(* ---- feasibility of an active set (what CDIPLO, CORD, CDEL say about binaries) ---- *)
Definition ord_ok (F : list slot) (x : slot) : bool :=
  if snd x =? -1 then has F (fst x, 0) else if 1 <? snd x then has F (fst x, snd x - 1) else true.
Definition del_ok (d : option str) (F : list slot) : bool :=
  match d with
  | Some d => if has F (d, -1) then forallb (fun x => str_eqb (fst x) d) F else true
  | None => true
  end.
Definition form_ok (i : cn_inst) (F : list slot) : bool :=
  Nat.eqb (length (filter is_complete F)) 2 && forallb (ord_ok F) F && del_ok (i_del i) F.

(* ---- documented objective of an active set ---- *)
Definition sumq {A} (f : A -> Q) (l : list A) : Q := qsum (map f l).
Definition sumz {A} (f : A -> Z) (l : list A) : Z := zsum (map f l).
Definition errg_gp (rc : str * (Q * Q)) (gp : Z * Z) : Q := (fst (snd rc) - inZ (fst gp))%Q.
Definition err_gp (rc : str * (Q * Q)) (gp : Z * Z) : Q :=
  let c := snd rc in (((fst c - snd c) - inZ (fst gp - snd gp)) / scale_of c)%Q.
Definition copies (F : form) (rc : str * (Q * Q)) : Z * Z := (sumz (gcopies (fst rc)) F, sumz (pcopies (fst rc)) F).
Definition errg_of (F : form) (rc : str * (Q * Q)) : Q := errg_gp rc (copies F rc).
Definition err_of (F : form) (rc : str * (Q * Q)) : Q := err_gp rc (copies F rc).
Definition in_bounds (i : cn_inst) (x : Q) : bool :=
  Qleb (- p_cn_max (i_par i)) x && Qleb x (p_cn_max (i_par i)).
Definition bounds_ok (i : cn_inst) (F : form) : bool :=
  forallb (fun rc => in_bounds i (errg_of F rc) && in_bounds i (err_of F rc)) (used_cov i).
(* sums are reduced after every addition (the value is the plain sum; this keeps vm_compute fast) *)
Definition sumr {A} (f : A -> Q) (l : list A) : Q := fold_right (fun x acc => Qred (f x + acc)) 0%Q l.
Definition diff_cost (i : cn_inst) (F : form) : Q :=
  (diff_coeff i * sumr (fun rc => pce_coeff i (fst rc) * Qabs' (err_of F rc)) (used_cov i))%Q.
Definition fit_cost (i : cn_inst) (F : form) : Q :=
  (fit_coeff i * sumr (fun rc => Qabs' (errg_of F rc)) (used_cov i))%Q.
Definition pars_cost (c : consts) (i : cn_inst) (F : form) : Q :=
  (p_cn_pars (i_par i) * sumr (fun st => penalty c i (fst (fst st))) F)%Q.
Definition form_objective (c : consts) (i : cn_inst) (F : form) : Q :=
  (diff_cost i F + fit_cost i F + pars_cost c i F)%Q.

(* ---- enumeration of canonical forms: two complete slots x prefix of extras x prefix of PSEUDO ---- *)
Fixpoint pairs {A} (l : list A) : list (A * A) :=
  match l with [] => [] | x :: t => map (fun y => (x, y)) t ++ pairs t end.
Fixpoint prefixes {A} (l : list A) : list (list A) :=
  [] :: match l with [] => [] | x :: t => map (cons x) (prefixes t) end.
Fixpoint product {A} (ls : list (list (list A))) : list (list A) :=
  match ls with [] => [[]] | l :: t => flat_map (fun a => map (app a) (product t)) l end.
Definition candidates_of {X} (comp : list X) (extras : list (list X)) (pseudo : list X) : list (list X) :=
  let ex := product (map prefixes extras) in
  let ps := prefixes pseudo in
  flat_map (fun p => flat_map (fun e => map (fun q => fst p :: snd p :: e ++ q) ps) ex) (pairs comp).
Definition extras_of (i : cn_inst) (c : config) : form :=
  map (fun k => ((cf_name c, k), weaken (cf_cn c))) (zrange 1 (i_max_cn i)).
Definition complete_structs (i : cn_inst) : form := filter (fun st => is_complete (fst st)) (structures i).
Definition default_extras (i : cn_inst) : list form :=
  map (extras_of i) (filter (fun c => is_default (cf_kind c)) (kept i)).
Definition candidates (i : cn_inst) : list form :=
  candidates_of (complete_structs i) (default_extras i) (pseudo_slots i).
Definition forms (i : cn_inst) : list form :=
  filter (fun F => form_ok i (map fst F) && bounds_ok i F) (candidates i).
Definition scored (c : consts) (i : cn_inst) : list (Q * list slot) :=
  map (fun F => (Qred (form_objective c i F), map fst F)) (forms i).

(* the same list computed with every structure's copy numbers looked up once (what the harness evaluates;
   CnProofs.scored_fast_eq : scored_fast c i = scored c i) *)
Definition cstruct := (slot * (list (Z * Z) * Q))%type.     (* slot, (gene, pseudogene) copies per used region, penalty *)
Definition compile (c : consts) (i : cn_inst) (st : structure) : cstruct :=
  (fst st, (map (fun rc => (gcopies (fst rc) st, pcopies (fst rc) st)) (used_cov i), penalty c i (fst (fst st)))).
Fixpoint vadd (a b : list (Z * Z)) : list (Z * Z) :=
  match a, b with
  | (x, y) :: a', (u, v) :: b' => (x + u, y + v) :: vadd a' b'
  | _, _ => []
  end.
Definition vsum (i : cn_inst) (F : list cstruct) : list (Z * Z) :=
  fold_right (fun st acc => vadd (fst (snd st)) acc) (map (fun _ => (0, 0)) (used_cov i)) F.
Definition fast_bounds_ok (i : cn_inst) (v : list (Z * Z)) : bool :=
  forallb (fun x => in_bounds i (errg_gp (fst x) (snd x)) && in_bounds i (err_gp (fst x) (snd x))) (combine (used_cov i) v).
Definition fast_objective (i : cn_inst) (F : list cstruct) (v : list (Z * Z)) : Q :=
  (diff_coeff i * sumr (fun x => pce_coeff i (fst (fst x)) * Qabs' (err_gp (fst x) (snd x))) (combine (used_cov i) v) +
   fit_coeff i * sumr (fun x => Qabs' (errg_gp (fst x) (snd x))) (combine (used_cov i) v) +
   p_cn_pars (i_par i) * sumr (fun st => snd (snd st)) F)%Q.
Definition ccandidates (c : consts) (i : cn_inst) : list (list cstruct) :=
  candidates_of (map (compile c i) (complete_structs i)) (map (map (compile c i)) (default_extras i))
                (map (compile c i) (pseudo_slots i)).
Definition scored_fast (c : consts) (i : cn_inst) : list (Q * list slot) :=
  flat_map (fun F => let sl := map fst F in
                     if form_ok i sl then
                       let v := vsum i F in
                       if fast_bounds_ok i v then [(Qred (fast_objective i F v), sl)] else []
                     else []) (ccandidates c i).

(* ---- solutions(): best first, cut every superset of a yielded active set ---- *)
Definition subset (A B : list slot) : bool := forallb (has B) A.
Fixpoint argmin (l : list (Q * list slot)) : option (Q * list slot) :=
  match l with
  | [] => None
  | x :: t => match argmin t with
              | Some y => if Qleb (fst x) (fst y) then Some x else Some y
              | None => Some x
              end
  end.
(* lpinterface.py:231-233: stop when abs(obj - ub) >= SOLVER_PRECISON and obj > ub *)
Definition accept (c : consts) (gap best o : Q) : bool :=
  let ub := ((1 + gap) * best)%Q in
  negb (Qleb (c_solver_precision c) (Qabs' (o - ub)) && Qltb ub o).
Definition not_cut (F0 : list slot) (x : Q * list slot) : bool := negb (subset F0 (snd x)).
(* the candidates solutions() can reach: objective inside the gap of the optimum *)
Definition within (c : consts) (gap : Q) (sc : list (Q * list slot)) : list (Q * list slot) :=
  match argmin sc with
  | Some (m, _) => filter (fun x => accept c gap m (fst x)) sc
  | None => []
  end.
Fixpoint cut_loop (fuel : nat) (rem : list (Q * list slot)) : list (Q * list slot) :=
  match fuel with
  | O => []
  | S f =>
      match argmin rem with
      | None => []
      | Some (o, F0) => (o, F0) :: cut_loop f (filter (not_cut F0) rem)
      end
  end.
Definition yields_of (c : consts) (i : cn_inst) (sc : list (Q * list slot)) : list (Q * list slot) :=
  let w := within c (p_gap (i_par i)) sc in cut_loop (length w) w.
Definition yields (c : consts) (i : cn_inst) : list (Q * list slot) := yields_of c i (scored c i).

(* ---- folding (cn.py:271-276): names of the active slots without the deletion allele and PSEUDO, sorted ---- *)
Fixpoint insert_name (n : str) (l : list str) : list str :=
  match l with [] => [n] | m :: t => if str_ltb m n then m :: insert_name n t else n :: l end.
Definition sort_names (l : list str) : list str := fold_right insert_name [] l.
Definition visible (i : cn_inst) (n : str) : bool := negb (is_del_name i n) && negb (str_eqb n PSEUDO).
Definition fold_form (i : cn_inst) (F : list slot) : list str := sort_names (filter (visible i) (map fst F)).
Definition names_eqb (a b : list str) : bool :=
  Nat.eqb (length a) (length b) && forallb (fun p => str_eqb (fst p) (snd p)) (combine a b).
Fixpoint collect (i : cn_inst) (ys : list (Q * list slot)) (acc : list (list str * Q)) : list (list str * Q) :=
  match ys with
  | [] => acc
  | (o, F) :: t =>
      let k := fold_form i F in
      if existsb (fun e => names_eqb (fst e) k) acc then collect i t acc else collect i t (acc ++ [(k, o)])
  end.
Definition solve_from (c : consts) (i : cn_inst) (sc : list (Q * list slot)) : list (list str * Q) :=
  collect i (yields_of c i sc) [].
Definition solve_cn (c : consts) (i : cn_inst) : list (list str * Q) := solve_from c i (scored c i).
Definition solve_cn_fast (c : consts) (i : cn_inst) : list (list str * Q) := solve_from c i (scored_fast c i).

(* best explanation of every admissible structure: (folded names, least objective over its feasible forms) *)
Fixpoint table_add (k : list str) (o : Q) (t : list (list str * Q)) : list (list str * Q) :=
  match t with
  | [] => [(k, o)]
  | (k', o') :: r => if names_eqb k k' then (k', Qmin' o o') :: r else (k', o') :: table_add k o r
  end.
Definition best_table_from (i : cn_inst) (sc : list (Q * list slot)) : list (list str * Q) :=
  fold_left (fun t x => table_add (fold_form i (snd x)) (fst x) t) sc [].
Definition best_table (c : consts) (i : cn_inst) : list (list str * Q) := best_table_from i (scored c i).

(* ---- harness-only: is the outcome sensitive to perturbations below the comparison tolerance? ---- *)
Definition close (tol a b : Q) : bool := Qleb (Qabs' (a - b)) tol.
Fixpoint loop_amb (fuel : nat) (tol : Q) (rem : list (Q * list slot)) : bool :=
  match fuel with
  | O => false
  | S f =>
      match argmin rem with
      | None => false
      | Some (o, F0) =>
          existsb (fun x => close tol (fst x) o && xorb (subset F0 (snd x)) (subset (snd x) F0)) rem
          || loop_amb f tol (filter (not_cut F0) rem)
      end
  end.
Definition near_threshold (c : consts) (gap tol : Q) (sc : list (Q * list slot)) : bool :=
  match argmin sc with
  | Some (m, _) => existsb (fun x => close tol (fst x) ((1 + gap) * m + c_solver_precision c)%Q) sc
  | None => false
  end.
Definition near_bounds (c : consts) (i : cn_inst) (tol : Q) : bool :=
  existsb (fun F => form_ok i (map fst F) &&
     existsb (fun x => close tol (Qabs' (errg_gp (fst x) (snd x))) (p_cn_max (i_par i)) ||
                       close tol (Qabs' (err_gp (fst x) (snd x))) (p_cn_max (i_par i)))
             (combine (used_cov i) (vsum i F))) (ccandidates c i).
Definition ambiguous_from (c : consts) (i : cn_inst) (tol : Q) (sc : list (Q * list slot)) : bool :=
  near_bounds c i tol || near_threshold c (p_gap (i_par i)) tol sc ||
  let w := within c (p_gap (i_par i)) sc in loop_amb (length w) tol w.
(* everything the harness needs from one instance, sharing the scored list *)
Definition harness_eval (c : consts) (i : cn_inst) (tol : Q) (want_table : bool) : out :=
  let sc := scored_fast c i in
  OL [ o_list (fun e => OL [o_list o_str (fst e); o_q (snd e)]) (solve_from c i sc);
       o_bool (ambiguous_from c i tol sc);
       if want_table then o_list (fun e => OL [o_list o_str (fst e); o_q (snd e)]) (best_table_from i sc) else OL [] ].

(* ---- estimate_cn (cn.py:46-103) ---- *)
Inductive cn_res :=
  | Sols (l : list (list str * Q))
  | ErrUnknown (n : str)           (* unknown copy number configuration in the user's list *)
  | ErrLowCov                      (* "Coverage ... too low for copy number calling" *)
  | ErrOther.                      (* Python-level failure outside the modelled domain *)

Record est_inst := {
  e_user : list str;                          (* profile.cn_solution ([] = not given) *)
  e_do_cn : bool;                             (* gene.do_copy_number *)
  e_male : bool;
  e_chr : str;
  e_gene_configs : list config;
  e_ngenes : Z;
  e_unique : list str;
  e_regcov : list (list (str * Q));           (* coverage.region_coverage(gi, r), gi and r in gene.regions order *)
  e_alleles : list (str * list (list (Q * Q)));   (* configuration names that are in gene.alleles: per allele of the
                                                 configuration, (coverage, total) of every functional mutation *)
  e_threshold : Q;
  e_min_coverage : Q;
  e_fusion : list (str * (Q * Q));            (* sam._fusion_counter *)
  e_par : cn_params }.

Definition parse_user (cfgs : list config) (sols : list str) : cn_res :=
  match find (fun n => negb (existsb (fun c => str_eqb (cf_name c) n) cfgs)) sols with
  | Some n => ErrUnknown n
  | None => Sols [(sols, 0%Q)]
  end.

Definition Xs : str := s "X".
Definition Ys : str := s "Y".
Definition default_copies (e : est_inst) : Z :=
  if e_male e && (str_eqb (e_chr e) Xs || str_eqb (e_chr e) Ys) then 1 else 2.

Definition region_cov (e : est_inst) (g : nat) (r : str) : option Q :=
  match nth_error (e_regcov e) g with Some m => alookup str_eqb r m | None => None end.
Definition max_observed_cn (e : est_inst) : option Z :=
  match flat_map (map (fun rv => Qceiling (snd rv))) (e_regcov e) with
  | [] => None
  | z :: t => Some (1 + fold_left Z.max t z)
  end.
Definition cfg_total (c : config) : Z := zsum (map (fun m => zsum (map snd m)) (cf_cn c)).
Definition min_total (cfgs : list config) : option Z :=
  match map cfg_total cfgs with [] => None | z :: t => Some (fold_left Z.min t z) end.

(* Coverage.basic_filter with thres = threshold / cn_max, then "cov[m] <= 0" *)
Definition mut_supported (e : est_inst) (ct : Q * Q) : bool :=
  let t0 := (e_threshold e / p_cn_max (e_par e))%Q in
  let thres := if Qeqb t0 0 then e_threshold e else t0 in
  Qleb (Qmax' (e_min_coverage e) (snd ct * thres)) (fst ct) && Qltb 0 (fst ct).
Definition config_survives (e : est_inst) (c : config) : bool :=
  match alookup str_eqb (cf_name c) (e_alleles e) with
  | None => true                                 (* a configuration without mutations of its own *)
  | Some als => negb (Nat.eqb (length (filter (fun ms => negb (forallb (mut_supported e) ms)) als)) (length als))
  end.
Definition filter_configs (e : est_inst) : list config := filter (config_survives e) (e_gene_configs e).

Definition fusion_support (e : est_inst) : option (list (str * Q)) :=
  match e_fusion e with
  | [] => None
  | l => Some (map (fun x => (fst x, if Qeqb (snd (snd x)) 0 then 0%Q else (fst (snd x) / snd (snd x))%Q)) l)
  end.

Definition opt_all {A} (l : list (option A)) : option (list A) :=
  fold_right (fun o acc => match o, acc with Some x, Some t => Some (x :: t) | _, _ => None end) (Some []) l.

Definition est_to_inst (e : est_inst) : option cn_inst :=
  match max_observed_cn e,
        opt_all (map (fun r => match region_cov e 0 r, (if 1 <? e_ngenes e then region_cov e 1 r else Some 0%Q) with
                               | Some a, Some b => Some (r, (a, b)) | _, _ => None end) (e_unique e)) with
  | Some mx, Some cov =>
      Some {| i_gene_configs := e_gene_configs e; i_ngenes := e_ngenes e; i_unique := e_unique e;
              i_configs := filter_configs e; i_max_cn := mx; i_cov := cov; i_fusion := fusion_support e;
              i_par := e_par e |}
  | _, _ => None
  end.

Definition low_coverage (e : est_inst) (i : cn_inst) : option bool :=
  match min_total (e_gene_configs e) with
  | Some m => Some (Qltb (qsum (map (fun rc => (fst (snd rc) + snd (snd rc))%Q) (i_cov i))) (inZ m / 2))
  | None => None
  end.

Definition estimate_cn_with (solver : cn_inst -> list (list str * Q)) (e : est_inst) : cn_res :=
  match e_user e with
  | _ :: _ => parse_user (e_gene_configs e) (e_user e)
  | [] =>
      if negb (e_do_cn e) then
        match filter (fun g => is_default (cf_kind g)) (e_gene_configs e) with
        | g :: _ => parse_user (e_gene_configs e) (repeat (cf_name g) (Z.to_nat (default_copies e)))
        | [] => ErrOther
        end
      else
        match est_to_inst e with
        | Some i =>
            match low_coverage e i with
            | Some true => ErrLowCov
            | Some false => if inst_ok i then Sols (solver i) else ErrOther
            | None => ErrOther
            end
        | None => ErrOther
        end
  end.

Definition estimate_cn (c : consts) (e : est_inst) : cn_res := estimate_cn_with (solve_cn c) e.
Definition estimate_cn_fast (c : consts) (e : est_inst) : cn_res := estimate_cn_with (solve_cn_fast c) e.

(* ---- encoders ---- *)
Definition o_sols (l : list (list str * Q)) : out := o_list (fun e => OL [o_list o_str (fst e); o_q (snd e)]) l.
Definition o_res (r : cn_res) : out :=
  match r with
  | Sols l => OL [OZ 0; o_sols l]
  | ErrUnknown n => OL [OZ 1; o_str n]
  | ErrLowCov => OL [OZ 2]
  | ErrOther => OL [OZ 3]
  end.
Definition o_slot (x : slot) : out := OL [o_str (fst x); OZ (snd x)].
Definition o_yields (l : list (Q * list slot)) : out :=
  o_list (fun y => OL [o_q (fst y); o_list o_slot (snd y)]) l.
