(* Frame.v — a small heap / aliasing model for C14 (clause: no query, accessor, stage or writer modifies the loaded
   gene database or the sample evidence), and an abstract model of the candidate pool of the minor stage.

   Python objects that matter here are mutable containers (sets of variants, dicts of alleles / configurations / depth
   tables).  A container lives at a location; variables (attribute paths such as gene.alleles[a].func_muts, or locals)
   are bound to locations.  `x = y` makes x an ALIAS of y's location; `set(y)`, `copy.deepcopy(y)`, `a | b`, a dict/set
   comprehension allocate a FRESH location; `x |= y`, `x -= y`, `x.add(e)`, `del x[k]`, `x[k] = v` write IN PLACE at x's
   location.  Every public operation of aldy that touches the catalogue or the coverage tables is transcribed below as a
   straight-line program over these instructions (what it reads is irrelevant; only aliasing and in-place writes matter).
   No proofs here. *)
From Coq Require Import String.
From Aldy Require Import Base Consts.
Import List.
Open Scope Z_scope.

Definition var := Z.
Definition loc := Z.
Definition elt := Z.

Inductive instr :=
| INew (x : var)                  (* x = set() / {} / [] *)
| ICopy (x y : var)               (* x = set(y) / copy.deepcopy(y) / y | z / {k: v for ...} : fresh container holding y's elements *)
| IAlias (x y : var)              (* x = y ; copy.copy(obj) aliases every field *)
| IUnion (x y : var)              (* x |= y *)
| IDiff (x y : var)               (* x -= y *)
| IAdd (x : var) (e : elt)        (* x.add(e) ; x[k] = v *)
| IDel (x : var) (e : elt).       (* del x[k] ; x.remove(e) *)
Definition prog := list instr.

Record state := { env : list (var * loc); heap : list (loc * list elt); next : loc }.

Definition zmem (e : elt) (l : list elt) : bool := existsb (Z.eqb e) l.
Definition union (a b : list elt) : list elt := a ++ filter (fun e => negb (zmem e a)) b.
Definition diff (a b : list elt) : list elt := filter (fun e => negb (zmem e b)) a.
Definition content (st : state) (x : var) : list elt :=
  match alookup Z.eqb x (env st) with
  | Some l => match alookup Z.eqb l (heap st) with Some c => c | None => [] end
  | None => []
  end.
Definition alloc (st : state) (x : var) (c : list elt) : state :=
  {| env := aset Z.eqb x (next st) (env st); heap := aset Z.eqb (next st) c (heap st); next := next st + 1 |}.
Definition write (st : state) (x : var) (c : list elt) : state :=
  match alookup Z.eqb x (env st) with
  | Some l => {| env := env st; heap := aset Z.eqb l c (heap st); next := next st |}
  | None => st
  end.

Definition step (st : state) (i : instr) : state :=
  match i with
  | INew x => alloc st x []
  | ICopy x y => alloc st x (content st y)
  | IAlias x y => match alookup Z.eqb y (env st) with
                  | Some l => {| env := aset Z.eqb x l (env st); heap := heap st; next := next st |}
                  | None => st
                  end
  | IUnion x y => write st x (union (content st x) (content st y))
  | IDiff x y => write st x (diff (content st x) (content st y))
  | IAdd x e => write st x (union (content st x) [e])
  | IDel x e => write st x (diff (content st x) [e])
  end.
Definition exec (p : prog) (st : state) : state := fold_left step p st.

(* ---- static ownership analysis: which variables are bound to containers allocated by the operation itself ---- *)
Definition vmem (x : var) (o : list var) : bool := existsb (Z.eqb x) o.
Definition vremove (x : var) (o : list var) : list var := filter (fun y => negb (Z.eqb x y)) o.
Definition safe_instr (o : list var) (i : instr) : option (list var) :=
  match i with
  | INew x | ICopy x _ => Some (x :: o)
  | IAlias x y => Some (if vmem y o then x :: o else vremove x o)
  | IUnion x _ | IDiff x _ | IAdd x _ | IDel x _ => if vmem x o then Some o else None
  end.
Fixpoint safe_prog (o : list var) (p : prog) : option (list var) :=
  match p with
  | [] => Some o
  | i :: r => match safe_instr o i with Some o' => safe_prog o' r | None => None end
  end.
Definition is_safe (p : prog) : bool := match safe_prog [] p with Some _ => true | None => false end.

(* variables bound by an instruction; the programs below bind locals (>= 100) only, never a root *)
Definition target (i : instr) : option var :=
  match i with INew x | ICopy x _ | IAlias x _ => Some x | _ => None end.
Definition locals_only (p : prog) : bool :=
  forallb (fun i => match target i with Some x => 100 <=? x | None => true end) p.

(* ---- the operations (variable numbering: roots 0..19 are bound to catalogue / sample containers before the call) ---- *)
(* roots *)
Definition r_func : var := 0.        (* gene.alleles[major].func_muts *)
Definition r_neutral : var := 1.     (* gene.alleles[major].minors[minor].neutral_muts *)
Definition r_added : var := 2.       (* SolvedAllele.added (list owned by the solution object) *)
Definition r_missing : var := 3.     (* SolvedAllele.missing *)
Definition r_random : var := 4.      (* gene.random_mutations *)
Definition r_alleles : var := 5.     (* gene.alleles (dict) *)
Definition r_configs : var := 6.     (* gene.cn_configs (dict) *)
Definition r_config_cn : var := 7.   (* gene.cn_configs[name].cn (list of dicts) *)
Definition r_cov : var := 8.         (* Coverage._coverage *)
Definition r_indels : var := 9.      (* Coverage._indels *)
Definition r_cnv : var := 10.        (* Coverage._cnv_coverage *)
Definition r_regcov : var := 11.     (* Coverage._region_coverage *)
Definition r_quals : var := 12.      (* Coverage._coverage[pos][op] (list of quality pairs) *)
Definition r_mutations : var := 13.  (* gene.mutations *)
Definition r_phases : var := 14.     (* Sample.phases *)
Definition roots : list var := [0; 1; 2; 3; 4; 5; 6; 7; 8; 9; 10; 11; 12; 13; 14].
(* locals *)
Definition v_m : var := 100. Definition v_t1 : var := 101. Definition v_t2 : var := 102. Definition v_t3 : var := 103.
Definition nc_cov : var := 110. Definition nc_indels : var := 111. Definition nc_cnv : var := 112. Definition nc_regcov : var := 113.
Definition nc_row : var := 114.

Inductive avariant := AccShipped | AccFixed.     (* SolvedAllele.mutations: `m = ...func_muts` vs `m = set(...func_muts)` *)

(* solutions.py:88-95 *)
Definition op_mutations (v : avariant) : prog :=
  [match v with AccShipped => IAlias v_m r_func | AccFixed => ICopy v_m r_func end;
   IUnion v_m r_neutral; ICopy v_t1 r_added; IUnion v_m v_t1; ICopy v_t2 r_missing; IDiff v_m v_t2].
(* diplotype.py:50-56 (write_decomposition): set(func) | set(neutral); |= set(added); -= set(missing) *)
Definition op_write_decomposition : prog :=
  [ICopy v_t1 r_func; ICopy v_t2 r_neutral; ICopy v_m v_t1; IUnion v_m v_t2; ICopy v_t3 r_added; IUnion v_m v_t3; ICopy v_t3 r_missing; IDiff v_m v_t3].
(* solutions.py:256-271 (get_mutation_coverages): func_muts | neutral_muts is a new set; muts is a local dict *)
Definition op_get_mutation_coverages : prog := [ICopy v_t1 r_func; IUnion v_t1 r_neutral; INew v_m; IUnion v_m v_t1; IUnion v_m r_added].
(* minor.py:41-54 : pooled variant set *)
Definition op_minor_pool : prog :=
  [INew v_m; ICopy v_t1 r_func; IUnion v_m v_t1; ICopy v_t2 r_neutral; IUnion v_m v_t2; ICopy v_t3 r_added; IUnion v_m v_t3; IUnion v_m r_random].
(* minor.py:146-155 : alleles[(a,0)] = set(func) | set(neutral); alleles[a,cnt] = alleles[a,0] (alias of an owned set) *)
Definition op_minor_alleles : prog := [ICopy v_t1 r_func; ICopy v_t2 r_neutral; ICopy v_m v_t1; IUnion v_m v_t2; IAlias v_t3 v_m].
(* major.py:277-289 : deepcopy(gene.alleles); del alleles[an] *)
Definition op_major_filter_alleles : prog := [ICopy v_m r_alleles; IDel v_m 1; IDel v_m 2].
(* cn.py:298-315 : deepcopy(gene.cn_configs); del configs[an] *)
Definition op_cn_filter_configs : prog := [ICopy v_m r_configs; IDel v_m 1].
(* cn.py:154-181 : structures[(name,0)] = structure (ALIAS of the configuration handed in), the weak copies are deep copies whose
   cn[g] is rebound; the aliased entries are never written *)
Definition op_cn_structures : prog := [INew v_m; IAlias v_t1 r_config_cn; ICopy v_t2 v_t1; ICopy v_t3 v_t1; IAdd v_t3 7; IDel v_t3 7; INew v_t2].
(* coverage.py:158-176 (filtered): copy.copy aliases every field, then _coverage and _indels are REBOUND to fresh dicts;
   the quality lists are shared but only read; _cnv_coverage and _region_coverage stay shared and are not written *)
Definition op_coverage_filtered : prog :=
  [IAlias nc_cov r_cov; IAlias nc_indels r_indels; IAlias nc_cnv r_cnv; IAlias nc_regcov r_regcov;
   INew nc_cov; INew nc_row; IAlias v_t1 r_quals; IAdd nc_cov 1; INew nc_indels; IAdd nc_indels 1].
(* solutions.py:32-42 (CNSolution.__init__): region_cn is built fresh; cn_configs only read *)
Definition op_cn_solution : prog := [INew v_m; IAdd v_m 1].
(* sam.py:67-83 (Sample.__init__ tables built from gene.mutations / alleles): fresh dicts *)
Definition op_sample_tables : prog := [INew v_m; IAdd v_m 1; INew v_t1; IAdd v_t1 1].
(* read-only accessors: Gene.region_at/get_functional/is_functional/get_rsid/get_allele/get_refseq/deletion_allele/has_coverage/
   get_wide_region/__getitem__/__contains__, Coverage.coverage/total/percentage/single_copy/region_coverage/average_coverage/
   dump/diploid_avg_coverage/basic_filter/quality_filter, the _solution_nice/__str__/__hash__ family, query printing *)
Definition op_readonly : prog := [].
(* diplotype.py:126-163 (write_vcf): per-solution tables are local; catalogue sets are copied with set(...) | set(...) *)
Definition op_write_vcf : prog := [INew v_m; ICopy v_t1 r_func; ICopy v_t2 r_neutral; IUnion v_t1 v_t2; IUnion v_t1 r_added; IAdd v_m 1].

Definition ops (v : avariant) : list (str * prog) :=
  [(s "SolvedAllele.mutations", op_mutations v);
   (s "write_decomposition", op_write_decomposition);
   (s "write_vcf", op_write_vcf);
   (s "MinorSolution.get_mutation_coverages", op_get_mutation_coverages);
   (s "estimate_minor:pool", op_minor_pool);
   (s "solve_minor_model:alleles", op_minor_alleles);
   (s "estimate_major:_filter_alleles", op_major_filter_alleles);
   (s "estimate_cn:_filter_configs", op_cn_filter_configs);
   (s "solve_cn_model:structures", op_cn_structures);
   (s "Coverage.filtered", op_coverage_filtered);
   (s "CNSolution", op_cn_solution);
   (s "Sample tables", op_sample_tables);
   (s "read-only accessors and query", op_readonly)].

(* a loaded catalogue + sample: every root bound to its own location *)
Definition loaded (contents : list (list elt)) : state :=
  {| env := combine roots (map Z.of_nat (seq 0 (length roots)));
     heap := combine (map Z.of_nat (seq 0 (length roots))) (contents ++ repeat [] (length roots - length contents));
     next := Z.of_nat (length roots) |}.

(* witness state of the frame refutation: func={10} neutral={20} added=[30] missing=[10] *)
Definition catalogue_state : state := loaded [[10]; [20]; [30]; [10]].

(* ---- set-equality of heaps (Python sets have no order) ---- *)
Definition seteq (a b : list elt) : Prop := forall e, zmem e a = zmem e b.
Definition heap_eq (h1 h2 : list (loc * list elt)) : Prop :=
  forall l, match alookup Z.eqb l h1, alookup Z.eqb l h2 with
            | Some a, Some b => seteq a b
            | None, None => True
            | _, _ => False
            end.
Definition state_eq (s1 s2 : state) : Prop := env s1 = env s2 /\ next s1 = next s2 /\ heap_eq (heap s1) (heap s2).

(* ---- the candidate pool of the minor stage (minor.py:40-110), abstractly ----
   [refine fs pool c] is the refinement the stage computes for candidate [c] when the evidence filter uses structure [fs] and the
   pooled variant list is [pool].  Shipped: the filter closure captures the loop variable, i.e. the LAST candidate's structure. *)
Inductive fvariant := LastStructure | PerStructure.
Section Pool.
  Context {cand structure pool result : Type}.
  Variable struct_of : cand -> structure.
  Variable pool_of : list cand -> pool.
  Variable refine : structure -> pool -> cand -> result.
  Definition filter_structure (v : fvariant) (cands : list cand) (c : cand) : structure :=
    match v with LastStructure => struct_of (last cands c) | PerStructure => struct_of c end.
  Definition refine_in (v : fvariant) (cands : list cand) (c : cand) : result :=
    refine (filter_structure v cands c) (pool_of cands) c.
  Definition refine_alone (v : fvariant) (c : cand) : result := refine_in v [c] c.
End Pool.

(* concrete toy instance for the refutation witnesses: candidate = (structure id, variant id); the "result" records what the
   refinement of the candidate could see *)
Definition w_struct (c : Z * Z) : Z := fst c.
Definition w_pool (cs : list (Z * Z)) : list Z := dedup Z.eqb (map snd cs).
Definition w_refine (fs : Z) (p : list Z) (c : Z * Z) : Z * Z * Z := (fs, Z.of_nat (length p), snd c).

(* ---- encoders ---- *)
Definition o_state (st : state) : out :=
  OL [o_list (o_pair OZ OZ) (env st); o_list (o_pair OZ (o_list OZ)) (heap st); OZ (next st)].
Definition o_roots (st : state) : out := o_list (fun x => o_list OZ (content st x)) roots.
