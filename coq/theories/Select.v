(* Select.v — the selection logic of aldy/genotype.py:237-335 and the score carry-over of aldy/minor.py:89-110.
   Candidates arrive as a tree  structure -> major candidates -> raw minor candidates  (what the three stages return);
   this file sorts, carries scores over, filters by the gap and reports errors exactly as genotype() does.
   Scores are exact rationals.  No proofs here. *)
From Aldy Require Import Base Consts.
Open Scope Z_scope.

(* Python int(x): truncation toward zero *)
Definition qtrunc (q : Q) : Z := Z.quot (Qnum q) (Zpos (Qden q)).

Definition str_leb (a b : str) : bool := negb (str_ltb b a).

(* the sort key (int(scale * score), name), compared as Python compares tuples *)
Definition skey := (Z * str)%type.
Definition key_leb (k1 k2 : skey) : bool :=
  (fst k1 <? fst k2) || ((fst k1 =? fst k2) && str_leb (snd k1) (snd k2)).

Section Generic.
  Context {A : Type}.
  Variable name : A -> str.
  Variable score : A -> Q.

  Definition key_of (scale : Z) (a : A) : skey := (qtrunc (inZ scale * score a), name a).

  (* stable insertion sort = Python's sorted(key=...) *)
  Fixpoint insert_by (kf : A -> skey) (x : A) (l : list A) : list A :=
    match l with
    | [] => [x]
    | y :: t => if key_leb (kf x) (kf y) then x :: y :: t else y :: insert_by kf x t
    end.
  Definition sort_by (kf : A -> skey) (l : list A) : list A := fold_right (insert_by kf) [] l.

  (* min(l, key=score).score ; 0 on the empty list (never used there) *)
  Fixpoint min_score (l : list A) : Q :=
    match l with
    | [] => 0%Q
    | [a] => score a
    | a :: t => Qmin' (score a) (min_score t)
    end.

  (* m.score - min - gap < SOLUTION_PRECISION *)
  Definition within (prec gap mn : Q) (a : A) : bool := Qltb (score a - mn - gap) prec.

  (* filter to within the gap of the best, then sort by (int(scale*score), name); None = nothing to choose from *)
  Definition select (prec gap : Q) (scale : Z) (l : list A) : option (list A) :=
    match l with
    | [] => None
    | _ => Some (sort_by (key_of scale) (filter (within prec gap (min_score l)) l))
    end.
End Generic.

(* ---- stage outputs as recorded ---- *)
Record minor_in := { mi_id : Z; mi_name : str; mi_raw : Q }.
(* ma_rank: position of the major candidate in the minor stage's own processing order inside its structure group
   (natsorted str(solution) in minor.py:97; an input here) *)
Record major_in := { ma_id : Z; ma_name : str; ma_raw : Q; ma_rank : Z; ma_minors : list minor_in }.
Record cn_in := { cn_id : Z; cn_name : str; cn_score : Q; cn_majors : list major_in }.

Inductive sel_err := NoStructures | NoMajors | NoMinors.
Inductive res (A : Type) := Ok (a : A) | Err (e : sel_err).
Arguments Ok {A} a.
Arguments Err {A} e.

(* a major candidate with the structure it came from and its carried score *)
Record major_c := { jc_cn : cn_in; jc_in : major_in; jc_score : Q }.
Record minor_c := { nc_major : major_c; nc_in : minor_in; nc_score : Q }.

Definition scale_at (c : consts) (k : nat) : Z := nth k (c_sort_scale c) 1000.

(* genotype.py:242 *)
Definition sorted_structures (c : consts) (cns : list cn_in) : list cn_in :=
  sort_by (key_of cn_name cn_score (scale_at c 0)) cns.

(* genotype.py:255-266: s.score += cn_sol.score - min_cn_score, concatenated in structure order *)
Definition major_candidates (min_cn : Q) (cns : list cn_in) : list major_c :=
  flat_map (fun cn => map (fun m => {| jc_cn := cn; jc_in := m; jc_score := (ma_raw m + (cn_score cn - min_cn))%Q |}) (cn_majors cn)) cns.

Definition jc_name (j : major_c) : str := ma_name (jc_in j).

(* minor.py:91-97: groups by structure in order of the structure's printed name, inside a group by the given rank *)
Definition group_leb (a b : major_c) : bool :=
  str_ltb (cn_name (jc_cn a)) (cn_name (jc_cn b)) ||
  (str_eqb (cn_name (jc_cn a)) (cn_name (jc_cn b)) && (ma_rank (jc_in a) <=? ma_rank (jc_in b))).
Fixpoint insert_g (x : major_c) (l : list major_c) : list major_c :=
  match l with
  | [] => [x]
  | y :: t => if group_leb x y then x :: y :: t else y :: insert_g x t
  end.
Definition minor_order (l : list major_c) : list major_c := fold_right insert_g [] l.

(* minor.py:107-108 then genotype.py:307-310 *)
Definition combined (c : consts) (min_cn min_major : Q) (j : major_c) (m : minor_in) : Q :=
  ((mi_raw m + (jc_score j - min_major)) * ((cn_score (jc_cn j) + c_slack c) / (min_cn + c_slack c)))%Q.

Definition minor_candidates (c : consts) (min_cn min_major : Q) (passed : list major_c) : list minor_c :=
  flat_map (fun j => map (fun m => {| nc_major := j; nc_in := m; nc_score := combined c min_cn min_major j m |})
                         (ma_minors (jc_in j))) (minor_order passed).

Definition nc_name (n : minor_c) : str := mi_name (nc_in n).

Definition passed_majors (c : consts) (gap : Q) (cns : list cn_in) : option (list major_c) :=
  select jc_name jc_score (c_solution_precision c) gap (scale_at c 1)
         (major_candidates (min_score cn_score cns) (sorted_structures c cns)).

Definition genotype_select (c : consts) (gap : Q) (cns : list cn_in) : res (list minor_c) :=
  match cns with
  | [] => Err NoStructures
  | _ =>
    let min_cn := min_score cn_score cns in
    match passed_majors c gap cns with
    | None => Err NoMajors
    | Some passed =>
      let min_major := min_score jc_score passed in
      match select nc_name nc_score (c_solution_precision c) gap (scale_at c 2)
                   (minor_candidates c min_cn min_major passed) with
      | None => Err NoMinors
      | Some out => Ok out
      end
    end
  end.

(* the extra well-formedness the "best first" clause needs: the sort resolution 1/scale is finer than SOLUTION_PRECISION *)
Definition select_wf (c : consts) : bool :=
  consts_wf c && (3 <=? Z.of_nat (length (c_sort_scale c))) &&
  forallb (fun z => Qltb 1 (inZ z * c_solution_precision c)) (c_sort_scale c).

(* ---- encoders for the harness ---- *)
Definition o_minor_c (n : minor_c) : out :=
  OL [OZ (cn_id (jc_cn (nc_major n))); OZ (ma_id (jc_in (nc_major n))); OZ (mi_id (nc_in n)); o_q (nc_score n)].
Definition o_major_c (j : major_c) : out := OL [OZ (cn_id (jc_cn j)); OZ (ma_id (jc_in j)); o_q (jc_score j)].
Definition o_err (e : sel_err) : out := OZ (match e with NoStructures => 1 | NoMajors => 2 | NoMinors => 3 end).

(* everything the correspondence compares: sorted structures, all major candidates, passed majors (in order),
   the minor stage's processing order, all minor candidates (pre-filter) and the final list *)
Definition o_run (c : consts) (gap : Q) (cns : list cn_in) : out :=
  let min_cn := min_score cn_score cns in
  let srt := sorted_structures c cns in
  let majs := major_candidates min_cn srt in
  let passed := match passed_majors c gap cns with Some p => p | None => [] end in
  let min_major := min_score jc_score passed in
  let mins := minor_candidates c min_cn min_major passed in
  OL [ match genotype_select c gap cns with
       | Ok l => OL [OZ 0; o_list o_minor_c l]
       | Err e => OL [o_err e; OL []]
       end;
       o_list (fun cn => OZ (cn_id cn)) srt;
       o_list o_major_c majs;
       o_list o_major_c passed;
       o_list o_major_c (minor_order passed);
       o_list o_minor_c mins;
       o_q min_cn; o_q (min_score jc_score majs); o_q min_major; o_q (min_score nc_score mins) ].
