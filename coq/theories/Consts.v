(* Consts.v — every literal of the aldy sources that the model depends on, as one record.
   The instance [here] is REGENERATED from /repo on every run by harness/gen_consts.py into
   gen/Consts_here.v, together with the proof obligation [here_wf : consts_wf here = true].
   Theorems are stated for every [c] with [consts_wf c = true]. *)
From Coq Require String Ascii.
From Aldy Require Import Base.
Open Scope Z_scope.

(* string literals of the model: [s "abc"] is the code-point list *)
Definition s (x : String.string) : str :=
  map (fun a => Z.of_N (Ascii.N_of_ascii a)) (String.list_ascii_of_string x).
Arguments s x%string_scope.

Inductive pval := VBool (b : bool) | VInt (z : Z) | VFloat (q : Q) | VStr (t : str) | VNone.

Record consts := {
  c_params : list (str * pval);      (* Profile.__init__ attribute defaults, in source order *)
  c_solver_precision : Q;            (* lpinterface.SOLVER_PRECISON *)
  c_solution_precision : Q;          (* common.SOLUTION_PRECISION *)
  c_slack : Q;                       (* genotype.py SLACK *)
  c_major_novel_unit : Q;            (* major.py: 0.1 * quicksum(VNEW) *)
  c_cn_pars_num : Q;                 (* cn.py: 10.0 / len(unique_regions) *)
  c_cn_pars_factor : Q;              (* cn.py: *= 0.75 *)
  c_minor_tie_den : Q;               (* minor.py: cnt / 1000000 *)
  c_minor_vnewor_div : Q;            (* minor.py: minor_add / 2 * vo *)
  c_homozygous_eps : Q;              (* minor.py: abs(copies - max_cn) > 1e-5 *)
  c_bins : list (Z * Z);             (* sam.py bin_quality: (q < bound, value); value -1 = int(q) *)
  c_bin_top : Z;                     (* sam.py bin_quality: final return *)
  c_vcf_reads : list Z;              (* sam.py: distinct pseudo-read multiplicities, sorted *)
  c_vcf_q : Z * Z;                   (* sam.py: [(40, 40)] *)
  c_sort_scale : list Z;             (* genotype.py: int(1000 * score) sort keys *)
  c_avg_cov_eps : Q;                 (* coverage.py: len(...) + 0.1 *)
  c_dump_min_avg : Q;                (* sam.py: min_avg_coverage reset on dump load *)
  c_neutral_floor : Q                (* sam.py: diploid_avg_coverage() < 2 *)
}.

Definition bins_increasing (l : list (Z * Z)) : bool :=
  (fix go (prev : Z) (l : list (Z * Z)) : bool :=
     match l with [] => true | (b, _) :: t => (prev <? b) && go b t end) (-1) l.

Definition consts_wf (c : consts) : bool :=
  Qltb 0 (c_solver_precision c) && Qltb 0 (c_solution_precision c) &&
  Qltb (c_solver_precision c) (c_solution_precision c) &&
  Qltb 0 (c_slack c) && Qltb 0 (c_major_novel_unit c) &&
  Qltb 0 (c_cn_pars_num c) && Qltb 0 (c_cn_pars_factor c) &&
  Qleb 1000 (c_minor_tie_den c) && Qltb 0 (c_minor_vnewor_div c) && Qltb 0 (c_homozygous_eps c) &&
  bins_increasing (c_bins c) && forallb (fun z => 0 <? z) (c_vcf_reads c) &&
  forallb (fun z => 1000 <=? z) (c_sort_scale c) && Qltb 0 (c_avg_cov_eps c).

Definition param_default (c : consts) (n : str) : option pval := alookup str_eqb n (c_params c).
