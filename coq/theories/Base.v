(* Base.v — shared vocabulary of the aldy model.
   Strings are lists of code points (Z); Python dicts are association lists in insertion order;
   results travel to the harness through the generic [out] tree. No proofs here. *)
From Coq Require Export ZArith QArith List Bool Lia.
Export ListNotations.
Open Scope Z_scope.

(* ---- generic output tree, printed by [Eval vm_compute] and parsed by harness/common.py ---- *)
Inductive out := OZ (z : Z) | OL (l : list out).

Definition str := list Z.                      (* code points *)
Definition o_bool (b : bool) : out := OZ (if b then 1 else 0).
Definition o_str (s : str) : out := OL (map OZ s).
Definition o_q (q : Q) : out := let r := Qred q in OL [OZ (Qnum r); OZ (Zpos (Qden r))].
Definition o_opt {A} (f : A -> out) (o : option A) : out :=
  match o with None => OL [] | Some x => OL [f x] end.
Definition o_list {A} (f : A -> out) (l : list A) : out := OL (map f l).
Definition o_pair {A B} (f : A -> out) (g : B -> out) (p : A * B) : out := OL [f (fst p); g (snd p)].

(* ---- strings ---- *)
Fixpoint str_eqb (a b : str) : bool :=
  match a, b with
  | [], [] => true
  | x :: a', y :: b' => (x =? y) && str_eqb a' b'
  | _, _ => false
  end.

(* lexicographic order on code-point lists: Python's str comparison *)
Fixpoint str_ltb (a b : str) : bool :=
  match a, b with
  | [], [] => false
  | [], _ :: _ => true
  | _ :: _, [] => false
  | x :: a', y :: b' => if x <? y then true else if y <? x then false else str_ltb a' b'
  end.

(* ---- association lists (Python dict, insertion ordered) ---- *)
Section Alist.
  Context {K V : Type} (eqb : K -> K -> bool).
  Fixpoint alookup (k : K) (l : list (K * V)) : option V :=
    match l with
    | [] => None
    | (k', v) :: t => if eqb k k' then Some v else alookup k t
    end.
  (* d[k] = v : replace in place if present (position kept), append otherwise *)
  Fixpoint aset (k : K) (v : V) (l : list (K * V)) : list (K * V) :=
    match l with
    | [] => [(k, v)]
    | (k', v') :: t => if eqb k k' then (k', v) :: t else (k', v') :: aset k v t
    end.
  Definition amem (k : K) (l : list (K * V)) : bool :=
    match alookup k l with Some _ => true | None => false end.
End Alist.

(* ---- Q helpers ---- *)
Definition Qabs' (q : Q) : Q := if Qle_bool 0 q then q else Qopp q.
Definition Qltb (a b : Q) : bool := negb (Qle_bool b a).
Definition Qleb (a b : Q) : bool := Qle_bool a b.
Definition Qeqb (a b : Q) : bool := Qeq_bool a b.
Definition Qmax' (a b : Q) : Q := if Qle_bool a b then b else a.
Definition Qmin' (a b : Q) : Q := if Qle_bool a b then a else b.
Fixpoint qsum (l : list Q) : Q := match l with [] => 0%Q | x :: t => (x + qsum t)%Q end.
Definition zsum (l : list Z) : Z := fold_right Z.add 0 l.
Definition inZ (x : Z) : Q := inject_Z x.

(* ---- small list helpers ---- *)
Fixpoint count_occ_b {A} (eqb : A -> A -> bool) (x : A) (l : list A) : nat :=
  match l with [] => O | y :: t => ((if eqb x y then 1 else 0) + count_occ_b eqb x t)%nat end.
Definition memb {A} (eqb : A -> A -> bool) (x : A) (l : list A) : bool := existsb (eqb x) l.
Fixpoint dedup {A} (eqb : A -> A -> bool) (l : list A) : list A :=
  match l with [] => [] | x :: t => x :: filter (fun y => negb (eqb x y)) (dedup eqb t) end.
