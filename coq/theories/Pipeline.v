(* Pipeline.v — the part of the pipeline C01's composition needs: what the IDEAL PILEUP of planted haplotypes looks like to the
   allele models and to the structure model, and the fit error of a called combination.
   (coverage.py:94-107 single_copy, 185-210 _normalize_coverage; major.py:153-165 and minor.py:222-271 constraint rows.)
   Kept small on purpose: the three ILP stages are modelled in CnModel/MajorModel/MinorModel (C02-C04), selection in Select.v.
   No proofs here. *)
From Aldy Require Import Base Consts Select.
Open Scope Z_scope.

Section Rows.
  Context {A : Type}.                  (* a gene copy (planted haplotype) or a called allele copy *)

  (* one constraint row of an allele model: a variant row (pos, op) or the reference row of a position.
     [r_member a] = copy a contributes 1 to the row (carries the variant / covers the position without a non-insertion
     variant there) *)
  Record row := {
    r_cov : Q;                         (* coverage[m]: observations supporting the row *)
    r_total : Q;                       (* coverage.total(m): all observations at the locus (indel rows: against + for) *)
    r_cn : Z;                          (* cn_solution.position_cn(pos) of the structure the stage works under *)
    r_member : A -> bool
  }.

  Definition members (r : row) (l : list A) : Z := Z.of_nat (length (filter (r_member r) l)).

  (* coverage.single_copy: max(1, total) / position_cn, 0 where the structure has no copy *)
  Definition single_copy (r : row) : Q :=
    if r_cn r =? 0 then 0%Q else (Qmax' 1 (r_total r) / inZ (r_cn r))%Q.
  (* the right-hand side of the row: coverage[m] / single_copy(m), 0.0 when single_copy is 0 *)
  Definition observed (r : row) : Q :=
    if r_cn r =? 0 then 0%Q else (r_cov r / single_copy r)%Q.

  (* sum over rows of |observed copies - called copies| : the abssum term of major.py:186 / minor.py:432-471 for a called
     combination that adds no novel variant and drops none *)
  Definition fit_error (rows : list row) (called : list A) : Q :=
    qsum (map (fun r => Qabs' (observed r - inZ (members r called))) rows).

  (* EVIDENCE HYPOTHESIS (per row): the pileup is ideal for the planted copies at per-copy depth d under the planted structure *)
  Definition ideal_row (d : Q) (planted : list A) (r : row) : Prop :=
    (r_cov r == d * inZ (members r planted))%Q /\          (* E1: every member copy contributes exactly d observations *)
    (r_total r == d * inZ (r_cn r))%Q /\                   (* E2: locus depth = d per copy of the structure *)
    0 <= r_cn r /\
    (r_cn r = 0 -> members r planted = 0) /\               (* no copy, no member *)
    (0 < r_cn r -> (1 <= d * inZ (r_cn r))%Q).             (* depth at least one read per locus *)
End Rows.

(* ---- region depths after normalisation (coverage.py:185-210) ---- *)
(* sample: k copies of the region at per-copy depth d, two copies of the neutral region;
   profile: two copies of both at per-copy depth d' *)
Definition region_copies (neutral_profile neutral_sample region_sample region_profile : Q) : Q :=
  let ratio := (neutral_profile / neutral_sample)%Q in
  if Qeqb region_profile 0 then 0%Q else (ratio * region_sample / (region_profile / 2))%Q.
