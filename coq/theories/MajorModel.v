(* MajorModel.v — the ILP of aldy.major.solve_major_model (major.py:88-197) and the candidate selection of
   _filter_alleles / estimate_major (major.py:45-54, 238-289), as one generator [gen] producing an [Lp.lp]
   whose variables are identified by role:

     [1; j] ++ name      A_<name>_<j>     copy j of candidate allele <name>          (binary)
     [2; pos] ++ op      E_<pos>_<op>     error of variant (pos,op); op "_" = E_<pos>_REF (free)
     [3; pos] ++ op      N_<mut>          variant is novel                           (binary)
     [4; pos] ++ op      OR_<mut>         some selected copy carries the variant     (binary)
     [5; pos] ++ op      XOR_<mut>                                                   (binary)
     [6]                 NOVEL            some variant is novel                      (binary)
     -1 :: k             ABS_<k>          abssum helper of k                         (>= 0)

   The instance is aldy's own view of the gene and the evidence: allele table, structure, per-position facts
   (position_cn, has_coverage), `gene.mutations` with is_functional, and the Coverage object. *)
From Aldy Require Import Base Consts Lp Filter.
Open Scope Z_scope.

Record allele := { a_name : str; a_cfg : str; a_muts : list mut }.   (* gene.alleles[name]: cn_config, func_muts *)

Record inst := {
  i_alleles : list allele;             (* gene.alleles *)
  i_struct : list (str * Z);           (* cn_solution.solution: configuration -> copies *)
  i_muts : list (mut * bool);          (* gene.mutations with gene.is_functional *)
  i_pcn : list (Z * Z);                (* cn_solution.position_cn(pos); absent = 0 *)
  i_hascov : list (str * list Z);      (* configuration -> positions where gene.has_coverage is true *)
  i_cover : cover;                     (* the Coverage object given to estimate_major *)
  i_par : fparams;
  i_major_novel : Q;                   (* profile.major_novel *)
  i_gap : Q                            (* profile.gap *)
}.

Definition pcn (I : inst) (pos : Z) : Q :=
  match alookup Z.eqb pos (i_pcn I) with Some z => inZ z | None => 0%Q end.
Definition hascov (I : inst) (cfg : str) (pos : Z) : bool :=
  match alookup str_eqb cfg (i_hascov I) with Some l => memb Z.eqb pos l | None => false end.

(* ---- _filter_alleles and the early exit of estimate_major ----
   Every definition takes the filtered evidence [cv] explicitly ([..._cv]) so that evaluation computes it once;
   the instance-level names instantiate it with [mcov I]. *)
Definition mcov (I : inst) : cover := major_cov (i_par I) (pcn I) (i_cover I).
Definition expressed (cv : cover) (al : allele) : bool := forallb (fun m => 0 <? coverage cv m) (a_muts al).
Definition cands_cv (I : inst) (cv : cover) : list allele :=
  filter (fun al => amem str_eqb (a_cfg al) (i_struct I) && expressed cv al) (i_alleles I).
Definition candidates (I : inst) : list allele := cands_cv I (mcov I).
Definition early_exit_c (I : inst) (cands : list allele) : bool :=
  existsb (fun kv : str * Z => negb (existsb (fun al => str_eqb (a_cfg al) (fst kv)) cands)) (i_struct I).
Definition early_exit (I : inst) : bool := early_exit_c I (candidates I).

(* func_muts: functional variants of the database observed in the filtered evidence *)
Definition fm_cv (I : inst) (cv : cover) : list mut :=
  map fst (filter (fun mf : mut * bool => snd mf && (0 <? coverage cv (fst mf))) (i_muts I)).
Definition func_muts (I : inst) : list mut := fm_cv I (mcov I).

(* coverage[m] / coverage.single_copy(m, cn_solution), 0 where the structure has no copy *)
Definition single_copy_cv (I : inst) (cv : cover) (m : mut) : Q :=
  if Qeqb (pcn I (fst m)) 0 then 0%Q else (Qmax' 1 (inZ (total cv m)) / pcn I (fst m))%Q.
Definition obs_cv (I : inst) (cv : cover) (m : mut) : Q :=
  if Qeqb (pcn I (fst m)) 0 then 0%Q else (inZ (coverage cv m) / single_copy_cv I cv m)%Q.
Definition obs_cn (I : inst) (m : mut) : Q := obs_cv I (mcov I) m.

(* ---- variable roles ---- *)
Definition kA (name : str) (j : Z) : vkey := 1 :: j :: name.
Definition kE (m : mut) : vkey := 2 :: fst m :: snd m.
Definition kN (m : mut) : vkey := 3 :: fst m :: snd m.
Definition kOR (m : mut) : vkey := 4 :: fst m :: snd m.
Definition kXOR (m : mut) : vkey := 5 :: fst m :: snd m.
Definition kNOVEL : vkey := [6].

Definition mk (l : lin) (r : rel) (k : Q) : row := {| r_lin := l; r_rel := r; r_rhs := k |}.
Definition sumlin (ks : list vkey) : lin := map (fun k => (1%Q, k)) ks.
Definition neglin (ks : list vkey) : lin := map (fun k => ((-1)%Q, k)) ks.

Definition has_mut (al : allele) (m : mut) : bool := memb mut_eqb m (a_muts al).
(* the allele has a core variant at the site that is not an insertion (it then does not show the reference there) *)
Definition alt_at (al : allele) (pos : Z) : bool :=
  existsb (fun x : mut => (fst x =? pos) && negb (is_ins (snd x))) (a_muts al).

Section Core.
  Variables (cands : list allele) (struct : list (str * Z)) (fm : list mut) (obsf : mut -> Q)
            (hcov : str -> Z -> bool) (pen unit : Q).

  Definition struct_cn (cfg : str) : Z := match alookup str_eqb cfg struct with Some z => z | None => 0 end.
  (* copy 0 always exists; copies 1 .. max_cn-1 are added *)
  Definition ncopies (al : allele) : nat := Z.to_nat (Z.max 1 (struct_cn (a_cfg al))).
  Definition sels : list (allele * Z) :=
    flat_map (fun al => map (fun j => (al, Z.of_nat j)) (seq 0 (ncopies al))) cands.
  Definition vA (sl : allele * Z) : vkey := kA (a_name (fst sl)) (snd sl).

  Definition carr_sel (m : mut) : list (allele * Z) := filter (fun sl => has_mut (fst sl) m) sels.
  Definition shows_ref (al : allele) (pos : Z) : bool := hcov (a_cfg al) pos && negb (alt_at al pos).
  Definition ref_sel (pos : Z) : list (allele * Z) := filter (fun sl => shows_ref (fst sl) pos) sels.
  Definition cfg_sel (cfg : str) : list (allele * Z) := filter (fun sl => str_eqb (a_cfg (fst sl)) cfg) sels.
  Definition sites : list Z := dedup Z.eqb (map fst fm).
  Definition site_novel (pos : Z) : list mut := filter (fun m : mut => (fst m =? pos) && negb (is_ins (snd m))) fm.

  Definition vars : list (vkey * vkind) :=
    map (fun sl => (vA sl, KBin)) sels ++
    map (fun m => (kE m, KCont None None)) fm ++
    map (fun m => (kN m, KBin)) fm ++
    map (fun pos => (kE (ref_mut pos), KCont None None)) sites ++
    flat_map (fun m => [(kOR m, KBin); (kXOR m, KBin)]) fm ++
    abssum_vars (map kE fm ++ map (fun pos => kE (ref_mut pos)) sites) ++
    [(kNOVEL, KBin)].

  (* CORD: VA[a, j] <= VA[a, j-1] *)
  Definition rows_cord : list row :=
    flat_map (fun sl : allele * Z =>
                if 0 <? snd sl then [mk [(1%Q, vA sl); ((-1)%Q, kA (a_name (fst sl)) (snd sl - 1))] RLe 0%Q] else []) sels.
  (* CONE: at most one novel non-insertion per site *)
  Definition rows_cone : list row := map (fun pos => mk (sumlin (map kN (site_novel pos))) RLe 1%Q) sites.
  (* CFUNC: carriers + novel + error = observed copies;  reference-showing copies + error = observed reference copies *)
  Definition func_lin (m : mut) : lin := sumlin (map vA (carr_sel m)) ++ [(1%Q, kN m); (1%Q, kE m)].
  Definition ref_lin (pos : Z) : lin := sumlin (map vA (ref_sel pos)) ++ [(1%Q, kE (ref_mut pos))].
  Definition rows_cfunc : list row :=
    flat_map (fun m => [mk (func_lin m) RLe (obsf m); mk (func_lin m) RGe (obsf m)]) fm ++
    flat_map (fun pos => [mk (ref_lin pos) RLe (obsf (ref_mut pos)); mk (ref_lin pos) RGe (obsf (ref_mut pos))]) sites.
  (* CSAT: every configuration gets exactly its number of copies *)
  Definition rows_csat : list row :=
    flat_map (fun kv : str * Z => let l := sumlin (map vA (cfg_sel (fst kv))) in
                                  [mk l RLe (inZ (snd kv)); mk l RGe (inZ (snd kv))]) struct.
  (* COR / CXOR: OR = some carrier selected; 1 = OR xor N *)
  Definition rows_cor (m : mut) : list row :=
    mk ((1%Q, kOR m) :: neglin (map vA (carr_sel m))) RLe 0%Q ::
    map (fun sl => mk [(1%Q, kOR m); ((-1)%Q, vA sl)] RGe 0%Q) (carr_sel m).
  Definition rows_cxor (m : mut) : list row :=
    [ mk [(1%Q, kXOR m); ((-1)%Q, kN m); ((-1)%Q, kOR m)] RLe 0%Q;
      mk [(1%Q, kXOR m); (1%Q, kN m); (1%Q, kOR m)] RLe 2%Q;
      mk [(1%Q, kXOR m); ((-1)%Q, kN m); (1%Q, kOR m)] RGe 0%Q;
      mk [(1%Q, kXOR m); (1%Q, kN m); ((-1)%Q, kOR m)] RGe 0%Q;
      mk [(1%Q, kXOR m)] RGe 1%Q ].
  Definition errs : list vkey := map kE fm ++ map (fun pos => kE (ref_mut pos)) sites.
  (* NOVEL >= N_m,  NOVEL <= sum N *)
  Definition rows_novel : list row :=
    map (fun m => mk [(1%Q, kNOVEL); ((-1)%Q, kN m)] RGe 0%Q) fm ++
    [mk ((1%Q, kNOVEL) :: neglin (map kN fm)) RLe 0%Q].

  Definition rows : list row :=
    rows_cord ++ rows_cone ++ rows_cfunc ++ rows_csat ++
    flat_map (fun m => rows_cor m ++ rows_cxor m) fm ++ abssum_rows errs ++ rows_novel.

  Definition obj : lin :=
    abssum_lin (fun _ => 1%Q) errs ++ [(pen, kNOVEL)] ++ map (fun m => (unit, kN m)) fm.

  Definition gen_core : lp := {| lp_vars := vars; lp_rows := rows; lp_obj := obj; lp_const := 0%Q |}.
End Core.

Definition gen (c : consts) (I : inst) : lp :=
  let cv := mcov I in
  gen_core (cands_cv I cv) (i_struct I) (fm_cv I cv) (obs_cv I cv) (hascov I) (i_major_novel I) (c_major_novel_unit c).

(* side conditions of the instance that hold by construction in aldy (dict keys are unique; a candidate's core
   variants are database variants marked functional); evaluated on every serialised instance *)
Definition inst_wf (I : inst) : bool :=
  nodupb str_eqb (map a_name (i_alleles I)) && nodupb str_eqb (map fst (i_struct I)) &&
  nodupb mut_eqb (map fst (i_muts I)) && cover_wf (i_cover I) &&
  forallb (fun al => nodupb mut_eqb (a_muts al)) (i_alleles I) &&
  forallb (fun al => forallb (fun m => match alookup mut_eqb m (i_muts I) with Some true => true | _ => false end) (a_muts al))
          (candidates I) &&
  forallb (fun kv : str * Z => 0 <? snd kv) (i_struct I) &&
  forallb (fun mf : mut * bool => negb (is_ref (snd (fst mf)))) (i_muts I).

Definition o_allele (al : allele) : out := OL [o_str (a_name al); o_str (a_cfg al); o_list o_mut (a_muts al)].
