(* Enum.v — lpinterface.py:200-246, the generic [solutions] loop, as a fuelled recursion over an abstract solver.

   Python                                                   model
   ------                                                   -----
   status, obj = self.solve(init)                           solve iter (with_cuts m cuts)
     NoSolutionsError -> return                               Infeasible      -> stream ends
     status != "optimal" -> return                            NotOptimal      -> stream ends
   best_obj = obj if best_obj is None else best_obj         b := match best with Some b => b | None => o end
   ub = (1 + gap) * best_obj
   if abs(obj - ub) >= SOLVER_PRECISON and obj > ub: return  stop eps o ub     -> stream ends
   vv = {name: v for binary v with getValue(v) == 1}        active m (asg_of p)
   yield status, obj, sorted_tuple(vv)                      {| y_obj := o; y_active := vv; y_point := p |}
   if not limit or iteration + 1 < limit:                   more limit iter
       addConstr(quicksum(vv.values()) <= len(vv) - 1)        cuts := vv :: cuts   (row [cut_row vv])
       yield from self.solutions(gap, best_obj, limit, iteration + 1, init)

   The solver is a function of the iteration number as well as of the model: CBC is stateful (warm starts), and
   nothing in the theorems depends on it choosing the same optimum twice.  The objective value reported by the
   solver travels separately from the point ([Optimal o p]); that [o] is the objective of [p] is part of the solver
   contract (EnumProofs.v), not of the loop.  Laziness of the Python generator is modelled by returning the whole
   stream; a consumer that stops early takes a prefix ([firstn]).  No proofs here. *)
From Aldy Require Import Base Consts Lp.
Open Scope Z_scope.

Definition point := list (vkey * Q).             (* a solver answer: values of the variables, by key *)

Inductive sres :=
  | Infeasible                                    (* solve() raised NoSolutionsError *)
  | Optimal (o : Q) (p : point)                   (* status "optimal", reported objective, variable values *)
  | NotOptimal.                                   (* any other status: FEASIBLE, ABNORMAL, UNBOUNDED, NOT_SOLVED *)

Record yield := { y_obj : Q; y_active : list vkey; y_point : point }.

(* abs(obj - ub) >= SOLVER_PRECISON and obj > ub *)
Definition stop (eps o ub : Q) : bool := Qleb eps (Qabs' (o - ub)) && Qltb ub o.

(* not limit or iteration + 1 < limit     (limit None and limit 0 are both "no limit") *)
Definition more (limit : option Z) (iter : Z) : bool :=
  match limit with None => true | Some l => (l =? 0) || (iter + 1 <? l) end.

(* the model after the exclusion cuts of the yields so far; [cuts] is newest first, rows are added oldest first *)
Definition with_cuts (m : lp) (cuts : list (list vkey)) : lp := add_rows m (map cut_row (rev cuts)).

Section Loop.
  Variable solve : Z -> lp -> sres.
  Variable eps gap : Q.
  Variable limit : option Z.
  Variable m : lp.

  Fixpoint sols (fuel : nat) (iter : Z) (best : option Q) (cuts : list (list vkey)) : option (list yield) :=
    match fuel with
    | O => None                                   (* out of fuel: never happens with [enough_fuel], EnumProofs.v *)
    | S f =>
        match solve iter (with_cuts m cuts) with
        | Infeasible => Some []
        | NotOptimal => Some []
        | Optimal o p =>
            let b := match best with Some b => b | None => o end in
            if stop eps o ((1 + gap) * b)%Q then Some []
            else
              let vv := active m (asg_of p) in
              let y := {| y_obj := o; y_active := vv; y_point := p |} in
              if more limit iter then
                match sols f (iter + 1) (Some b) (vv :: cuts) with
                | None => None
                | Some r => Some (y :: r)
                end
              else Some [y]
        end
    end.
End Loop.

(* 2^#binaries + 1 solves always suffice: the yielded active sets are pairwise different subsets of the binaries *)
Definition enough_fuel (m : lp) : nat := S (Nat.pow 2 (length (binaries m))).

(* model.solutions(gap, limit=limit) with SOLVER_PRECISON read from the source tree *)
Definition solutions (c : consts) (solve : Z -> lp -> sres) (gap : Q) (limit : option Z) (m : lp) : option (list yield) :=
  sols solve (c_solver_precision c) gap limit m (enough_fuel m) 0 None [].

(* ---- small set helpers on keys, used by the statements and by the executable checks ---- *)
Definition kmem (v : vkey) (l : list vkey) : bool := existsb (vkey_eqb v) l.
Definition ksubset (a b : list vkey) : bool := forallb (fun v => kmem v b) a.
Definition kseteq (a b : list vkey) : bool := ksubset a b && ksubset b a.

(* ---- encoders ---- *)
Definition o_yield (y : yield) : out := OL [o_q (y_obj y); o_list o_key (y_active y)].
Definition o_sols (r : option (list yield)) : out := o_opt (o_list o_yield) r.
Definition o_point (p : point) : out := o_list (fun kv => OL [o_key (fst kv); o_q (snd kv)]) p.
Definition o_sres (r : sres) : out :=
  match r with
  | Infeasible => OL [OZ 0]
  | Optimal o p => OL [OZ 1; o_q o; o_point p]
  | NotOptimal => OL [OZ 2]
  end.
