(* Guards.v — model of the "no data, no call" guards of aldy (C19).
   genotype.py:192-229 (simple-format header, average-depth guard `profile.cn_region and avg_cov < min_avg_coverage`,
   call of estimate_cn), sam.py:126-135 (normalisation + neutral-region floor, executed inside Sample(), i.e. BEFORE the
   simple-format header is printed), coverage.py:113-117 (average over the positions of the pileup table, `+ 0.1`),
   coverage.py:178-201 (neutral sums, ratio), cn.py:46-79 (supplied structure / no copy-number calling / low-depth guard).

   The model starts from the numeric evidence the implementation holds after the pileup (per-position totals, neutral
   sums, per-region sums, profile values); everything behind a passed guard is [Proceed] (the three stages).
   No proofs here. *)
From Aldy Require Import Base Consts.
Open Scope Z_scope.

(* where the gene structure comes from *)
Inductive structure :=
| Estimated        (* copy-number stage runs on normalised region depths *)
| Supplied         (* user-supplied structure (cn_solution): profile "user_provided", no neutral region *)
| DefaultCN.       (* gene without copy-number calling / exome profile: two default copies, no estimation *)

(* behaviours of the shipped tree that the property contradicts; each one has its own switch *)
Record gvariant := {
  needs_neutral : bool;     (* genotype.py:208  `profile.cn_region and avg_cov < ...` : guard skipped without a neutral region *)
  late_header : bool;       (* errors raised inside Sample() precede the simple-format header: no line at all *)
  cn_unterminated : bool    (* error raised by estimate_cn: header printed, newline missing *)
}.
Definition g_shipped : gvariant := {| needs_neutral := true; late_header := true; cn_unterminated := true |}.
Definition g_fixed : gvariant := {| needs_neutral := false; late_header := false; cn_unterminated := false |}.

(* what the simple-format output holds for this gene *)
Inductive sline :=
| NotSimple        (* another output format: nothing is written on error *)
| NoLine           (* simple format, nothing written *)
| Unterminated     (* "sample<TAB>gene<TAB>" without newline *)
| EmptyLine.       (* "sample<TAB>gene<TAB><NL>" : the empty result line *)

Inductive err := NeutralEmpty | NeutralRatio | NeutralThin | LowAverage | CnLowDepth | IllFormed.
Inductive outcome := Error (e : err) (l : sline) | Proceed.

Record neutral := {
  n_in : Z;        (* sum of depths over range(cn_region.start, cn_region.end) *)
  n_all : Z;       (* sum of all depths recorded for reads touching the region (overhang included) *)
  n_len : Z        (* |end - start| *)
}.

Record evidence := {
  ev_sites : list Z;                 (* total depth of every position in the pileup table (Coverage._coverage) *)
  ev_neutral : option neutral;       (* None: profile without neutral region *)
  ev_neutral_value : Q;              (* profile.neutral_value *)
  ev_min_avg : Q;                    (* profile.min_avg_coverage *)
  ev_regions : list (Z * Q);         (* unique regions x gene copies: (summed depth over the region, profile value) *)
  ev_cn_min : Z;                     (* min over configurations of the sum of all copy numbers (cn.py:73-75) *)
  ev_struct : structure;
  ev_simple : bool
}.

(* coverage.py:113-117 *)
Definition avg_cov (c : consts) (sites : list Z) : Q :=
  (inZ (zsum sites) / (inZ (Z.of_nat (length sites)) + c_avg_cov_eps c))%Q.

(* coverage.py:199-210 *)
Definition ratio (ev : evidence) (n : neutral) : Q := (ev_neutral_value ev / inZ (n_in n))%Q.
Definition region_cov (r : Q) (sp : Z * Q) : Q :=
  let '(sm, p) := sp in if Qeqb (p / 2) 0 then 0%Q else (r * inZ sm / (p / 2))%Q.
Definition total_cov (r : Q) (regs : list (Z * Q)) : Q := qsum (map (region_cov r) regs).

Definition line_of (simple : bool) (printed terminated : bool) : sline :=
  if simple then (if printed then (if terminated then EmptyLine else Unterminated) else NoLine) else NotSimple.

(* errors raised inside Sample(): sam.py:127-135 *)
Definition sample_guard (c : consts) (v : gvariant) (ev : evidence) : option outcome :=
  match ev_neutral ev with
  | None => None
  | Some n =>
    let l := line_of (ev_simple ev) (negb (late_header v)) true in
    if n_in n =? 0 then Some (Error NeutralEmpty l)
    else if Qeqb (ratio ev n) 0 then Some (Error NeutralRatio l)
    else if Qltb (inZ (n_all n) / inZ (n_len n)) (c_neutral_floor c) then Some (Error NeutralThin l)
    else None
  end.

(* genotype.py:206-215 *)
Definition avg_guard (c : consts) (v : gvariant) (ev : evidence) : option outcome :=
  let applies := match ev_neutral ev with Some _ => true | None => negb (needs_neutral v) end in
  if applies && Qltb (avg_cov c (ev_sites ev)) (ev_min_avg ev)
  then Some (Error LowAverage (line_of (ev_simple ev) true true)) else None.

(* cn.py:46-79 *)
Definition cn_guard (v : gvariant) (ev : evidence) : outcome :=
  match ev_struct ev with
  | Supplied | DefaultCN => Proceed
  | Estimated =>
    match ev_neutral ev with
    | None => Error IllFormed (line_of (ev_simple ev) true false)     (* no normalised depths: outside the implementation's domain *)
    | Some n =>
      if Qltb (total_cov (ratio ev n) (ev_regions ev)) (inZ (ev_cn_min ev) / 2)
      then Error CnLowDepth (line_of (ev_simple ev) true (negb (cn_unterminated v)))
      else Proceed
    end
  end.

Definition guard (c : consts) (v : gvariant) (ev : evidence) : outcome :=
  match sample_guard c v ev with
  | Some o => o
  | None => match avg_guard c v ev with Some o => o | None => cn_guard v ev end
  end.

(* ---- the property predicate, evaluated on what the implementation did ---- *)
Record observed := {
  ob_error : bool;        (* the run ended with an explanatory error (AldyException) for the gene *)
  ob_call : bool;         (* some output (return value / file of any format) carries a star-allele call *)
  ob_line : sline         (* simple-format output *)
}.
Definition sline_eqb (a b : sline) : bool :=
  match a, b with
  | NotSimple, NotSimple | NoLine, NoLine | Unterminated, Unterminated | EmptyLine, EmptyLine => true
  | _, _ => false
  end.
(* "no star-allele call is produced: explanatory error, and an empty result line in simple output" *)
Definition holds_no_call (simple : bool) (o : observed) : bool :=
  ob_error o && negb (ob_call o) && sline_eqb (ob_line o) (if simple then EmptyLine else NotSimple).
Definition no_call (simple : bool) (o : outcome) : Prop :=
  exists e, o = Error e (if simple then EmptyLine else NotSimple).
Definition observe (o : outcome) : observed :=
  match o with
  | Error _ l => {| ob_error := true; ob_call := false; ob_line := l |}
  | Proceed => {| ob_error := false; ob_call := true; ob_line := NotSimple |}
  end.

(* ---- encoders ---- *)
Definition o_sline (l : sline) : out := OZ (match l with NotSimple => 0 | NoLine => 1 | Unterminated => 2 | EmptyLine => 3 end).
Definition o_err (e : err) : out :=
  OZ (match e with NeutralEmpty => 0 | NeutralRatio => 1 | NeutralThin => 2 | LowAverage => 3 | CnLowDepth => 4 | IllFormed => 5 end).
Definition o_outcome (o : outcome) : out :=
  match o with Error e l => OL [OZ 1; o_err e; o_sline l] | Proceed => OL [OZ 0] end.
(* outcome + the exact quantities compared with thresholds (the harness skips exact ties of float arithmetic) *)
Definition o_guard (c : consts) (v : gvariant) (ev : evidence) : out :=
  OL [o_outcome (guard c v ev);
      o_q (avg_cov c (ev_sites ev));
      o_opt (fun n => OL [o_q (if n_len n =? 0 then 0 else inZ (n_all n) / inZ (n_len n));
                          o_q (if n_in n =? 0 then 0 else total_cov (ratio ev n) (ev_regions ev))]) (ev_neutral ev)].
