(* MajorSpec.v — combinatorial specification of the major stage (C02).
   A combination is a number of copies for every candidate allele plus a set of novel variants.
   [admissible]: every configuration gets exactly its copies, a variant is novel iff no called copy carries it,
   at most one novel non-insertion per site.  [score]: fit error + novelty penalties.
   [run]: every admissible combination within the optimality gap (what estimate_major has to report).
   [holds]: the property of C02 as a decidable predicate on (instance, reported list), clause by clause. *)
From Aldy Require Import Base Consts Lp Filter MajorModel.
Open Scope Z_scope.

Section Spec.
  Variables (cands : list allele) (struct : list (str * Z)) (fm : list mut) (obsf : mut -> Q)
            (hcov : str -> Z -> bool) (pen unit : Q).

  (* number of called copies carrying m / showing the reference at a site, for a count function on alleles *)
  Definition carriers (cnt : allele -> Q) (m : mut) : Q :=
    qsum (map (fun al => if has_mut al m then cnt al else 0%Q) cands).
  Definition refcopies (cnt : allele -> Q) (pos : Z) : Q :=
    qsum (map (fun al => if shows_ref hcov al pos then cnt al else 0%Q) cands).
  Definition fit (cnt : allele -> Q) (nov : mut -> Q) : Q :=
    (qsum (map (fun m => Qabs' (obsf m - carriers cnt m - nov m)) fm) +
     qsum (map (fun pos => Qabs' (obsf (ref_mut pos) - refcopies cnt pos)) (sites fm)))%Q.
  Definition any_novel (nov : mut -> Q) : bool := existsb (fun m => Qeqb (nov m) 1) fm.
  Definition penalty (nov : mut -> Q) : Q :=
    (pen * (if any_novel nov then 1 else 0) + unit * qsum (map nov fm))%Q.
  Definition score (cnt : allele -> Q) (nov : mut -> Q) : Q := (fit cnt nov + penalty nov)%Q.

  (* executable representation: (allele name, copies) for every candidate; list of novel variants *)
  Definition count_z (counts : list (str * Z)) (al : allele) : Z :=
    match alookup str_eqb (a_name al) counts with Some z => z | None => 0 end.
  Definition cnt_of (counts : list (str * Z)) (al : allele) : Q := inZ (count_z counts al).
  Definition nov_of (novel : list mut) (m : mut) : Q := if memb mut_eqb m novel then 1%Q else 0%Q.

  Definition uncarried (counts : list (str * Z)) : list mut :=
    filter (fun m => Qeqb (carriers (cnt_of counts) m) 0) fm.
  Definition one_per_site (novel : list mut) : bool :=
    forallb (fun pos => (length (filter (fun m => memb mut_eqb m novel) (site_novel fm pos)) <=? 1)%nat) (sites fm).
  Definition cfg_count (counts : list (str * Z)) (cfg : str) : Z :=
    zsum (map (count_z counts) (filter (fun al => str_eqb (a_cfg al) cfg) cands)).
  Definition admissible (counts : list (str * Z)) (novel : list mut) : bool :=
    forallb (fun al => 0 <=? count_z counts al) cands &&
    forallb (fun kv : str * Z => cfg_count counts (fst kv) =? snd kv) struct &&
    forallb (fun m => Bool.eqb (memb mut_eqb m novel) (Qeqb (carriers (cnt_of counts) m) 0)) fm &&
    forallb (fun m => memb mut_eqb m fm) novel &&
    one_per_site novel.

  (* all count vectors: candidates in order, each takes 0..remaining copies of its configuration *)
  Definition budget_of (b : list (str * Z)) (cfg : str) : Z := match alookup str_eqb cfg b with Some z => z | None => 0 end.
  Definition zupto (n : Z) : list Z := map Z.of_nat (seq 0 (S (Z.to_nat n))).     (* 0..n *)
  Fixpoint enum_counts (cs : list allele) (b : list (str * Z)) : list (list (str * Z)) :=
    match cs with
    | [] => if forallb (fun kv : str * Z => snd kv =? 0) b then [[]] else []
    | al :: t =>
      let r := budget_of b (a_cfg al) in
      flat_map (fun k => map (cons (a_name al, k)) (enum_counts t (aset str_eqb (a_cfg al) (r - k) b))) (zupto r)
    end.

  Definition comb := (Q * list (str * Z) * list mut)%type.       (* score, counts, novel *)
  Definition enum_all : list comb :=
    flat_map (fun counts => let nv := uncarried counts in
                            if one_per_site nv then [(score (cnt_of counts) (nov_of nv), counts, nv)] else [])
             (enum_counts cands struct).
End Spec.

(* ---- the combination a point of the model stands for ---- *)
(* sum of a quantity over the copies 0 .. ncopies-1 of an allele; number of selected copies (as the sum of the selectors) *)
Definition copy_sum (struct : list (str * Z)) (g : allele * Z -> Q) (al : allele) : Q :=
  qsum (map (fun j => g (al, Z.of_nat j)) (seq 0 (ncopies struct al))).
Definition cnt_of_asg (struct : list (str * Z)) (a : asg) (al : allele) : Q := copy_sum struct (fun sl => a (vA sl)) al.
Definition nov_of_asg (a : asg) (m : mut) : Q := a (kN m).
(* the same as data: copies per candidate (selectors equal to 1) and the list of novel variants *)
Definition zcount (struct : list (str * Z)) (a : asg) (al : allele) : Z :=
  Z.of_nat (length (filter (fun j => Qeqb (a (kA (a_name al) (Z.of_nat j))) 1) (seq 0 (ncopies struct al)))).
Definition counts_of_asg (cands : list allele) (struct : list (str * Z)) (a : asg) : list (str * Z) :=
  map (fun al => (a_name al, zcount struct a al)) cands.
Definition novel_of_asg (fm : list mut) (a : asg) : list mut := filter (fun m => Qeqb (a (kN m)) 1) fm.

Fixpoint qmin (l : list Q) : option Q :=
  match l with
  | [] => None
  | x :: t => match qmin t with None => Some x | Some y => Some (Qmin' x y) end
  end.

Definition band : Q := (1 # 1000000)%Q.
(* solutions(): a point is yielded unless |obj - ub| >= eps and obj > ub, with ub = (1 + gap) * best *)
Definition threshold (c : consts) (I : inst) (best : Q) : Q := ((1 + i_gap I) * best + c_solver_precision c)%Q.

Definition all_combs (c : consts) (I : inst) : list comb :=
  let cv := mcov I in
  let cands := cands_cv I cv in
  if early_exit_c I cands then []
  else enum_all cands (i_struct I) (fm_cv I cv) (obs_cv I cv) (hascov I) (i_major_novel I) (c_major_novel_unit c).

Definition sc (x : comb) : Q := fst (fst x).
Definition expand (counts : list (str * Z)) : list str :=
  flat_map (fun kv : str * Z => repeat (fst kv) (Z.to_nat (snd kv))) counts.

(* what has to be reported: (combination, must?) — must = strictly inside the threshold by more than [band];
   combinations within [band] of the threshold may or may not be reported *)
Definition run_of (c : consts) (I : inst) (all : list comb) : list (comb * bool) :=
  match qmin (map sc all) with
  | None => []
  | Some best =>
    let thr := threshold c I best in
    map (fun x => (x, Qltb (sc x) (thr - band)%Q)) (filter (fun x => Qltb (sc x) (thr + band)%Q) all)
  end.
Definition run (c : consts) (I : inst) : list (comb * bool) := run_of c I (all_combs c I).

Definition o_comb (x : comb) : out := OL [o_q (sc x); o_list o_str (expand (snd (fst x))); o_list o_mut (snd x)].
Definition o_run (c : consts) (I : inst) : out :=
  o_list (fun xb : comb * bool => OL [o_comb (fst xb); o_bool (snd xb)]) (run c I).

(* ---- the property as a predicate on the implementation's output ---- *)
Definition report := (Q * list str * list mut)%type.           (* score, called major alleles (multiset), novel variants *)
Definition r_score (r : report) : Q := fst (fst r).
Definition r_names (r : report) : list str := snd (fst r).
Definition r_novel (r : report) : list mut := snd r.

Definition names_count (names : list str) (al : allele) : Q := inZ (Z.of_nat (count_occ_b str_eqb (a_name al) names)).
Definition find_allele (I : inst) (n : str) : option allele :=
  find (fun al => str_eqb (a_name al) n) (i_alleles I).
Definition tol (b : Q) : Q := ((1 # 1000000) + (1 # 1000000000) * Qabs' b)%Q.
Definition close (a b : Q) : bool := Qleb (Qabs' (a - b)) (tol b).

(* fit error + penalties of a reported combination, recomputed from the gene's whole allele table *)
Definition report_score (c : consts) (I : inst) (cv : cover) (fm : list mut) (r : report) : Q :=
  score (i_alleles I) fm (obs_cv I cv) (hascov I) (i_major_novel I) (c_major_novel_unit c)
        (names_count (r_names r)) (nov_of (r_novel r)).

Definition same_set (a b : list mut) : bool :=
  forallb (fun m => memb mut_eqb m b) a && forallb (fun m => memb mut_eqb m a) b.
Definition matches (cand_names : list str) (r : report) (x : comb) : bool :=
  forallb (fun n => memb str_eqb n cand_names) (r_names r) &&
  forallb (fun kv : str * Z => Z.of_nat (count_occ_b str_eqb (fst kv) (r_names r)) =? snd kv) (snd (fst x)) &&
  same_set (r_novel r) (snd x).
Definition same_report (a b : report) : bool :=
  forallb (fun n => (count_occ_b str_eqb n (r_names a) =? count_occ_b str_eqb n (r_names b))%nat) (r_names a ++ r_names b) &&
  same_set (r_novel a) (r_novel b).
Fixpoint nodup_reports (l : list report) : bool :=
  match l with [] => true | x :: t => negb (existsb (same_report x) t) && nodup_reports t end.

(* every configuration of the structure gets exactly its number of called alleles (and nothing else is called) *)
Definition h_copies (I : inst) (rep : list report) : bool :=
  forallb (fun r =>
    forallb (fun n => match find_allele I n with Some al => amem str_eqb (a_cfg al) (i_struct I) | None => false end) (r_names r) &&
    forallb (fun kv : str * Z =>
      Z.of_nat (length (filter (fun n => match find_allele I n with Some al => str_eqb (a_cfg al) (fst kv) | None => false end)
                               (r_names r))) =? snd kv) (i_struct I)) rep.
(* every observed core variant is carried by a called allele xor flagged novel; one novel non-insertion per site *)
Definition called_carries (I : inst) (r : report) (m : mut) : bool :=
  existsb (fun n => match find_allele I n with Some al => has_mut al m | None => false end) (r_names r).
Definition h_xor (I : inst) (fm : list mut) (rep : list report) : bool :=
  forallb (fun r =>
    forallb (fun m => xorb (called_carries I r m) (memb mut_eqb m (r_novel r))) fm &&
    forallb (fun m => memb mut_eqb m fm) (r_novel r) &&
    nodupb mut_eqb (r_novel r) &&
    one_per_site fm (r_novel r)) rep.
Definition h_score (c : consts) (I : inst) (cv : cover) (fm : list mut) (rep : list report) : bool :=
  forallb (fun r => close (r_score r) (report_score c I cv fm r)) rep.
(* no admissible combination scores lower than the best reported one; something is reported when something is admissible *)
Definition h_optimal (all : list comb) (rep : list report) : bool :=
  match qmin (map r_score rep) with
  | None => match all with [] => true | _ => false end
  | Some b => forallb (fun x => Qleb (b - tol b)%Q (sc x)) all
  end.
(* every admissible combination within the gap is reported, and reported once *)
Definition h_complete (cand_names : list str) (rn : list (comb * bool)) (rep : list report) : bool :=
  forallb (fun xb : comb * bool => negb (snd xb) || existsb (fun r => matches cand_names r (fst xb)) rep) rn &&
  nodup_reports rep.
(* everything reported is an admissible combination within the gap *)
Definition h_within (cand_names : list str) (rn : list (comb * bool)) (rep : list report) : bool :=
  forallb (fun r => existsb (fun xb : comb * bool => matches cand_names r (fst xb)) rn) rep.

Definition holds (c : consts) (I : inst) (rep : list report) : list bool :=
  let cv := mcov I in
  let fm := fm_cv I cv in
  let all := all_combs c I in
  let rn := run_of c I all in
  let cn := map a_name (cands_cv I cv) in
  [h_copies I rep; h_xor I fm rep; h_score c I cv fm rep; h_optimal all rep; h_complete cn rn rep; h_within cn rn rep].
Definition o_holds (c : consts) (I : inst) (rep : list report) : out := o_list o_bool (holds c I rep).

(* ---- decidable hypotheses of the noise-free clause: [counts] (name, copies > 0) is a planted multiset of candidates,
        the filtered evidence shows every observed core variant and every reference site with exactly the planted
        number of copies, and every observed core variant is carried by a planted allele ---- *)
Definition planted_ok (c : consts) (I : inst) (counts : list (str * Z)) : list bool :=
  let cv := mcov I in
  let fm := fm_cv I cv in
  let cands := cands_cv I cv in
  let cnt := cnt_of counts in
  [ forallb (fun kv : str * Z => memb str_eqb (fst kv) (map a_name cands) && (0 <? snd kv)) counts && nodupb str_eqb (map fst counts);
    forallb (fun kv : str * Z => cfg_count cands counts (fst kv) =? snd kv) (i_struct I);
    forallb (fun m => Qeqb (obs_cv I cv m) (carriers cands cnt m)) fm;
    forallb (fun pos => Qeqb (obs_cv I cv (ref_mut pos)) (refcopies cands (hascov I) cnt pos)) (sites fm);
    forallb (fun m => negb (Qeqb (carriers cands cnt m) 0)) fm ].

(* ---- C15: the same instance with another per-base evidence table (the indel table, produced by the realigner, is kept) ---- *)
Definition set_tab (I : inst) (t : table) : inst :=
  {| i_alleles := i_alleles I; i_struct := i_struct I; i_muts := i_muts I; i_pcn := i_pcn I; i_hascov := i_hascov I;
     i_cover := {| cv_tab := t; cv_ind := cv_ind (i_cover I) |}; i_par := i_par I; i_major_novel := i_major_novel I; i_gap := i_gap I |}.
